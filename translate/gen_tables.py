"""Translator, part 1: constant tables of the source -> coq/GenTables.v  (fail-closed).

Regenerated on every run from the *current* source under the repository root, so the theorems that
mention these tables are re-checked against what the code says now.
"""
import ast, os, re, sys
sys.path.insert(0, os.path.dirname(os.path.abspath(__file__)))
from gallina import lit, lits


class Fail(Exception):
    pass


def module(repo, rel):
    p = os.path.join(repo, rel)
    try:
        return ast.parse(open(p, encoding='utf-8').read())
    except (OSError, SyntaxError) as e:
        raise Fail(f'{rel}: {e}')


def assigned(mod, name, rel):
    for n in mod.body:
        if isinstance(n, ast.Assign) and len(n.targets) == 1 and isinstance(n.targets[0], ast.Name) and n.targets[0].id == name:
            return n.value
        if isinstance(n, ast.AnnAssign) and isinstance(n.target, ast.Name) and n.target.id == name and n.value is not None:
            return n.value
    raise Fail(f'{rel}: no module-level assignment to {name}')


def str_list(node, what):
    if not isinstance(node, (ast.List, ast.Tuple, ast.Set)) or not all(isinstance(e, ast.Constant) and isinstance(e.value, str) for e in node.elts):
        raise Fail(f'{what}: expected a literal list of strings')
    return [e.value for e in node.elts]


def dict_keys(node, what):
    if not isinstance(node, ast.Dict) or not all(isinstance(k, ast.Constant) and isinstance(k.value, str) for k in node.keys):
        raise Fail(f'{what}: expected a literal dict with string keys')
    return [k.value for k in node.keys]


def dict_str_str(node, what):
    ks = dict_keys(node, what)
    if not all(isinstance(v, ast.Constant) and isinstance(v.value, str) for v in node.values):
        raise Fail(f'{what}: expected string values')
    return list(zip(ks, [v.value for v in node.values]))


def char_class(node, what):
    """re.compile(r'([...])') -> the characters of the class"""
    if not (isinstance(node, ast.Call) and isinstance(node.func, ast.Attribute) and node.func.attr == 'compile'
            and len(node.args) == 1 and isinstance(node.args[0], ast.Constant) and isinstance(node.args[0].value, str)):
        raise Fail(f'{what}: expected re.compile(<literal>)')
    pat = node.args[0].value
    m = re.fullmatch(r'\(\[((?:\\.|[^\\\]\[\-\^])+)\]\)', pat)
    if not m:
        raise Fail(f'{what}: pattern {pat!r} is not a single capturing character class')
    body, out, i = m.group(1), [], 0
    while i < len(body):
        if body[i] == '\\':
            c = body[i + 1]
            if c.isalnum():
                raise Fail(f'{what}: class escape \\{c} not supported')
            out.append(c); i += 2
        else:
            out.append(body[i]); i += 1
    return out


def if_chain_table(fn, what):
    """def f(word): if word == A: return B elif ... -> [(A, B)]; the remaining statements are returned"""
    table, stmts = [], list(fn.body)
    cur = stmts[0] if stmts else None
    rest = stmts[1:]
    while isinstance(cur, ast.If):
        t = cur.test
        if not (isinstance(t, ast.Compare) and len(t.ops) == 1 and isinstance(t.ops[0], ast.Eq) and isinstance(t.left, ast.Name)
                and isinstance(t.comparators[0], ast.Constant) and len(cur.body) == 1 and isinstance(cur.body[0], ast.Return)
                and isinstance(cur.body[0].value, ast.Constant)):
            raise Fail(f'{what}: unsupported branch')
        table.append((t.comparators[0].value, cur.body[0].value.value))
        if len(cur.orelse) == 1 and isinstance(cur.orelse[0], ast.If):
            cur = cur.orelse[0]
        else:
            rest = list(cur.orelse) + rest
            cur = None
    return table, rest


def func(mod, name, rel):
    for n in mod.body:
        if isinstance(n, ast.FunctionDef) and n.name == name:
            return n
    raise Fail(f'{rel}: no function {name}')


def replace_chain(stmts, what):
    """word = word.replace(A, B) ... return word   or   return word.replace(A, B).replace(C, D)   -> [(A, B), ...] in application order"""
    def is_replace(c):
        return (isinstance(c, ast.Call) and isinstance(c.func, ast.Attribute) and c.func.attr == 'replace' and len(c.args) == 2 and not c.keywords
                and all(isinstance(a, ast.Constant) and isinstance(a.value, str) for a in c.args))

    def chain(v, var):
        """pairs of a chain  var.replace(..).replace(..)  (innermost first), or None"""
        acc = []
        while is_replace(v):
            acc.append((v.args[0].value, v.args[1].value))
            v = v.func.value
        if isinstance(v, ast.Name) and (var is None or v.id == var):
            return list(reversed(acc)), v.id
        return None, None
    out, var = [], None
    for st in stmts:
        if isinstance(st, ast.Expr) and isinstance(st.value, ast.Constant) and isinstance(st.value.value, str):
            continue            # a docstring / string comment
        if isinstance(st, ast.Return):
            pairs, v = chain(st.value, var)
            if pairs is None:
                raise Fail(f'{what}: unsupported return')
            return out + pairs
        if isinstance(st, ast.Assign) and len(st.targets) == 1 and isinstance(st.targets[0], ast.Name):
            pairs, v = chain(st.value, var)
            if pairs is not None and pairs and st.targets[0].id == v:
                var = v
                out += pairs
                continue
        raise Fail(f'{what}: unsupported statement')
    raise Fail(f'{what}: no return')


def generate(repo):
    """(text, problems): every group of definitions is read independently; a group that cannot be read is left out of the file (so only the
    Coq files that use it stop building) and reported in `problems`"""
    out = ['(* GENERATED by translate/gen_tables.py from the repository source - do not edit *)',
           'From Coq Require Import List NArith.', 'Import ListNotations.', 'Open Scope N_scope.', '']
    pairs = lambda t: '[' + ';'.join(f'({lit(a)},{lit(b)})' for a, b in t) + ']'
    problems = []

    def group(name, fn):
        try:
            out.extend(fn())
        except Fail as e:
            problems.append(f'{name}: {e}')
            out.append(f'(* group {name} could not be read from the source: see the translator output *)')

    def g_cat():
        cat = module(repo, 'depccg/cat.py')
        puncts = str_list(assigned(cat, 'punctuations', 'cat.py'), 'cat.punctuations')
        specials = char_class(assigned(cat, 'cat_split', 'cat.py'), 'cat.cat_split')
        return [f'Definition puncts : list (list N) := {lits(puncts)}.   (* cat.punctuations = {puncts!r} *)',
                f'Definition specials : list N := [{";".join(str(ord(c)) for c in specials)}].   (* cat.cat_split class {"".join(specials)!r} *)']

    def g_utils():
        utils = module(repo, 'depccg/utils.py')
        norm, rest = if_chain_table(func(utils, 'normalize', 'utils.py'), 'utils.normalize')
        if not (len(rest) == 1 and isinstance(rest[0], ast.Return) and isinstance(rest[0].value, ast.Name)):
            raise Fail('utils.normalize: unsupported tail')
        den, rest = if_chain_table(func(utils, 'denormalize', 'utils.py'), 'utils.denormalize')
        den_repl = replace_chain(rest, 'utils.denormalize')
        return [f'Definition normalize_table : list (list N * list N) := {pairs(norm)}.',
                f'Definition denormalize_table : list (list N * list N) := {pairs(den)}.',
                f'Definition denormalize_replace : list (list N * list N) := {pairs(den_repl)}.']

    def g_prolog():
        prolog = module(repo, 'depccg/printer/prolog.py')
        return [f'Definition prolog_op_mapping : list (list N * list N) := {pairs(dict_str_str(assigned(prolog, "_op_mapping", "prolog.py"), "_op_mapping"))}.',
                f'Definition prolog_ja_combinators : list (list N * list N) := {pairs(dict_str_str(assigned(prolog, "_ja_combinators", "prolog.py"), "_ja_combinators"))}.']

    def g_jareader():
        jar = module(repo, 'depccg/tools/ja/reader.py')
        return [f'Definition ja_reader_combinators : list (list N) := {lits(sorted(str_list(assigned(jar, "combinators", "ja/reader.py"), "ja reader combinators")))}.']

    def g_formatters():
        pr = module(repo, 'depccg/printer/__init__.py')
        return [f'Definition formatter_keys : list (list N) := {lits(dict_keys(assigned(pr, "_formatters", "printer/__init__.py"), "_formatters"))}.']
    for name, fn in (('cat', g_cat), ('utils', g_utils), ('prolog', g_prolog), ('ja_reader', g_jareader), ('formatters', g_formatters)):
        group(name, fn)
    return '\n'.join(out) + '\n', problems


def write_if_changed(path, text):
    old = open(path).read() if os.path.exists(path) else None
    if old != text:
        with open(path, 'w') as f:
            f.write(text)
        return True
    return False


if __name__ == '__main__':
    repo, dst = sys.argv[1], sys.argv[2]
    txt, problems = generate(repo)
    write_if_changed(os.path.join(dst, 'GenTables.v') if os.path.isdir(dst) else dst, txt)
    # exit status 0 even when a group is missing: the tables are shared by all checks, and only the checks whose Coq files use the missing
    # definitions must break (their build does, naming the missing constant); the reason is printed for the evidence
    for p in problems:
        print(f'PARTIAL translator(gen_tables): unsupported or missing construct: {p}')
