"""Translator, part 2: depccg/grammar/en.py, ja.py, __init__.py  ->  coq/GenEn.v, GenJa.v, GenGuess.v  (fail-closed).

usage: gen_grammar.py <repo> <coq dir> [en] [ja] [guess]       (no part named = all three)
Every part is translated on its own: a part that cannot be translated is reported on stderr (naming only that part, exit
status 1) and its old output file is left alone; the other requested parts are still written.  The thin wrappers
gen_grammar_en.py / gen_grammar_ja.py / gen_grammar_guess.py run one part each, so that a check can make only the files
IT needs an obligation (`gens=('tables', 'grammar_en')`).

WHAT IS TRANSLATED.  Every combinator of the literal `combinators` table (pattern pair, side conditions, result
expression, label, symbol, head flag), the rule-key computation of apply_binary_rules, the per-result body of
apply_unary_rules and guess_combinator_by_triplet, from the Python `ast` into Gallina terms in the error monad of Unify.v.
Anything outside the supported subset raises Fail -> the part is not written -> the tie is broken.

CANONICAL FORM.  The generated text is a NORMAL FORM of the Python code, so that semantically identical sources give
byte-identical Gallina (and the proofs over the generated definitions are not touched by a refactoring).  A combinator
becomes a DECISION TREE

    tree ::= do v<k>_ <- prim atom..atom; tree            a primitive that may raise (left_of, right_of, base_of, feature_of,
                                                           uget, functor_of, arg_of, feature_items, first_is_ascii_letter)
           | if atom then tree else tree                   atom : bool, never a constant, never a negation
           | do m_ <- unify lit_i lit_j atom atom;         Unification(p, q)(x, y)
             match m_ with Some u<k>_ => tree | None => tree end
           | Ok_ None | Ok_ (Some {| rcat := atom; op_string := atom; op_symbol := atom; head_is_left := b |})
    atom ::= x | y | result | v<k>_ | lit_i | text | pure primitive applied to atoms (is_fun, cat_eqb, eq_str, text_eqb,
             text_in, show, cat_xor, cat_in, pair_in, Fun _ s _, clear_features)

obtained by evaluating the function body symbolically in continuation-passing style (= normalising with the monad laws):
 (a) calls of private module-level functions (`_name`) are INLINED, whatever their body looks like (statements, early
     returns, locals): the arguments are evaluated first, left to right, to atoms, then the body is translated with the
     `return`s continuing into the caller's continuation.  No helper definitions are emitted.  Recursion -> Fail.
 (b) control flow: `not` in a test swaps the branches; `and` / `or` (in tests and in value position), conditional
     expressions, `if c: return ..` followed by more statements, `elif` chains and nested guards all become nested
     `if atom then .. else ..` with the continuation duplicated; tests on constants are folded; `a ^ "text"` is False.
 (c) local variables disappear: a local is bound to the ATOM of its value (atoms are pure, so the binding can be
     substituted anywhere); every sub-expression that may raise is bound by `do v<k>_ <- ..` at the point where Python
     evaluates it (operands left to right, callee before arguments, arguments before the call, keyword values of
     CombinatorResult in the order written), so the ORDER of possibly-raising steps is Python's.  Bound variables are
     named by nesting depth (`v<k>_`, `u<k>_`), independent of Python identifiers; the loop variable of apply_unary_rules
     is `result`.  Bound-method values (`f = x.functor`) are atoms too and may only be called.
 (c') along one path of the tree a test on an atom that was already tested is decided, and a primitive step that was already
     taken (same primitive, same atoms) reuses the variable bound the first time - it succeeded, so it succeeds again with the
     same value (all values are immutable).  `r = x.right; r.is_functor and r.left == ..` and
     `x.right.is_functor and x.right.left == ..` are the same tree.
 (d) module-level constants (a string, a tuple/list of strings, `Category.parse("..")`, a tuple/list of those) that are
     assigned exactly once are resolved by name; category literals are numbered lit_0, lit_1, .. in order of first
     occurrence in the generated text.
 (e) docstrings, comments, annotations, `pass`, blank lines and code after a `return` are irrelevant.
 (f) apply_binary_rules / apply_unary_rules are executed symbolically over list values ("fresh empty list", "the non-None
     results of every combinator on key K, in table order", "one result per entry of unary_rules[x]") with the tests
     `seen_rules is None`, `K in seen_rules`, `x in unary_rules` as atoms and the same splitting of not/and/or; accepted
     list builders are the accumulator loop, the list comprehension (also `for r in (c(*K),)`, `:=`), a generator of all
     answers filtered by `is not None`, and guard clauses returning `[]`.  The resulting decision tree must be EXACTLY
        if seen_rules is None then collect K else if SK in seen_rules then collect K else []
        if x in unary_rules then map body unary_rules[x] else []
     otherwise Fail.
Types (cat / text / bool / feature / feature items / bound method / result / None) are tracked for every atom and
checked at every primitive, so that an ill-typed use is a translator failure rather than a Coq type error.
"""
import ast, os, re, sys
sys.path.insert(0, os.path.dirname(os.path.abspath(__file__)))
import patconst
from gallina import lit, lits, toks
from gen_tables import Fail, write_if_changed

CAT, TEXT, BOOL, FEAT, ITEMS, METH, CRES, NONE = 'cat', 'text', 'bool', 'feature', 'feature-items', 'bound-method', 'result', 'None'
ATTR_PRIMS = {'left': ('left_of', CAT), 'right': ('right_of', CAT), 'base': ('base_of', TEXT), 'feature': ('feature_of', FEAT)}
METHODS = {'functor', 'clear_features', 'arg', 'unifies', 'items', 'keys', 'values'}
MAX_NODES = 40000
# names with a fixed meaning in the translation and where they must be imported from (None: a builtin, must not be bound at all)
FIXED = {'Unification': ('depccg.unification', 'Unification', 0), 'CombinatorResult': ('depccg.types', 'CombinatorResult', 0),
         'Category': ('depccg.cat', 'Category', 0), 'ascii_letters': ('string', 'ascii_letters', 0), 'str': None, 'set': None, 'list': None}


class E:
    """an atom: a pure (never raising) typed expression"""
    __slots__ = ('op', 'args', 'ty')

    def __init__(self, op, args, ty):
        self.op, self.args, self.ty = op, tuple(args), ty


def Bool(b):
    return E('bool', (bool(b),), BOOL)


def Text(s):
    return E('text', (s,), TEXT)


def App(f, args, ty):
    return E('app', (f,) + tuple(args), ty)


def neg(a):
    if a.op == 'bool':
        return Bool(not a.args[0])
    if a.op == 'app' and a.args[0] == 'negb':
        return a.args[1]
    return App('negb', [a], BOOL)


class Matcher:
    """a Unification(p, q) object held by a local: fresh, answered True (state u), or spent"""
    def __init__(self, px, py, state='fresh', u=None):
        self.px, self.py, self.state, self.u = px, py, state, u


class Ctx:
    """what `return v`, falling off the end and `L.append(v)` mean for the statements being translated"""
    def __init__(self, ret, fall, append=None):
        self.ret, self.fall, self.append = ret, fall, append


def is_doc(st):
    return isinstance(st, ast.Pass) or (isinstance(st, ast.Expr) and isinstance(st.value, ast.Constant))


def is_none(n):
    return isinstance(n, ast.Constant) and n.value is None


def cstr(n):
    return n.value if isinstance(n, ast.Constant) and isinstance(n.value, str) else None


class T:
    def __init__(self, src, name):
        self.name = name
        self.mod = ast.parse(src)
        self.funcs = {}
        self.consts = {}
        self.pattern_vars = set()
        self.lits = {}
        self.nodes = 0
        self.fresh = 0
        count = {}
        for n in self.mod.body:
            if isinstance(n, (ast.FunctionDef, ast.AsyncFunctionDef, ast.ClassDef)):
                count[n.name] = count.get(n.name, 0) + 1
                if isinstance(n, ast.FunctionDef):
                    self.funcs[n.name] = n
            elif isinstance(n, (ast.Assign, ast.AnnAssign, ast.AugAssign)):
                tgs = n.targets if isinstance(n, ast.Assign) else [n.target]
                for t in tgs:
                    for x in ast.walk(t):
                        if isinstance(x, ast.Name):
                            count[x.id] = count.get(x.id, 0) + 1
                if isinstance(n, ast.AugAssign) or getattr(n, 'value', None) is None or len(tgs) != 1 or not isinstance(tgs[0], ast.Name):
                    continue
                c = self.const_value(n.value)
                if c is not None:
                    self.consts[tgs[0].id] = c
        # a name bound more than once at module level has no single meaning
        self.consts = {k: v for k, v in self.consts.items() if count.get(k) == 1}
        self.funcs = {k: v for k, v in self.funcs.items() if count.get(k) == 1}
        self.module_checks(count)

    def module_checks(self, count):
        """the module is a flat list of imports, constants and functions; the names the translation gives a fixed meaning
        come from where they should; nothing rebinds or mutates a module-level table behind the translator's back"""
        imported = {}
        for n in self.mod.body:
            if isinstance(n, ast.ImportFrom):
                for a in n.names:
                    imported[a.asname or a.name] = (n.module, a.name, n.level)
            elif isinstance(n, ast.Import):
                for a in n.names:
                    imported[(a.asname or a.name).split('.')[0]] = (None, a.name, 0)
            elif not (isinstance(n, (ast.FunctionDef, ast.Assign, ast.AnnAssign)) or is_doc(n)):
                raise Fail(f'module-level statement {type(n).__name__} (line {n.lineno})')
        for nm, src in FIXED.items():
            if count.get(nm) or (nm in imported and imported[nm] != src and src is not None) or (src is None and nm in imported):
                raise Fail(f'the name {nm} is not the one the translation assumes')
            if src is not None and nm not in imported and any(isinstance(x, ast.Name) and x.id == nm for x in ast.walk(self.mod)):
                raise Fail(f'the name {nm} is used but not imported from {src[0]}')
        for nm in imported:
            if count.get(nm):
                raise Fail(f'the imported name {nm} is rebound')
        tables = {k for k, v in self.consts.items() if v[0] in ('cats', 'texts')} | {'combinators'}
        for x in ast.walk(self.mod):
            if isinstance(x, (ast.Global, ast.Nonlocal)):
                raise Fail('global / nonlocal declaration')
            if isinstance(x, (ast.Lambda, ast.ClassDef, ast.AsyncFunctionDef)) or (isinstance(x, ast.FunctionDef) and x not in self.mod.body):
                if any(isinstance(y, ast.Name) and y.id in tables for y in ast.walk(x)):
                    raise Fail('a module-level table is used inside a nested function, lambda or class')
            if isinstance(x, ast.Attribute) and isinstance(x.value, ast.Name) and x.value.id in tables and x.attr not in ('index', 'count', '__len__', '__contains__', '__iter__'):
                raise Fail(f'{x.value.id}.{x.attr}: a module-level table may only be read')
            if isinstance(x, (ast.Subscript, ast.Starred)) and isinstance(x.value, ast.Name) and x.value.id in tables and not isinstance(x.ctx, ast.Load):
                raise Fail(f'{x.value.id}[...] is assigned or deleted')
            if isinstance(x, ast.AugAssign) and any(isinstance(y, ast.Name) and y.id in tables for y in ast.walk(x.target)):
                raise Fail('a module-level table is updated in place')

    # ---- module-level constants -----------------------------------------------------------------------
    @staticmethod
    def is_parse_lit(v):
        return (isinstance(v, ast.Call) and isinstance(v.func, ast.Attribute) and v.func.attr == 'parse'
                and isinstance(v.func.value, ast.Name) and v.func.value.id == 'Category' and not v.keywords
                and len(v.args) == 1 and cstr(v.args[0]) is not None)

    def const_value(self, v):
        if self.is_parse_lit(v):
            return ('cat', v.args[0].value)
        if isinstance(v, ast.Constant) and isinstance(v.value, bool):
            return ('bool', v.value)
        if cstr(v) is not None:
            return ('text', v.value)
        if isinstance(v, (ast.Tuple, ast.List)) and v.elts:
            if all(self.is_parse_lit(e) for e in v.elts):
                return ('cats', [e.args[0].value for e in v.elts])
            if all(cstr(e) is not None for e in v.elts):
                return ('texts', [e.value for e in v.elts])
        return None

    def pattern(self, s):
        for v in re.findall(r'[^\[\]()/\\|<>\s]+', s):
            if len(v) != 1 or not v.isalpha():
                raise Fail(f'pattern variable {v!r} in {s!r} is not a single letter (the key scheme of the model needs that)')
            self.pattern_vars.add(v)
        return s

    # ---- building blocks ------------------------------------------------------------------------------
    def node(self, *t):
        self.nodes += 1
        if self.nodes > MAX_NODES:
            raise Fail('the decision tree of a function is too large')
        return t

    def var(self, ty, op='var'):
        self.fresh += 1
        return E(op, (self.fresh,), ty)

    def bind(self, prim, args, ty, k):
        v = self.var(ty)
        return self.node('bind', v, prim, list(args), k(v))

    def want(self, a, ty, what):
        if not isinstance(a, E) or a.ty != ty:
            raise Fail(f'{what}: expected a {ty} value, found {a.ty if isinstance(a, E) else "matcher object"}')
        return a

    def mk_if(self, a, kt, kf):
        """kt, kf are thunks; the canonical true branch is built first"""
        self.want(a, BOOL, 'test')
        if a.op == 'bool':
            return kt() if a.args[0] else kf()
        if a.op == 'app' and a.args[0] == 'negb':
            return self.mk_if(a.args[1], kf, kt)
        t = kt()
        return self.node('if', a, t, kf())

    def vals(self, nodes, env, k, acc=()):
        if not nodes:
            return k(list(acc))
        return self.val(nodes[0], env, lambda a: self.vals(nodes[1:], env, k, acc + (a,)))

    def private(self, f, env):
        return isinstance(f, ast.Name) and f.id not in env and f.id in self.funcs and f.id.startswith('_')

    # ---- expressions: val(n, env, k) evaluates n in Python's order and passes its atom to k ------------------
    def val(self, n, env, k):
        if isinstance(n, ast.Constant):
            if isinstance(n.value, bool):
                return k(Bool(n.value))
            if isinstance(n.value, str):
                return k(Text(n.value))
            if n.value is None:
                return k(E('none', (), NONE))
            raise Fail(f'constant {n.value!r}')
        if isinstance(n, ast.Name):
            if n.id in env:
                v = env[n.id]
                if not isinstance(v, E):
                    raise Fail(f'the matcher object {n.id} is used as a value')
                return k(v)
            c = self.consts.get(n.id)
            if c is not None and c[0] == 'cat':
                return k(E('catlit', (c[1],), CAT))
            if c is not None and c[0] == 'text':
                return k(Text(c[1]))
            if c is not None and c[0] == 'bool':
                return k(Bool(c[1]))
            raise Fail(f'name {n.id}')
        if isinstance(n, ast.Attribute):
            a = n.attr

            def got(o):
                if a in ATTR_PRIMS:
                    prim, ty = ATTR_PRIMS[a]
                    return self.bind(prim, [self.want(o, CAT, '.' + a)], ty, k)
                if a == 'is_functor':
                    return k(App('is_fun', [self.want(o, CAT, '.' + a)], BOOL))
                if a == 'is_atomic':
                    return k(neg(App('is_fun', [self.want(o, CAT, '.' + a)], BOOL)))
                if a in METHODS:
                    if o.ty not in (CAT, FEAT):
                        raise Fail(f'.{a} of a {o.ty} value')
                    return k(E('method', (o, a), METH))
                raise Fail(f'attribute {a}')
            return self.val(n.value, env, got)
        if isinstance(n, ast.Subscript):
            if isinstance(n.value, ast.Name) and isinstance(env.get(n.value.id), Matcher) and cstr(n.slice) is not None:
                m = env[n.value.id]
                if m.state != 'ok':
                    raise Fail(f'{n.value.id}[...] read outside a successful match')
                return self.bind('uget', [m.u, Text(n.slice.value)], CAT, k)
            raise Fail('subscript ' + ast.dump(n)[:120])
        if isinstance(n, ast.BinOp) and isinstance(n.op, (ast.Div, ast.BitOr)):
            sl = '/' if isinstance(n.op, ast.Div) else '\\'
            return self.vals([n.left, n.right], env, lambda ab: k(App('Fun', [self.want(ab[0], CAT, sl), Text(sl), self.want(ab[1], CAT, sl)], CAT)))
        if isinstance(n, ast.BinOp) and isinstance(n.op, ast.BitXor):
            def xor(ab):
                a, b = ab
                self.want(a, CAT, '^')
                if b.ty == TEXT:
                    return k(Bool(False))          # category ^ str is False in Python
                return k(App('cat_xor', [a, self.want(b, CAT, '^')], BOOL))
            return self.vals([n.left, n.right], env, xor)
        if isinstance(n, ast.UnaryOp) and isinstance(n.op, ast.Not):
            return self.val(n.operand, env, lambda a: k(neg(self.want(a, BOOL, 'not'))))
        if isinstance(n, ast.BoolOp):
            return self.cond(n, env, lambda e: k(Bool(True)), lambda e: k(Bool(False)))
        if isinstance(n, ast.IfExp):
            return self.cond(n.test, env, lambda e: self.val(n.body, e, k), lambda e: self.val(n.orelse, e, k))
        if isinstance(n, ast.Compare):
            return self.compare(n, env, k)
        if isinstance(n, ast.Call):
            return self.call(n, env, k)
        raise Fail('expression ' + ast.dump(n)[:160])

    def compare(self, n, env, k):
        if len(n.ops) != 1:
            raise Fail('chained comparison')
        op, l, r = n.ops[0], n.left, n.comparators[0]
        if isinstance(op, (ast.Eq, ast.NotEq)):
            def eq(ab):
                a, b = ab
                if a.ty == METH and b.ty == TEXT:
                    res = Bool(False)               # a bound method compared with a string (the method is never called)
                elif a.ty == CAT and b.ty == TEXT:
                    res = App('eq_str', [a, b], BOOL)
                elif a.ty == TEXT and b.ty == CAT:
                    res = App('eq_str', [b, a], BOOL)     # str.__eq__ declines, Category.__eq__ answers
                elif a.ty == CAT and b.ty == CAT:
                    res = App('cat_eqb', [a, b], BOOL)
                elif a.ty == TEXT and b.ty == TEXT:
                    res = App('text_eqb', [a, b], BOOL)
                else:
                    raise Fail(f'comparison of a {a.ty} with a {b.ty}')
                return k(neg(res) if isinstance(op, ast.NotEq) else res)
            return self.vals([l, r], env, eq)
        if isinstance(op, (ast.In, ast.NotIn)):
            return self.member(l, r, env, (lambda a: k(neg(a))) if isinstance(op, ast.NotIn) else k)
        raise Fail('comparison ' + ast.dump(op))

    def member(self, l, r, env, k):
        coll = None
        if isinstance(r, (ast.Tuple, ast.List)) and r.elts and all(cstr(x) is not None for x in r.elts):
            coll = ('texts', [x.value for x in r.elts])
        elif isinstance(r, ast.Name) and r.id not in env:
            if r.id in self.consts and self.consts[r.id][0] in ('texts', 'cats'):
                coll = self.consts[r.id]
            elif r.id == 'ascii_letters' and r.id not in self.consts:
                coll = ('ascii',)
        elif isinstance(r, ast.Name) and isinstance(env[r.id], E) and env[r.id].ty == ITEMS:
            coll = ('items', env[r.id])
        if coll is None:
            raise Fail('membership test in ' + ast.dump(r)[:120])
        if coll[0] == 'texts':
            ls = E('textlist', (tuple(coll[1]),), 'list text')

            def t(a):
                if a.ty == TEXT:
                    return k(App('text_in', [a, ls], BOOL))
                # category in ("..", ..): element == category compares the texts
                return k(App('text_in', [App('show', [self.want(a, CAT, 'in')], TEXT), ls], BOOL))
            return self.val(l, env, t)
        if coll[0] == 'cats':
            ls = E('catlist', (tuple(coll[1]),), 'list cat')
            return self.val(l, env, lambda a: k(App('cat_in', [self.want(a, CAT, 'in'), ls], BOOL)))
        if coll[0] == 'ascii':
            if not (isinstance(l, ast.Subscript) and isinstance(l.slice, ast.Constant) and l.slice.value == 0 and type(l.slice.value) is int):
                raise Fail('only t[0] in ascii_letters is supported')
            return self.val(l.value, env, lambda a: self.bind('first_is_ascii_letter', [self.want(a, TEXT, '[0]')], BOOL, k))
        if not (isinstance(l, ast.Tuple) and len(l.elts) == 2 and all(cstr(x) is not None for x in l.elts)):
            raise Fail('only a literal (key, value) pair can be looked up in feature items')
        return k(App('pair_in', [Text(l.elts[0].value), Text(l.elts[1].value), coll[1]], BOOL))

    def cres(self, n, env, k):
        if n.args or any(kw.arg is None for kw in n.keywords):
            raise Fail('CombinatorResult(...) must use the four keywords')
        names = [kw.arg for kw in n.keywords]
        if sorted(names) != ['cat', 'head_is_left', 'op_string', 'op_symbol']:
            raise Fail('CombinatorResult(...) must use the four keywords')

        def built(vs):
            d = dict(zip(names, vs))
            self.want(d['cat'], CAT, 'cat='), self.want(d['op_string'], TEXT, 'op_string='), self.want(d['op_symbol'], TEXT, 'op_symbol=')
            if d['head_is_left'].op != 'bool':
                raise Fail('head_is_left must be a constant')
            return k(E('cres', (d['cat'], d['op_string'], d['op_symbol'], d['head_is_left'].args[0]), CRES))
        return self.vals([kw.value for kw in n.keywords], env, built)

    def call(self, n, env, k):
        f = n.func
        if self.private(f, env):
            return self.inline(f.id, n, env, lambda fenv: Ctx(ret=lambda v, e: self.ret_val(v, e, k), fall=self.no_fall(f.id)))
        if self.is_parse_lit(n) and 'Category' not in env:
            return k(E('catlit', (n.args[0].value,), CAT))
        if isinstance(f, ast.Name) and f.id not in env and f.id not in self.funcs and f.id not in self.consts:
            if n.keywords and f.id != 'CombinatorResult':
                raise Fail(f'keyword arguments of {f.id}()')
            if f.id == 'CombinatorResult':
                return self.cres(n, env, k)
            if f.id == 'str' and len(n.args) == 1:
                return self.val(n.args[0], env, lambda a: k(a if a.ty == TEXT else App('show', [self.want(a, CAT, 'str()')], TEXT)))
            if f.id == 'bool' and len(n.args) == 1 and not isinstance(n.args[0], ast.Starred):
                return self.val(n.args[0], env, lambda a: k(self.want(a, BOOL, 'bool()')))       # bool(b) of a truth value is b
            if f.id == 'set' and len(n.args) == 1:
                a = n.args[0]
                if isinstance(a, ast.Call) and isinstance(a.func, ast.Attribute) and a.func.attr == 'items' and not a.args and not a.keywords:
                    return self.val(a.func.value, env, lambda o: self.bind('feature_items', [self.want(o, FEAT, '.items()')], ITEMS, k))
            raise Fail('call ' + ast.dump(n)[:160])
        if n.keywords:
            raise Fail('keyword arguments in a method call')
        if isinstance(f, ast.Attribute) and f.attr == 'clear_features' and all(cstr(a) is not None for a in n.args):
            names = E('textlist', (tuple(a.value for a in n.args),), 'list text')
            return self.val(f.value, env, lambda o: k(App('clear_features', [names, self.want(o, CAT, '.clear_features')], CAT)))
        if isinstance(f, ast.Attribute) and f.attr == 'arg' and len(n.args) == 1 and isinstance(n.args[0], ast.Constant) and type(n.args[0].value) is int and n.args[0].value >= 0:
            return self.val(f.value, env, lambda o: self.bind('arg_of', [self.want(o, CAT, '.arg'), E('nat', (n.args[0].value,), 'nat')], CAT, k))

        # a bound method (x.functor, or a local holding one) applied to two categories
        def applied(m):
            if not (isinstance(m, E) and m.ty == METH and m.args[1] == 'functor' and m.args[0].ty == CAT and len(n.args) == 2):
                raise Fail('call ' + ast.dump(n)[:160])
            return self.vals(n.args, env, lambda ab: self.bind('functor_of', [m.args[0], self.want(ab[0], CAT, 'functor()'), self.want(ab[1], CAT, 'functor()')], CAT, k))
        return self.val(f, env, applied)

    # ---- inlining of private helpers ----------------------------------------------------------------------
    def no_fall(self, fname):
        def fall(env):
            raise Fail(f'a path of {fname} falls off the end where a value is needed')
        return fall

    def ret_val(self, v, env, k):
        if v is None:
            return k(E('none', (), NONE))
        return self.val(v, env, k)

    def inline(self, fname, call, env, mkctx):
        stack = env.get('__stack', ())
        if fname in stack:
            raise Fail(f'recursive helper {fname}')
        fn = self.funcs[fname]
        a = fn.args
        if a.vararg or a.kwarg or a.kwonlyargs or a.posonlyargs or fn.decorator_list:
            raise Fail(f'{fname}: unsupported signature')
        params = [p.arg for p in a.args]
        if any(isinstance(x, ast.Starred) for x in call.args) or any(kw.arg is None for kw in call.keywords):
            raise Fail(f'{fname}(*..)')
        names = params[:len(call.args)] + [kw.arg for kw in call.keywords]
        if len(call.args) > len(params) or sorted(names) != sorted(params):
            raise Fail(f'{fname}: the call does not name every parameter exactly once (defaults are not supported)')

        def body(vs):
            fenv = dict(zip(names, vs))
            fenv['__stack'] = stack + (fname,)
            return self.stmts(fn.body, fenv, mkctx(fenv))
        return self.vals(list(call.args) + [kw.value for kw in call.keywords], env, body)

    # ---- tests: cond(t, env, kt, kf); kt / kf receive the environment (a successful match binds its object) ------------
    def cond(self, t, env, kt, kf):
        if isinstance(t, ast.UnaryOp) and isinstance(t.op, ast.Not):
            return self.cond(t.operand, env, kf, kt)
        if isinstance(t, ast.BoolOp):
            def chain(i, e):
                if i == len(t.values) - 1:
                    return self.cond(t.values[i], e, kt, kf)
                if isinstance(t.op, ast.And):
                    return self.cond(t.values[i], e, lambda e2: chain(i + 1, e2), kf)
                return self.cond(t.values[i], e, kt, lambda e2: chain(i + 1, e2))
            return chain(0, env)
        if isinstance(t, ast.IfExp):
            return self.cond(t.test, env, lambda e: self.cond(t.body, e, kt, kf), lambda e: self.cond(t.orelse, e, kt, kf))
        if isinstance(t, ast.Call) and isinstance(t.func, ast.Name) and isinstance(env.get(t.func.id), Matcher):
            m, nm = env[t.func.id], t.func.id
            if m.state != 'fresh':
                raise Fail(f'{nm}(...) is called a second time (a matcher answers only once)')
            if len(t.args) != 2 or t.keywords:
                raise Fail(f'{nm}(...) needs two arguments')

            def match(ab):
                u = self.var('ustate', 'uvar')
                e_ok, e_no = dict(env), dict(env)
                e_ok[nm] = Matcher(m.px, m.py, 'ok', u)
                e_no[nm] = Matcher(m.px, m.py, 'spent')
                s = kt(e_ok)
                return self.node('unify', m.px, m.py, self.want(ab[0], CAT, nm), self.want(ab[1], CAT, nm), u, s, kf(e_no))
            return self.vals(t.args, env, match)
        if isinstance(t, ast.Call) and self.private(t.func, env):
            return self.inline(t.func.id, t, env, lambda fenv: Ctx(
                ret=lambda v, e: self.cond_ret(v, e, lambda _: kt(env), lambda _: kf(env), t.func.id), fall=self.no_fall(t.func.id)))
        return self.val(t, env, lambda a: self.mk_if(a, lambda: kt(env), lambda: kf(env)))

    def cond_ret(self, v, env, kt, kf, fname):
        if v is None or is_none(v):
            raise Fail(f'{fname} returns None where a truth value is needed')
        return self.cond(v, env, kt, kf)

    # ---- statements -----------------------------------------------------------------------------------
    def stmts(self, ss, env, ctx):
        ss = list(ss)
        while ss and is_doc(ss[0]):
            ss.pop(0)
        if not ss:
            return ctx.fall(env)
        st, rest = ss[0], ss[1:]
        if isinstance(st, ast.Return):
            return ctx.ret(st.value, env)         # statements after a return are dead
        if isinstance(st, (ast.Assign, ast.AnnAssign)) and getattr(st, 'value', None) is not None:
            tgs = st.targets if isinstance(st, ast.Assign) else [st.target]
            if len(tgs) != 1 or not isinstance(tgs[0], ast.Name):
                raise Fail('assignment target ' + ast.dump(tgs[0])[:80])
            tgt, v = tgs[0].id, st.value
            if tgt.startswith('__'):
                raise Fail(f'local name {tgt}')
            if isinstance(v, ast.Call) and isinstance(v.func, ast.Name) and v.func.id == 'Unification' and 'Unification' not in env:
                pats = patconst.unification_patterns(v, self.mod, [k for k in env if not k.startswith('__')])
                if pats is None:
                    raise Fail('Unification(...) whose patterns are not compile-time constants')
                env2 = dict(env)
                env2[tgt] = Matcher(self.pattern(pats[0]), self.pattern(pats[1]))
                return self.stmts(rest, env2, ctx)

            def bound(a):
                env2 = dict(env)
                env2[tgt] = a
                return self.stmts(rest, env2, ctx)
            return self.val(v, env, bound)
        if isinstance(st, ast.If):
            return self.cond(st.test, env, lambda e: self.stmts(st.body + rest, e, ctx), lambda e: self.stmts(st.orelse + rest, e, ctx))
        if (ctx.append is not None and isinstance(st, ast.Expr) and isinstance(st.value, ast.Call) and isinstance(st.value.func, ast.Attribute)
                and st.value.func.attr == 'append' and isinstance(st.value.func.value, ast.Name) and len(st.value.args) == 1 and not st.value.keywords):
            return ctx.append(st.value.func.value.id, st.value.args[0], env, [s for s in rest if not is_doc(s)])
        raise Fail('statement ' + ast.dump(st)[:160])

    # ---- leaves ---------------------------------------------------------------------------------------
    def leaf(self, a, kind):
        if a.ty == CRES:
            return self.node('some' if kind == 'comb' else 'res', *a.args)
        if a.ty == NONE and kind == 'comb':
            return self.node('none')
        raise Fail(f'a {kind} yields a {a.ty} value')

    def combinator(self, c):
        fn = self.funcs.get(c)
        if fn is None or [a.arg for a in fn.args.args] != ['x', 'y'] or fn.args.vararg or fn.args.kwarg or fn.args.kwonlyargs or fn.args.defaults or fn.decorator_list:
            raise Fail(f'combinator {c}(x, y) not found')
        env = {'x': E('param', ('x',), CAT), 'y': E('param', ('y',), CAT), '__stack': (c,)}
        ctx = Ctx(ret=lambda v, e: self.ret_val(v, e, lambda a: self.leaf(a, 'comb')), fall=lambda e: self.node('none'))
        self.nodes = 0
        return self.stmts(fn.body, env, ctx)

    # ---- path-sensitive simplification ----------------------------------------------------------------------
    def akey(self, a, sub):
        if a.op in ('var', 'uvar'):
            r = sub.get(a.args[0])
            return self.akey(r, sub) if r is not None else (a.op, a.args[0])
        return (a.op,) + tuple(self.akey(x, sub) if isinstance(x, E) else x for x in a.args)

    def asub(self, a, sub):
        if a.op in ('var', 'uvar'):
            r = sub.get(a.args[0])
            return self.asub(r, sub) if r is not None else a
        if any(isinstance(x, E) for x in a.args):
            return E(a.op, [self.asub(x, sub) if isinstance(x, E) else x for x in a.args], a.ty)
        return a

    def simp(self, c, known, facts, sub):
        """along one path every atom has one value and a primitive that succeeded once succeeds again with the same value:
        a repeated test is decided, a repeated primitive step reuses the variable bound first"""
        t = c[0]
        if t == 'none':
            return c
        if t in ('some', 'res'):
            return (t, self.asub(c[1], sub), self.asub(c[2], sub), self.asub(c[3], sub), c[4])
        if t == 'bind':
            args = [self.asub(x, sub) for x in c[3]]
            key = (c[2],) + tuple(self.akey(x, {}) for x in args)
            if key in known:
                return self.simp(c[4], known, facts, {**sub, c[1].args[0]: known[key]})
            return ('bind', c[1], c[2], args, self.simp(c[4], {**known, key: c[1]}, facts, sub))
        if t == 'if':
            a = self.asub(c[1], sub)
            key = self.akey(a, {})
            if key in facts:
                return self.simp(c[2] if facts[key] else c[3], known, facts, sub)
            return ('if', a, self.simp(c[2], known, {**facts, key: True}, sub), self.simp(c[3], known, {**facts, key: False}, sub))
        if t == 'unify':
            return ('unify', c[1], c[2], self.asub(c[3], sub), self.asub(c[4], sub), c[5],
                    self.simp(c[6], known, facts, sub), self.simp(c[7], known, facts, sub))
        raise Fail('internal: tree node ' + str(t))

    # ---- printing: names by depth, literals by first occurrence -------------------------------------------------
    def catlit(self, s):
        if s not in self.lits:
            self.lits[s] = f'lit_{len(self.lits)}'
        return self.lits[s]

    def pa(self, a, names):
        o = a.op
        if o == 'bool':
            return 'true' if a.args[0] else 'false'
        if o == 'text':
            return lit(a.args[0])
        if o == 'textlist':
            return lits(list(a.args[0]))
        if o == 'catlist':
            return '[' + ';'.join(self.catlit(s) for s in a.args[0]) + ']'
        if o == 'catlit':
            return self.catlit(a.args[0])
        if o == 'nat':
            return f'{a.args[0]}%nat'
        if o == 'param':
            return a.args[0]
        if o in ('var', 'uvar'):
            return names[a.args[0]]
        if o == 'app':
            return '(' + a.args[0] + ' ' + ' '.join(self.pa(x, names) for x in a.args[1:]) + ')'
        raise Fail(f'a {a.ty} value reaches the generated code')

    def pc(self, c, d, names, ind):
        """c: tree, d: number of enclosing binders, ind: indentation"""
        t = c[0]
        sp = '  ' * ind
        if t == 'none':
            return sp + 'Ok_ None'
        if t in ('some', 'res'):
            rec = (f'{{| rcat := {self.pa(c[1], names)}; op_string := {self.pa(c[2], names)}; op_symbol := {self.pa(c[3], names)}; '
                   f'head_is_left := {"true" if c[4] else "false"} |}}')
            return sp + (f'Ok_ (Some {rec})' if t == 'some' else f'Ok_ {rec}')
        if t == 'bind':
            nm = f'v{d}_'
            head = f'{sp}do {nm} <- {c[2]} ' + ' '.join(self.pa(x, names) for x in c[3]) + ';\n'
            return head + self.pc(c[4], d + 1, {**names, c[1].args[0]: nm}, ind)
        if t == 'if':
            return (f'{sp}if {self.pa(c[1], names)} then (\n{self.pc(c[2], d, names, ind + 1)})\n{sp}else (\n{self.pc(c[3], d, names, ind + 1)})')
        if t == 'unify':
            nm = f'u{d}_'
            px, py = self.catlit(c[1]), self.catlit(c[2])
            head = f'{sp}do m_ <- unify {px} {py} {self.pa(c[3], names)} {self.pa(c[4], names)};\n{sp}match m_ with\n'
            some = f'{sp}| Some {nm} => (\n{self.pc(c[6], d + 1, {**names, c[5].args[0]: nm}, ind + 1)})\n'
            none = f'{sp}| None => (\n{self.pc(c[7], d, names, ind + 1)})\n{sp}end'
            return head + some + none
        raise Fail('internal: tree node ' + str(t))

    # ---- the list-building wrappers, executed symbolically ---------------------------------------------------
    def wrapper(self, fn, atom, value, loop):
        """decision tree of a wrapper: ('if', atom, T, F) | ('ret', list value); see the classes below for the hooks"""
        def cond(t, env, kt, kf):
            if isinstance(t, ast.UnaryOp) and isinstance(t.op, ast.Not):
                return cond(t.operand, env, kf, kt)
            if isinstance(t, ast.BoolOp):
                def chain(i):
                    if i == len(t.values) - 1:
                        return cond(t.values[i], env, kt, kf)
                    if isinstance(t.op, ast.And):
                        return cond(t.values[i], env, lambda: chain(i + 1), kf)
                    return cond(t.values[i], env, kt, lambda: chain(i + 1))
                return chain(0)
            key, positive = atom(t, env)
            if not positive:
                kt, kf = kf, kt
            a = kt()
            return ('if', key, a, kf())

        def stmts(ss, env):
            ss = [s for s in ss]
            while ss and is_doc(ss[0]):
                ss.pop(0)
            if not ss:
                raise Fail(f'{fn.name}: a path falls off the end')
            st, rest = ss[0], ss[1:]
            if isinstance(st, ast.Return):
                if st.value is None:
                    raise Fail(f'{fn.name}: bare return')
                v = value(st.value, env)
                if v[0] != 'list':
                    raise Fail(f'{fn.name}: returns something that is not one of the recognised lists')
                return ('ret', v)
            if isinstance(st, (ast.Assign, ast.AnnAssign)) and getattr(st, 'value', None) is not None:
                tgs = st.targets if isinstance(st, ast.Assign) else [st.target]
                if len(tgs) != 1 or not isinstance(tgs[0], ast.Name) or tgs[0].id in [a.arg for a in fn.args.args]:
                    raise Fail(f'{fn.name}: unsupported assignment')
                env = dict(env)
                v = value(st.value, env)
                if isinstance(st.value, ast.Name) and v[0] != 'key':
                    raise Fail(f'{fn.name}: a second name for a list or generator')
                env[tgs[0].id] = v
                return stmts(rest, env)
            if isinstance(st, ast.If):
                return cond(st.test, env, lambda: stmts(st.body + rest, dict(env)), lambda: stmts(st.orelse + rest, dict(env)))
            if isinstance(st, ast.For) and not st.orelse:
                env = dict(env)
                loop(st, env)
                return stmts(rest, env)
            raise Fail(f'{fn.name}: unsupported statement ' + ast.dump(st)[:120])
        return stmts(fn.body, {})

    @staticmethod
    def not_none(t, name):
        """`name is not None`"""
        return (isinstance(t, ast.Compare) and len(t.ops) == 1 and isinstance(t.ops[0], ast.IsNot) and isinstance(t.left, ast.Name)
                and t.left.id == name and is_none(t.comparators[0]))

    def binary_wrapper(self):
        """apply_binary_rules: which features are erased for the rule key and for the seen-rule key"""
        fn = self.funcs.get('apply_binary_rules')
        a = fn.args if fn is not None else None
        if (fn is None or [p.arg for p in a.args] != ['x', 'y', 'seen_rules'] or a.vararg or a.kwarg or a.kwonlyargs or fn.decorator_list
                or len(a.defaults) != 1 or not is_none(a.defaults[0])):
            raise Fail('apply_binary_rules(x, y, seen_rules=None) not found')
        W = 'apply_binary_rules'

        def component(node, var, env=None):
            if isinstance(node, ast.Name) and env is not None and node.id in env:
                v = env[node.id]       # a local bound to x / y with some features erased
                if v[0] == 'comp' and v[1] == var:
                    return v[2]
                raise Fail(f'{W}: unsupported key component')
            if isinstance(node, ast.Name) and node.id == var:
                return ()
            if (isinstance(node, ast.Call) and isinstance(node.func, ast.Attribute) and node.func.attr == 'clear_features' and not node.keywords
                    and isinstance(node.func.value, ast.Name) and node.func.value.id == var and all(cstr(x) is not None for x in node.args)):
                return tuple(x.value for x in node.args)
            raise Fail(f'{W}: unsupported key component')

        def key_of_args(args, env):
            """the pair a combinator is applied to: c(*K) or c(A, B)"""
            if len(args) == 1 and isinstance(args[0], ast.Starred):
                v = value(args[0].value, env)
            elif len(args) == 2 and not any(isinstance(x, ast.Starred) for x in args):
                v = ('key', component(args[0], 'x', env), component(args[1], 'y', env))
            else:
                raise Fail(f'{W}: a combinator is not applied to one pair')
            if v[0] != 'key':
                raise Fail(f'{W}: a combinator is not applied to a key pair')
            return v

        def comb_call(node, cname, env):
            if not (isinstance(node, ast.Call) and isinstance(node.func, ast.Name) and node.func.id == cname and not node.keywords):
                raise Fail(f'{W}: expected a call of the loop variable {cname}')
            return key_of_args(node.args, env)

        def over_combinators(g):
            if not (isinstance(g.iter, ast.Name) and g.iter.id == 'combinators' and isinstance(g.target, ast.Name) and not g.is_async):
                raise Fail(f'{W}: expected an iteration over `combinators`')
            return g.target.id

        def value(n, env):
            if isinstance(n, ast.Name):
                if n.id not in env or n.id == 'combinators':
                    raise Fail(f'{W}: name {n.id}')
                v = env[n.id]
                if v[0] == 'spent':
                    raise Fail(f'{W}: the generator {n.id} is consumed twice')
                return v
            if isinstance(n, ast.Tuple) and len(n.elts) == 2:
                return ('key', component(n.elts[0], 'x', env), component(n.elts[1], 'y', env))
            if (isinstance(n, ast.List) and not n.elts) or (isinstance(n, ast.Call) and isinstance(n.func, ast.Name) and n.func.id == 'list' and not n.args and not n.keywords):
                return ('list', None)
            if (isinstance(n, ast.Call) and isinstance(n.func, ast.Attribute) and n.func.attr == 'clear_features' and isinstance(n.func.value, ast.Name)
                    and n.func.value.id in ('x', 'y') and n.func.value.id not in env):
                return ('comp', n.func.value.id, component(n, n.func.value.id))       # one side of a key, bound to a local
            if (isinstance(n, ast.Attribute) and n.attr == 'append' and isinstance(n.value, ast.Name) and env.get(n.value.id) == ('list', None)
                    and sum(1 for m in ast.walk(fn) if isinstance(m, ast.Name) and m.id == n.value.id and isinstance(m.ctx, (ast.Store, ast.Del))) == 1):
                return ('appender', n.value.id)       # L.append of a list that is bound once in the whole function
            if isinstance(n, (ast.ListComp, ast.GeneratorExp)):
                gs = n.generators
                lazy = isinstance(n, ast.GeneratorExp)
                # every answer, None included:  c(*K) for c in combinators
                if len(gs) == 1 and not gs[0].ifs and isinstance(gs[0].iter, ast.Name) and gs[0].iter.id == 'combinators':
                    c = over_combinators(gs[0])
                    e2 = dict(env)
                    e2.pop(c, None)
                    return ('gen' if lazy else 'all', comb_call(n.elt, c, e2))
                if lazy or not isinstance(n.elt, ast.Name):
                    raise Fail(f'{W}: unsupported comprehension')
                r = n.elt.id
                # r for c in combinators for r in (c(*K),) if r is not None
                if len(gs) == 2 and not gs[0].ifs and len(gs[1].ifs) == 1 and self.not_none(gs[1].ifs[0], r):
                    c = over_combinators(gs[0])
                    g = gs[1]
                    if (isinstance(g.target, ast.Name) and g.target.id == r and r != c and isinstance(g.iter, (ast.Tuple, ast.List)) and len(g.iter.elts) == 1):
                        e2 = dict(env)
                        e2.pop(c, None)
                        return ('list', comb_call(g.iter.elts[0], c, e2))
                # r for c in combinators if (r := c(*K)) is not None
                if len(gs) == 1 and len(gs[0].ifs) == 1 and isinstance(gs[0].iter, ast.Name) and gs[0].iter.id == 'combinators':
                    c = over_combinators(gs[0])
                    t = gs[0].ifs[0]
                    if (isinstance(t, ast.Compare) and len(t.ops) == 1 and isinstance(t.ops[0], ast.IsNot) and is_none(t.comparators[0])
                            and isinstance(t.left, ast.NamedExpr) and t.left.target.id == r and r != c):
                        e2 = dict(env)
                        e2.pop(c, None)
                        return ('list', comb_call(t.left.value, c, e2))
                # r for r in <every answer> if r is not None
                if len(gs) == 1 and len(gs[0].ifs) == 1 and self.not_none(gs[0].ifs[0], r) and isinstance(gs[0].target, ast.Name) and gs[0].target.id == r:
                    src = value(gs[0].iter, env)
                    if src[0] in ('gen', 'all'):
                        if src[0] == 'gen' and isinstance(gs[0].iter, ast.Name):
                            env[gs[0].iter.id] = ('spent',)
                        return ('list', src[1])
                raise Fail(f'{W}: unsupported comprehension')
            raise Fail(f'{W}: unsupported expression ' + ast.dump(n)[:100])

        def atom(t, env):
            if isinstance(t, ast.Compare) and len(t.ops) == 1:
                op, l, r = t.ops[0], t.left, t.comparators[0]
                if isinstance(op, (ast.Is, ast.IsNot)) and isinstance(l, ast.Name) and l.id == 'seen_rules' and is_none(r):
                    return 'none', isinstance(op, ast.Is)
                if isinstance(op, (ast.In, ast.NotIn)) and isinstance(r, ast.Name) and r.id == 'seen_rules' and 'seen_rules' not in env:
                    v = value(l, env)
                    if v[0] == 'key':
                        return ('in', v), isinstance(op, ast.In)
            raise Fail(f'{W}: unsupported test ' + ast.dump(t)[:120])

        def loop(st, env):
            """for c in combinators: r = c(*K); if r is not None: L.append(r)"""
            if not (isinstance(st.iter, ast.Name) and st.iter.id == 'combinators' and isinstance(st.target, ast.Name)):
                raise Fail(f'{W}: unexpected loop')
            c = st.target.id
            body = [s for s in st.body if not is_doc(s)]
            ok = len(body) in (2, 3) and isinstance(body[0], ast.Assign) and len(body[0].targets) == 1 and isinstance(body[0].targets[0], ast.Name)
            if not ok:
                raise Fail(f'{W}: unexpected combinator loop')
            r = body[0].targets[0].id
            e2 = dict(env)
            e2.pop(c, None)
            key = comb_call(body[0].value, c, e2)

            def append_to(s):
                if (isinstance(s, ast.Expr) and isinstance(s.value, ast.Call) and isinstance(s.value.func, ast.Name) and env.get(s.value.func.id, ('',))[0] == 'appender'
                        and len(s.value.args) == 1 and not s.value.keywords and isinstance(s.value.args[0], ast.Name) and s.value.args[0].id == r
                        and s.value.func.id not in (c, r)):
                    return env[s.value.func.id][1]
                if (isinstance(s, ast.Expr) and isinstance(s.value, ast.Call) and isinstance(s.value.func, ast.Attribute) and s.value.func.attr == 'append'
                        and isinstance(s.value.func.value, ast.Name) and len(s.value.args) == 1 and not s.value.keywords
                        and isinstance(s.value.args[0], ast.Name) and s.value.args[0].id == r):
                    return s.value.func.value.id
                raise Fail(f'{W}: unexpected combinator loop')
            if len(body) == 2:
                i = body[1]
                if not (isinstance(i, ast.If) and self.not_none(i.test, r) and not i.orelse and len([s for s in i.body if not is_doc(s)]) == 1):
                    raise Fail(f'{W}: unexpected combinator loop')
                L = append_to([s for s in i.body if not is_doc(s)][0])
            else:
                i = body[1]
                is_n = (isinstance(i, ast.If) and isinstance(i.test, ast.Compare) and len(i.test.ops) == 1 and isinstance(i.test.ops[0], ast.Is)
                        and isinstance(i.test.left, ast.Name) and i.test.left.id == r and is_none(i.test.comparators[0])
                        and not i.orelse and len(i.body) == 1 and isinstance(i.body[0], ast.Continue))
                if not is_n:
                    raise Fail(f'{W}: unexpected combinator loop')
                L = append_to(body[2])
            if len({c, r, L}) != 3 or env.get(L) != ('list', None) or r in env or c in env:
                raise Fail(f'{W}: the loop does not fill a fresh empty list')
            env[L] = ('list', key)

        tree = self.wrapper(fn, atom, value, loop)
        K = SK = None
        if tree[0] == 'if' and tree[1] == 'none' and tree[2][0] == 'ret' and tree[3][0] == 'if' and tree[3][1][0] == 'in':
            K, SK = tree[2][1][1], tree[3][1][1]
            if tree != ('if', 'none', ('ret', ('list', K)), ('if', ('in', SK), ('ret', ('list', K)), ('ret', ('list', None)))):
                K = None
        if K is None or SK is None:
            raise Fail(f'{W}: the function is not `all combinators on the key if seen_rules is None or the seen-key is in it, else []`')
        if K[1] != K[2] or SK[1] != SK[2]:
            raise Fail(f'{W}: x and y are keyed differently')
        return list(K[1]), list(SK[1])

    def unary_wrapper(self):
        fn = self.funcs.get('apply_unary_rules')
        a = fn.args if fn is not None else None
        if fn is None or [p.arg for p in a.args] != ['x', 'unary_rules'] or a.vararg or a.kwarg or a.kwonlyargs or a.defaults or fn.decorator_list:
            raise Fail('apply_unary_rules(x, unary_rules) not found')
        W = 'apply_unary_rules'
        want_iter = ast.dump(ast.parse('unary_rules[x]', mode='eval').body)

        def benv(r):
            if r in ('x', 'unary_rules'):
                raise Fail(f'{W}: the loop variable shadows a parameter')
            return {'x': E('param', ('x',), CAT), r: E('param', ('result',), CAT), '__stack': (W,)}

        def fall(e):
            raise Fail(f'{W}: a path through the loop body appends nothing')

        def ret(v, e):
            raise Fail(f'{W}: return inside the loop')

        def value(n, env):
            if isinstance(n, ast.Name):
                if n.id not in env:
                    raise Fail(f'{W}: name {n.id}')
                return env[n.id]
            if (isinstance(n, ast.List) and not n.elts) or (isinstance(n, ast.Call) and isinstance(n.func, ast.Name) and n.func.id == 'list' and not n.args and not n.keywords):
                return ('list', None)
            if (isinstance(n, ast.Attribute) and n.attr == 'append' and isinstance(n.value, ast.Name) and env.get(n.value.id) == ('list', None)
                    and sum(1 for m in ast.walk(fn) if isinstance(m, ast.Name) and m.id == n.value.id and isinstance(m.ctx, (ast.Store, ast.Del))) == 1):
                return ('appender', n.value.id)       # L.append of a list that is bound once in the whole function
            if isinstance(n, ast.ListComp) and len(n.generators) == 1:
                g = n.generators[0]
                if not g.ifs and not g.is_async and isinstance(g.target, ast.Name) and ast.dump(g.iter) == want_iter and not ({'x', 'unary_rules'} & set(env)):
                    self.nodes = 0
                    return ('list', ('map', self.val(n.elt, benv(g.target.id), lambda v: self.leaf(v, 'unary'))))
            raise Fail(f'{W}: unsupported expression ' + ast.dump(n)[:100])

        def atom(t, env):
            if (isinstance(t, ast.Compare) and len(t.ops) == 1 and isinstance(t.ops[0], (ast.In, ast.NotIn)) and isinstance(t.left, ast.Name) and t.left.id == 'x'
                    and isinstance(t.comparators[0], ast.Name) and t.comparators[0].id == 'unary_rules' and not ({'x', 'unary_rules'} & set(env))):
                return 'in', isinstance(t.ops[0], ast.In)
            raise Fail(f'{W}: unsupported test ' + ast.dump(t)[:120])

        def loop(st, env):
            if not (isinstance(st.target, ast.Name) and ast.dump(st.iter) == want_iter) or ({'x', 'unary_rules'} & set(env)):
                raise Fail(f'{W}: unexpected loop')
            filled = []

            def append(L, node, e, rest):
                if rest:
                    raise Fail(f'{W}: statements after the append')
                if L in e or env.get(L) != ('list', None):
                    raise Fail(f'{W}: the loop does not fill a fresh empty list')
                filled.append(L)
                return self.val(node, e, lambda v: self.leaf(v, 'unary'))
            self.nodes = 0
            body_ast = st.body
            aliases = {k_: v_[1] for k_, v_ in env.items() if v_[0] == 'appender'}
            if aliases:
                # A(e) with A = L.append taken before the loop is L.append(e); the alias must not be rebound in the loop
                if any(isinstance(m, ast.Name) and m.id in aliases and isinstance(m.ctx, (ast.Store, ast.Del)) for s_ in st.body for m in ast.walk(s_)) or st.target.id in aliases:
                    raise Fail(f'{W}: a bound append is rebound in the loop')

                class Unalias(ast.NodeTransformer):
                    def visit_Call(self, node):
                        self.generic_visit(node)
                        if isinstance(node.func, ast.Name) and node.func.id in aliases:
                            node.func = ast.Attribute(value=ast.Name(id=aliases[node.func.id], ctx=ast.Load()), attr='append', ctx=ast.Load())
                        return node
                import copy
                body_ast = [ast.fix_missing_locations(Unalias().visit(copy.deepcopy(s_))) for s_ in st.body]
            body = self.stmts(body_ast, benv(st.target.id), Ctx(ret=ret, fall=fall, append=append))
            if len(set(filled)) != 1:
                raise Fail(f'{W}: the loop fills more than one list')
            env[filled[0]] = ('list', ('map', body))

        fn = self.unlazy(fn, W)
        tree = self.wrapper(fn, atom, value, loop)
        if not (tree[0] == 'if' and tree[1] == 'in' and tree[3] == ('ret', ('list', None)) and tree[2][0] == 'ret'
                and tree[2][1][1] is not None and tree[2][1][1][0] == 'map'):
            raise Fail(f'{W}: the function is not `one result per entry of unary_rules[x] if x is a key, else []`')
        return tree[2][1][1][1]

    @staticmethod
    def unlazy(fn, W):
        return patconst.unlazy(fn)

    # ---- whole module -------------------------------------------------------------------------------
    def combinator_names(self):
        for n in self.mod.body:
            if isinstance(n, (ast.Assign, ast.AnnAssign)):
                tg = n.targets[0] if isinstance(n, ast.Assign) else n.target
                if isinstance(tg, ast.Name) and tg.id == 'combinators':
                    if (not isinstance(n.value, ast.List) or not all(isinstance(e, ast.Name) for e in n.value.elts)
                            or sum(1 for m in ast.walk(self.mod) if isinstance(m, ast.Name) and m.id == 'combinators' and isinstance(m.ctx, (ast.Store, ast.Del))) != 1):
                        break
                    return [e.id for e in n.value.elts]
        raise Fail('no literal `combinators` list (assigned once)')

    def run(self):
        combs = self.combinator_names()
        if len(set(combs)) != len(combs):
            raise Fail('a combinator is listed twice')
        trees = {c: self.combinator(c) for c in combs}
        key_clear, seen_clear = self.binary_wrapper()
        ubody = self.unary_wrapper()
        bodies = {c: self.pc(self.simp(trees[c], {}, {}, {}), 0, {}, 1) for c in combs}
        utext = self.pc(self.simp(ubody, {}, {}, {}), 0, {}, 1)
        N = self.name
        out = [f'(* GENERATED by translate/gen_grammar.py from depccg/grammar/{N.lower()}.py - do not edit *)',
               'From Coq Require Import List NArith Bool.', 'Import ListNotations.',
               'Require Import Cat Unify GramPrims GenTables.', 'Open Scope N_scope.', '']
        for s_, nm in self.lits.items():
            out.append(f'Definition {nm}_src : option cat := parse_lit puncts {toks(s_)}. (* {s_!r} *)')
            out.append(f'Definition {nm} : cat := Eval vm_compute in force {nm}_src.')
        out.append('Example literals_readable : forallb (fun o => match o with Some _ => true | None => false end) ['
                   + '; '.join(f'{nm}_src' for nm in self.lits.values()) + '] = true.')
        out.append('Proof. vm_compute. reflexivity. Qed.')
        for c in combs:
            out.append(f'Definition {c} (x y : cat) : res (option cres) :=\n{bodies[c]}.')
        out.append('Definition combinators : list combinator := [' + '; '.join(combs) + '].')
        out.append(f'Definition key_clear : list text := {lits(key_clear)}.')
        out.append(f'Definition seen_clear : list text := {lits(seen_clear)}.')
        out.append(f'Definition unary_body (x result : cat) : res cres :=\n{utext}.')
        out.append('Definition apply_binary_rules (x y : cat) (seen : option seen_t) : res (list cres) := apply_binary combinators key_clear seen_clear x y seen.')
        out.append('Definition apply_unary_rules (x : cat) (t : unary_table) : res (list cres) := apply_unary unary_body x t.')
        out.append(f'Definition pattern_vars : list text := {lits(sorted(self.pattern_vars))}.')
        return '\n'.join(out) + '\n'


def gen_guess(src):
    mod = ast.parse(src)
    fn = next((n for n in mod.body if isinstance(n, ast.FunctionDef) and n.name == 'guess_combinator_by_triplet'), None)
    if fn is None or [a.arg for a in fn.args.args] != ['binary_rules', 'target', 'x', 'y']:
        raise Fail('guess_combinator_by_triplet(binary_rules, target, x, y) not found')
    body = [s for s in fn.body if not is_doc(s)]
    if not (len(body) == 2 and isinstance(body[0], ast.For) and not body[0].orelse and isinstance(body[1], ast.Return)):
        raise Fail('guess_combinator_by_triplet: unexpected body shape')
    loop = body[0]
    lbody = [s for s in loop.body if not is_doc(s)]
    if not (ast.dump(loop.iter) == ast.dump(ast.parse('binary_rules(x, y)', mode='eval').body) and isinstance(loop.target, ast.Name)
            and loop.target.id not in ('binary_rules', 'target', 'x', 'y')
            and len(lbody) == 1 and isinstance(lbody[0], ast.If)
            and ast.dump(lbody[0].test) == ast.dump(ast.parse(f'{loop.target.id}.cat == target', mode='eval').body)
            and len([s for s in lbody[0].body if not is_doc(s)]) == 1 and not lbody[0].orelse):
        raise Fail('guess_combinator_by_triplet: unexpected loop')
    inner = [s for s in lbody[0].body if not is_doc(s)][0]
    if isinstance(inner, ast.Return) and isinstance(inner.value, ast.Name) and inner.value.id == loop.target.id:
        found = 'Some r_ => r_'
    elif isinstance(inner, ast.Expr) and isinstance(inner.value, ast.Name):
        found = 'Some r_ => unk_'       # the rule is evaluated and dropped: falls through to the default
    else:
        raise Fail('guess_combinator_by_triplet: unexpected statement in the loop')
    v = body[1].value
    # the default may be built by a private single-return helper of the module that is given the target: `return _helper(target)`
    if (isinstance(v, ast.Call) and isinstance(v.func, ast.Name) and v.func.id != 'CombinatorResult' and not v.keywords
            and len(v.args) == 1 and isinstance(v.args[0], ast.Name) and v.args[0].id == 'target'):
        h = next((n for n in mod.body if isinstance(n, ast.FunctionDef) and n.name == v.func.id), None)
        hb = [s_ for s_ in (h.body if h is not None else []) if not is_doc(s_)]
        if (h is not None and h.name.startswith('_') and len(h.args.args) == 1 and not h.args.defaults and not h.args.vararg and not h.args.kwarg
                and len(hb) == 1 and isinstance(hb[0], ast.Return) and isinstance(hb[0].value, ast.Call)):
            par = h.args.args[0].arg

            class _Sub(ast.NodeTransformer):
                def visit_Name(self, node):
                    return ast.copy_location(ast.Name(id='target', ctx=node.ctx), node) if node.id == par else node
            import copy as _copy
            v = _Sub().visit(_copy.deepcopy(hb[0].value))
    if not (isinstance(v, ast.Call) and isinstance(v.func, ast.Name) and v.func.id == 'CombinatorResult' and not v.args):
        raise Fail('guess_combinator_by_triplet: default is not a CombinatorResult')
    kw = {k.arg: k.value for k in v.keywords}
    if not (set(kw) == {'cat', 'op_string', 'op_symbol', 'head_is_left'} and isinstance(kw.get('cat'), ast.Name) and kw['cat'].id == 'target'
            and cstr(kw['op_string']) is not None and cstr(kw['op_symbol']) is not None
            and isinstance(kw['head_is_left'], ast.Constant) and isinstance(kw['head_is_left'].value, bool)):
        raise Fail('guess_combinator_by_triplet: unexpected default fields')
    out = ['(* GENERATED by translate/gen_grammar.py from depccg/grammar/__init__.py - do not edit *)',
           'From Coq Require Import List NArith Bool.', 'Import ListNotations.', 'Require Import Cat Unify GramPrims.', 'Open Scope N_scope.', '',
           '(* guess_combinator_by_triplet(binary_rules, target, x, y), given the list binary_rules(x, y) returns *)',
           'Definition guess (rules : list cres) (target : cat) : cres :=',
           f'  let unk_ := {{| rcat := target; op_string := {lit(kw["op_string"].value)}; op_symbol := {lit(kw["op_symbol"].value)}; head_is_left := {str(bool(kw["head_is_left"].value)).lower()} |}} in',
           f'  match find (fun r => cat_eqb (rcat r) target) rules with {found} | None => unk_ end.']
    return '\n'.join(out) + '\n'


PARTS = {'en': ('en.py', 'GenEn.v', lambda s: T(s, 'En').run()),
         'ja': ('ja.py', 'GenJa.v', lambda s: T(s, 'Ja').run()),
         'guess': ('__init__.py', 'GenGuess.v', gen_guess)}


def main(argv):
    repo, dst = argv[0], argv[1]
    parts = argv[2:] or list(PARTS)
    bad = []
    for p in parts:
        if p not in PARTS:
            sys.exit(f'translator(gen_grammar): unknown part {p!r} (en, ja, guess)')
        src, out, f = PARTS[p]
        rel = f'depccg/grammar/{src}'
        try:
            txt = f(open(os.path.join(repo, 'depccg', 'grammar', src), encoding='utf-8').read())
        except Fail as e:
            bad.append(f'translator(gen_grammar): {rel} -> {out}: unsupported or missing construct: {e}')
            continue
        except RecursionError:
            bad.append(f'translator(gen_grammar): {rel} -> {out}: unsupported or missing construct: nesting too deep')
            continue
        except (OSError, SyntaxError) as e:
            bad.append(f'translator(gen_grammar): {rel} -> {out}: cannot read source: {e}')
            continue
        write_if_changed(os.path.join(dst, out), txt)
    if bad:
        sys.exit('\n'.join(bad))


if __name__ == '__main__':
    main(sys.argv[1:])
