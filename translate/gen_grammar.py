"""Translator, part 2: depccg/grammar/en.py, ja.py, __init__.py  ->  coq/GenEn.v, GenJa.v, GenGuess.v  (fail-closed).

Every combinator (pattern pair, side conditions, result expression, label, symbol, head flag), the helper
predicates, the rule-key computation of apply_binary_rules, the per-result body of apply_unary_rules and
guess_combinator_by_triplet are translated from the Python `ast` into Gallina terms in the error monad of Unify.v.
Anything outside the supported subset raises Fail -> exit status != 0 -> the tie is broken.
"""
import ast, os, sys
sys.path.insert(0, os.path.dirname(os.path.abspath(__file__)))
from gallina import lit, lits, toks
from gen_tables import Fail, write_if_changed

METHODS = {'clear_features', 'arg', 'functor', 'unifies', 'items', 'keys', 'values'}


class T:
    def __init__(self, src, name):
        self.name = name
        self.mod = ast.parse(src)
        self.lits = {}
        self.helpers = {}
        self.funcs = {n.name: n for n in self.mod.body if isinstance(n, ast.FunctionDef)}
        self.consts = {}       # module-level NAME = Category.parse("...")
        self.const_lists = {}  # module-level NAME = [Category.parse("..."), ...]
        self.pattern_vars = set()
        for n in self.mod.body:
            if isinstance(n, ast.Assign) and len(n.targets) == 1 and isinstance(n.targets[0], ast.Name):
                v = n.value
                if self.is_parse_lit(v):
                    self.consts[n.targets[0].id] = v.args[0].value
                elif isinstance(v, ast.List) and v.elts and all(self.is_parse_lit(e) for e in v.elts):
                    self.const_lists[n.targets[0].id] = [e.args[0].value for e in v.elts]

    @staticmethod
    def is_parse_lit(v):
        return (isinstance(v, ast.Call) and isinstance(v.func, ast.Attribute) and v.func.attr == 'parse'
                and isinstance(v.func.value, ast.Name) and v.func.value.id == 'Category'
                and len(v.args) == 1 and isinstance(v.args[0], ast.Constant) and isinstance(v.args[0].value, str))

    def catlit(self, s):
        if s not in self.lits:
            self.lits[s] = f'lit_{len(self.lits)}'
        return self.lits[s]

    def pattern(self, s):
        import re
        for v in re.findall(r'[^\[\]()/\\|<>\s]+', s):
            if len(v) != 1 or not v.isalpha():
                raise Fail(f'pattern variable {v!r} in {s!r} is not a single letter (the key scheme of the model needs that)')
            self.pattern_vars.add(v)
        return self.catlit(s)

    # ---- expressions: a Gallina term of type  res T -------------------------------------------------
    def e(self, n, env):
        if isinstance(n, ast.Constant):
            if isinstance(n.value, bool):
                return f'(Ok_ {str(n.value).lower()})'
            if isinstance(n.value, str):
                return f'(Ok_ {lit(n.value)})'
            raise Fail(f'constant {n.value!r}')
        if isinstance(n, ast.Name):
            if n.id in env:
                return f'(Ok_ {env[n.id]})'
            if n.id in self.consts:
                return f'(Ok_ {self.catlit(self.consts[n.id])})'
            raise Fail(f'name {n.id}')
        if isinstance(n, ast.Attribute):
            a = n.attr
            if a in METHODS:
                raise Fail(f'method {a} referenced without a call outside a comparison')
            v = self.e(n.value, env)
            m = {'is_functor': 'fun c => Ok_ (is_fun c)', 'is_atomic': 'fun c => Ok_ (negb (is_fun c))',
                 'left': 'left_of', 'right': 'right_of', 'base': 'base_of', 'feature': 'feature_of'}
            if a in m:
                return f'(bind {v} ({m[a]}))'
            raise Fail(f'attribute {a}')
        if isinstance(n, ast.Subscript) and isinstance(n.value, ast.Name) and n.value.id == 'uni' and isinstance(n.slice, ast.Constant) and isinstance(n.slice.value, str):
            if 'uni' not in env:
                raise Fail('uni[...] read outside a successful match')
            return f'(uget {env["uni"]} {lit(n.slice.value)})'
        if isinstance(n, ast.BinOp) and isinstance(n.op, (ast.Div, ast.BitOr)):
            sl = '/' if isinstance(n.op, ast.Div) else '\\'
            return f'(do a_ <- {self.e(n.left, env)}; do b_ <- {self.e(n.right, env)}; Ok_ (Fun a_ {lit(sl)} b_))'
        if isinstance(n, ast.BinOp) and isinstance(n.op, ast.BitXor):
            if isinstance(n.right, ast.Constant) and isinstance(n.right.value, str):
                return f'(do _a <- {self.e(n.left, env)}; Ok_ false)'     # category ^ str is False in Python
            return f'(do a_ <- {self.e(n.left, env)}; do b_ <- {self.e(n.right, env)}; Ok_ (cat_xor a_ b_))'
        if isinstance(n, ast.UnaryOp) and isinstance(n.op, ast.Not):
            return f'(do a_ <- {self.e(n.operand, env)}; Ok_ (negb a_))'
        if isinstance(n, ast.BoolOp):
            acc = self.e(n.values[-1], env)
            for v in reversed(n.values[:-1]):
                if isinstance(n.op, ast.And):
                    acc = f'(do a_ <- {self.e(v, env)}; if a_ then {acc} else Ok_ false)'
                else:
                    acc = f'(do a_ <- {self.e(v, env)}; if a_ then Ok_ true else {acc})'
            return acc
        if isinstance(n, ast.IfExp):
            return f'(do c_ <- {self.e(n.test, env)}; if c_ then {self.e(n.body, env)} else {self.e(n.orelse, env)})'
        if isinstance(n, ast.Compare) and len(n.ops) == 1:
            return self.compare(n.left, n.ops[0], n.comparators[0], env)
        if isinstance(n, ast.Call):
            return self.call(n, env)
        raise Fail('expression ' + ast.dump(n)[:160])

    def compare(self, l, op, r, env):
        if isinstance(op, ast.Eq):
            if isinstance(l, ast.Attribute) and l.attr in METHODS and isinstance(r, ast.Constant):
                # a bound method compared with a string: always False (the method is never called)
                return f'(do _a <- {self.e(l.value, env)}; Ok_ false)'
            if isinstance(r, ast.Constant) and isinstance(r.value, str):
                return f'(do a_ <- {self.e(l, env)}; Ok_ (eq_str a_ {lit(r.value)}))'
            return f'(do a_ <- {self.e(l, env)}; do b_ <- {self.e(r, env)}; Ok_ (cat_eqb a_ b_))'
        if isinstance(op, (ast.In, ast.NotIn)):
            neg = isinstance(op, ast.NotIn)
            t = self.member(l, r, env)
            return f'(do a_ <- {t}; Ok_ (negb a_))' if neg else t
        raise Fail('comparison ' + ast.dump(op))

    def member(self, l, r, env):
        if isinstance(r, ast.Tuple) and r.elts and all(isinstance(x, ast.Constant) and isinstance(x.value, str) for x in r.elts):
            ls = lits([x.value for x in r.elts])
            if isinstance(l, ast.Call) and isinstance(l.func, ast.Name) and l.func.id == 'str' and len(l.args) == 1:
                return f'(do a_ <- {self.e(l.args[0], env)}; Ok_ (text_in (show a_) {ls}))'
            if isinstance(l, ast.Attribute) and l.attr == 'base':
                return f'(do a_ <- {self.e(l, env)}; Ok_ (text_in a_ {ls}))'
            return f'(do a_ <- {self.e(l, env)}; Ok_ (text_in (show a_) {ls}))'     # cat == str  <=>  str(cat) == str
        if isinstance(r, ast.Name) and r.id == 'ascii_letters' and isinstance(l, ast.Subscript) and isinstance(l.slice, ast.Constant) and l.slice.value == 0:
            return f'(do a_ <- {self.e(l.value, env)}; first_is_ascii_letter a_)'
        if isinstance(r, ast.Name) and r.id in self.const_lists:
            ls = '[' + ';'.join(self.catlit(s) for s in self.const_lists[r.id]) + ']'
            return f'(do a_ <- {self.e(l, env)}; Ok_ (cat_in a_ {ls}))'
        if isinstance(r, ast.Name) and env.get(r.id, '').startswith('items_') and isinstance(l, ast.Tuple) and len(l.elts) == 2 \
                and all(isinstance(x, ast.Constant) and isinstance(x.value, str) for x in l.elts):
            return f'(Ok_ (pair_in {lit(l.elts[0].value)} {lit(l.elts[1].value)} {env[r.id]}))'
        raise Fail('membership test ' + ast.dump(r)[:120])

    def call(self, n, env):
        f = n.func
        if isinstance(f, ast.Name) and f.id in self.funcs and f.id.startswith('_'):
            self.need_helper(f.id)
            args = [self.e(a, env) for a in n.args]
            names = [f'h{i}_' for i in range(len(args))]
            body = f'{f.id[1:]} ' + ' '.join(names)
            for nm, a in reversed(list(zip(names, args))):
                body = f'do {nm} <- {a}; {body}'
            return f'({body})'
        if self.is_parse_lit(n):
            return f'(Ok_ {self.catlit(n.args[0].value)})'
        if isinstance(f, ast.Attribute) and f.attr == 'functor' and len(n.args) == 2:
            return f'(do c_ <- {self.e(f.value, env)}; do a_ <- {self.e(n.args[0], env)}; do b_ <- {self.e(n.args[1], env)}; functor_of c_ a_ b_)'
        if isinstance(f, ast.Attribute) and f.attr == 'clear_features' and all(isinstance(a, ast.Constant) and isinstance(a.value, str) for a in n.args):
            return f'(do a_ <- {self.e(f.value, env)}; Ok_ (clear_features {lits([a.value for a in n.args])} a_))'
        if isinstance(f, ast.Attribute) and f.attr == 'arg' and len(n.args) == 1 and isinstance(n.args[0], ast.Constant) and isinstance(n.args[0].value, int):
            return f'(do a_ <- {self.e(f.value, env)}; arg_of a_ {n.args[0].value}%nat)'
        if isinstance(f, ast.Name) and f.id == 'str' and len(n.args) == 1:
            return f'(do a_ <- {self.e(n.args[0], env)}; Ok_ (show a_))'
        if isinstance(f, ast.Name) and f.id == 'set' and len(n.args) == 1:
            a = n.args[0]
            if isinstance(a, ast.Call) and isinstance(a.func, ast.Attribute) and a.func.attr == 'items' and not a.args:
                return f'(do a_ <- {self.e(a.func.value, env)}; feature_items a_)'
        raise Fail('call ' + ast.dump(n)[:160])

    def need_helper(self, name):
        if name in self.helpers:
            return
        self.helpers[name] = None
        fn = self.funcs[name]
        env = {a.arg: a.arg for a in fn.args.args}
        ret = 'text' if (isinstance(fn.returns, ast.Name) and fn.returns.id == 'str') else 'bool'
        self.helpers[name] = (list(env), ret, self.s(fn.body, env, 'helper'))

    # ---- statements, continuation-passing -----------------------------------------------------------
    def s(self, stmts, env, kind):
        if not stmts:
            if kind == 'comb':
                return 'Ok_ None'          # falls off the end: returns None
            raise Fail(f'control falls off the end of a {kind}')
        st, rest = stmts[0], stmts[1:]
        if isinstance(st, ast.Expr) and isinstance(st.value, ast.Constant):
            return self.s(rest, env, kind)   # docstring
        if isinstance(st, ast.Return):
            v = st.value
            if v is None or (isinstance(v, ast.Constant) and v.value is None):
                if kind != 'comb':
                    raise Fail('return None in a helper')
                return 'Ok_ None'
            if isinstance(v, ast.Call) and isinstance(v.func, ast.Name) and v.func.id == 'CombinatorResult':
                return f'(do r_ <- {self.cres(v, env)}; Ok_ (Some r_))'
            if kind == 'helper':
                return self.e(v, env)
            raise Fail('return ' + ast.dump(v)[:100])
        if isinstance(st, ast.Assign) and len(st.targets) == 1 and isinstance(st.targets[0], ast.Name):
            tgt, v = st.targets[0].id, st.value
            if isinstance(v, ast.Call) and isinstance(v.func, ast.Name) and v.func.id == 'Unification':
                if not (len(v.args) == 2 and all(isinstance(a, ast.Constant) and isinstance(a.value, str) for a in v.args)):
                    raise Fail('Unification(...) with non-literal patterns')
                env2 = dict(env)
                env2['__pat'] = (v.args[0].value, v.args[1].value)
                env2.pop('uni', None)
                return self.s(rest, env2, kind)
            is_items = isinstance(v, ast.Call) and isinstance(v.func, ast.Name) and v.func.id == 'set'
            nm = f'{"items_" if is_items else ""}{tgt}_{len(env)}'
            env2 = dict(env)
            env2[tgt] = nm
            return f'(do {nm} <- {self.e(v, env)}; {self.s(rest, env2, kind)})'
        if isinstance(st, ast.If):
            t = st.test
            if isinstance(t, ast.Call) and isinstance(t.func, ast.Name) and t.func.id == 'uni':
                if '__pat' not in env or len(t.args) != 2:
                    raise Fail('uni(...) without a preceding Unification(...)')
                px, py = env['__pat']
                a0, a1 = (self.e(a, env) for a in t.args)
                env2 = dict(env)
                env2['uni'] = 'u_'
                env3 = dict(env)
                env3.pop('__pat')   # a matcher answers only once
                env2.pop('__pat')
                return (f'(do x_ <- {a0}; do y_ <- {a1}; do m_ <- unify {self.pattern(px)} {self.pattern(py)} x_ y_; '
                        f'match m_ with Some u_ => {self.s(st.body + rest, env2, kind)} | None => {self.s(st.orelse + rest, env3, kind)} end)')
            return f'(do c_ <- {self.e(t, env)}; if c_ then {self.s(st.body + rest, env, kind)} else {self.s(st.orelse + rest, env, kind)})'
        raise Fail('statement ' + ast.dump(st)[:160])

    def cres(self, v, env):
        kw = {k.arg: k.value for k in v.keywords}
        if set(kw) != {'cat', 'op_string', 'op_symbol', 'head_is_left'} or v.args:
            raise Fail('CombinatorResult(...) must use the four keywords')
        if not (isinstance(kw['head_is_left'], ast.Constant) and isinstance(kw['head_is_left'].value, bool)):
            raise Fail('head_is_left must be a literal')
        return (f'(do c__ <- {self.e(kw["cat"], env)}; do s1__ <- {self.e(kw["op_string"], env)}; do s2__ <- {self.e(kw["op_symbol"], env)}; '
                f'Ok_ {{| rcat := c__; op_string := s1__; op_symbol := s2__; head_is_left := {str(kw["head_is_left"].value).lower()} |}})')

    # ---- whole module -------------------------------------------------------------------------------
    def combinator_names(self):
        for n in self.mod.body:
            if isinstance(n, (ast.Assign, ast.AnnAssign)):
                tg = n.targets[0] if isinstance(n, ast.Assign) else n.target
                if isinstance(tg, ast.Name) and tg.id == 'combinators' and isinstance(n.value, ast.List) and all(isinstance(e, ast.Name) for e in n.value.elts):
                    return [e.id for e in n.value.elts]
        raise Fail('no literal `combinators` list')

    def binary_wrapper(self):
        """apply_binary_rules: which features are erased for the rule key and for the seen-rule key"""
        fn = self.funcs.get('apply_binary_rules')
        if fn is None or [a.arg for a in fn.args.args] != ['x', 'y', 'seen_rules']:
            raise Fail('apply_binary_rules(x, y, seen_rules) not found')

        def clear_args(node, var):
            if isinstance(node, ast.Name) and node.id == var:
                return []
            if (isinstance(node, ast.Call) and isinstance(node.func, ast.Attribute) and node.func.attr == 'clear_features'
                    and isinstance(node.func.value, ast.Name) and node.func.value.id == var
                    and all(isinstance(a, ast.Constant) and isinstance(a.value, str) for a in node.args)):
                return [a.value for a in node.args]
            raise Fail('apply_binary_rules: unsupported key component')
        keys = {}
        body = [s for s in fn.body if not (isinstance(s, ast.Expr) and isinstance(s.value, ast.Constant))]
        i = 0
        while i < len(body) and isinstance(body[i], ast.Assign) and isinstance(body[i].value, ast.Tuple):
            tg = body[i].targets[0].id
            a, b = body[i].value.elts
            ca, cb = clear_args(a, 'x'), clear_args(b, 'y')
            if ca != cb:
                raise Fail('apply_binary_rules: x and y are keyed differently')
            keys[tg] = ca
            i += 1
        rest = body[i:]
        ok = (len(rest) == 3 and isinstance(rest[0], ast.Assign) and isinstance(rest[0].value, ast.List) and not rest[0].value.elts
              and isinstance(rest[1], ast.If) and isinstance(rest[2], ast.Return))
        if not ok:
            raise Fail('apply_binary_rules: unexpected body shape')
        t = rest[1].test
        if not (isinstance(t, ast.BoolOp) and isinstance(t.op, ast.Or) and len(t.values) == 2
                and ast.dump(t.values[0]) == ast.dump(ast.parse('seen_rules is None', mode='eval').body)
                and isinstance(t.values[1], ast.Compare) and isinstance(t.values[1].ops[0], ast.In)
                and isinstance(t.values[1].left, ast.Name) and t.values[1].left.id in keys
                and isinstance(t.values[1].comparators[0], ast.Name) and t.values[1].comparators[0].id == 'seen_rules'):
            raise Fail('apply_binary_rules: unexpected seen-rule gate')
        seen_key = keys[t.values[1].left.id]
        loop = rest[1].body
        want = ast.parse('for combinator in combinators:\n    result = combinator(*key)\n    if result is not None:\n        results.append(result)').body
        if len(loop) != 1 or ast.dump(loop[0]) != ast.dump(want[0]) or rest[1].orelse or 'key' not in keys:
            raise Fail('apply_binary_rules: unexpected combinator loop')
        return keys['key'], seen_key

    def unary_body(self):
        fn = self.funcs.get('apply_unary_rules')
        if fn is None or [a.arg for a in fn.args.args] != ['x', 'unary_rules']:
            raise Fail('apply_unary_rules(x, unary_rules) not found')
        body = [s for s in fn.body if not (isinstance(s, ast.Expr) and isinstance(s.value, ast.Constant))]
        want0 = ast.parse('if x not in unary_rules:\n    return []').body[0]
        ok = (len(body) == 4 and ast.dump(body[0]) == ast.dump(want0) and isinstance(body[1], ast.Assign)
              and isinstance(body[2], ast.For) and isinstance(body[2].target, ast.Name) and body[2].target.id == 'result'
              and ast.dump(body[2].iter) == ast.dump(ast.parse('unary_rules[x]', mode='eval').body)
              and isinstance(body[3], ast.Return) and isinstance(body[3].value, ast.Name) and body[3].value.id == 'results')
        if not ok:
            raise Fail('apply_unary_rules: unexpected body shape')
        stmts = list(body[2].body)
        last = stmts[-1]
        if not (isinstance(last, ast.Expr) and isinstance(last.value, ast.Call) and isinstance(last.value.func, ast.Attribute)
                and last.value.func.attr == 'append' and len(last.value.args) == 1
                and isinstance(last.value.args[0], ast.Call) and isinstance(last.value.args[0].func, ast.Name)
                and last.value.args[0].func.id == 'CombinatorResult'):
            raise Fail('apply_unary_rules: loop does not end in results.append(CombinatorResult(...))')
        env = {'x': 'x', 'result': 'result'}
        # the statements before the append are local assignments; reuse the statement translator with the append as a "return"
        ret = ast.Return(value=last.value.args[0])
        txt = self.s(stmts[:-1] + [ret], env, 'comb')
        return txt

    def run(self):
        combs = self.combinator_names()
        bodies = {}
        for c in combs:
            fn = self.funcs.get(c)
            if fn is None or [a.arg for a in fn.args.args] != ['x', 'y']:
                raise Fail(f'combinator {c}(x, y) not found')
            bodies[c] = self.s(fn.body, {'x': 'x', 'y': 'y'}, 'comb')
        key_clear, seen_clear = self.binary_wrapper()
        ubody = self.unary_body()
        N = self.name
        out = [f'(* GENERATED by translate/gen_grammar.py from depccg/grammar/{N.lower()}.py - do not edit *)',
               'From Coq Require Import List NArith Bool.', 'Import ListNotations.',
               'Require Import Cat Unify GramPrims GenTables.', 'Open Scope N_scope.', '']
        for s_, nm in self.lits.items():
            out.append(f'Definition {nm}_src : option cat := parse_lit puncts {toks(s_)}. (* {s_!r} *)')
            out.append(f'Definition {nm} : cat := Eval vm_compute in force {nm}_src.')
        out.append('Example literals_readable : forallb (fun o => match o with Some _ => true | None => false end) ['
                   + '; '.join(f'{nm}_src' for nm in self.lits.values()) + '] = true.')
        out.append('Proof. vm_compute. reflexivity. Qed.')
        for h, (args, ret, b) in self.helpers.items():
            out.append(f'Definition {h[1:]} ({" ".join(args)} : cat) : res {ret} :=\n  {b}.')
        for c in combs:
            out.append(f'Definition {c} (x y : cat) : res (option cres) :=\n  {bodies[c]}.')
        out.append('Definition combinators : list combinator := [' + '; '.join(combs) + '].')
        out.append(f'Definition key_clear : list text := {lits(key_clear)}.')
        out.append(f'Definition seen_clear : list text := {lits(seen_clear)}.')
        out.append(f'Definition unary_body (x result : cat) : res cres :=\n  do o_ <- {ubody}; match o_ with Some r_ => Ok_ r_ | None => Err TypeErr end.')
        out.append('Definition apply_binary_rules (x y : cat) (seen : option seen_t) : res (list cres) := apply_binary combinators key_clear seen_clear x y seen.')
        out.append('Definition apply_unary_rules (x : cat) (t : unary_table) : res (list cres) := apply_unary unary_body x t.')
        out.append(f'Definition pattern_vars : list text := {lits(sorted(self.pattern_vars))}.')
        return '\n'.join(out) + '\n'


def gen_guess(src):
    mod = ast.parse(src)
    fn = next((n for n in mod.body if isinstance(n, ast.FunctionDef) and n.name == 'guess_combinator_by_triplet'), None)
    if fn is None or [a.arg for a in fn.args.args] != ['binary_rules', 'target', 'x', 'y']:
        raise Fail('guess_combinator_by_triplet(binary_rules, target, x, y) not found')
    body = [s for s in fn.body if not (isinstance(s, ast.Expr) and isinstance(s.value, ast.Constant))]
    if not (len(body) == 2 and isinstance(body[0], ast.For) and isinstance(body[1], ast.Return)):
        raise Fail('guess_combinator_by_triplet: unexpected body shape')
    loop = body[0]
    if not (ast.dump(loop.iter) == ast.dump(ast.parse('binary_rules(x, y)', mode='eval').body) and isinstance(loop.target, ast.Name)
            and len(loop.body) == 1 and isinstance(loop.body[0], ast.If)
            and ast.dump(loop.body[0].test) == ast.dump(ast.parse(f'{loop.target.id}.cat == target', mode='eval').body)
            and len(loop.body[0].body) == 1 and not loop.body[0].orelse):
        raise Fail('guess_combinator_by_triplet: unexpected loop')
    inner = loop.body[0].body[0]
    if isinstance(inner, ast.Return) and isinstance(inner.value, ast.Name) and inner.value.id == loop.target.id:
        found = 'Some r_ => r_'
    elif isinstance(inner, ast.Expr) and isinstance(inner.value, ast.Name):
        found = 'Some r_ => unk_'       # the rule is evaluated and dropped: falls through to the default
    else:
        raise Fail('guess_combinator_by_triplet: unexpected statement in the loop')
    v = body[1].value
    if not (isinstance(v, ast.Call) and isinstance(v.func, ast.Name) and v.func.id == 'CombinatorResult'):
        raise Fail('guess_combinator_by_triplet: default is not a CombinatorResult')
    kw = {k.arg: k.value for k in v.keywords}
    if not (isinstance(kw.get('cat'), ast.Name) and kw['cat'].id == 'target' and all(isinstance(kw.get(k), ast.Constant) for k in ('op_string', 'op_symbol', 'head_is_left'))):
        raise Fail('guess_combinator_by_triplet: unexpected default fields')
    out = ['(* GENERATED by translate/gen_grammar.py from depccg/grammar/__init__.py - do not edit *)',
           'From Coq Require Import List NArith Bool.', 'Import ListNotations.', 'Require Import Cat Unify GramPrims.', 'Open Scope N_scope.', '',
           '(* guess_combinator_by_triplet(binary_rules, target, x, y), given the list binary_rules(x, y) returns *)',
           'Definition guess (rules : list cres) (target : cat) : cres :=',
           f'  let unk_ := {{| rcat := target; op_string := {lit(kw["op_string"].value)}; op_symbol := {lit(kw["op_symbol"].value)}; head_is_left := {str(bool(kw["head_is_left"].value)).lower()} |}} in',
           f'  match find (fun r => cat_eqb (rcat r) target) rules with {found} | None => unk_ end.']
    return '\n'.join(out) + '\n'


if __name__ == '__main__':
    repo, dst = sys.argv[1], sys.argv[2]
    try:
        g = os.path.join(repo, 'depccg', 'grammar')
        outs = {'GenEn.v': T(open(os.path.join(g, 'en.py'), encoding='utf-8').read(), 'En').run(),
                'GenJa.v': T(open(os.path.join(g, 'ja.py'), encoding='utf-8').read(), 'Ja').run(),
                'GenGuess.v': gen_guess(open(os.path.join(g, '__init__.py'), encoding='utf-8').read())}
    except Fail as e:
        sys.exit(f'translator(gen_grammar): unsupported or missing construct: {e}')
    except (OSError, SyntaxError) as e:
        sys.exit(f'translator(gen_grammar): cannot read source: {e}')
    for fn, txt in outs.items():
        write_if_changed(os.path.join(dst, fn), txt)
