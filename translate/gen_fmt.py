"""Translator, format constants of the html and prolog printers -> coq/GenFmt.v  (fail-closed; regenerated on every run).

What is read (Python `ast` of the *current* source, nothing is imported from /repo):

  depccg/printer/html.py
    _MATHML_MAIN                the page template, emitted RAW (`{{`, `}}` and the field still in it): html_main_template.
                                str.format is modelled in Coq (FmtHtmlDoc.fformat); here only: the value is one string literal, every
                                replacement field is `{<digits>}` (no `{}`, no names, no conversion, no format spec), and the only use of
                                the name is ONE call `_MATHML_MAIN.format(<one positional argument>)` inside to_mathml.
    to_mathml                   its three f-strings, recognised by their holes (not by position, so a refactoring that collects the pieces in
                                a list or renames variables is accepted):
                                  html_id_lits    2 holes: {<name>} and {html.escape(<name>)}           the sentence header  <p>ID=..: ..</p>
                                  html_prob_lits  1 hole : {<name>:.5e}                                 the score line       <p>Log prob=..</p>
                                  html_math_lits  1 hole : {<name>}                                     the <math ..>..</math> wrapper
                                each as the list of its literal parts (number of holes + 1 texts, possibly empty ones).
    _MATHML_SUBTREE_TERMINAL, _MATHML_SUBTREE_NONTERMINAL
                                the two templates of _mathml_subtree, RAW: html_terminal_template, html_nonterminal_template; each is used by
                                exactly one call <name>.format(<2 resp. 4 positional arguments>) inside _mathml_subtree
    _mathml_cat                 its two f-strings: html_mi_lits (1 hole {<name>}: the <mi> element) and html_msub_lits (2 holes {<name>}{<name>}:
                                the <msub> element around it)
  depccg/printer/prolog.py
    _prolog_header              one string literal (adjacent literals are one constant for `ast`): prolog_header_src; both to_prolog_en and
                                to_prolog_ja must write it with exactly one `print(_prolog_header, file=<name>)` (so: the text and a newline).

and, from the running interpreter (the one that also runs the printers in the harness), not from the source:

  py_lower_table                (c, code points of chr(c).lower()) for every code point c whose lower-casing is not itself
  py_lower_contextual           the code points among them whose lower-casing inside a word differs from the table entry (probes
                                'a'+x, x+'a', 'a'+x+'a'); CPython has exactly one such rule (final sigma, U+03A3)

Anything else - a missing name, a value that is not a literal, an f-string that fits none / two of the descriptions, a second use of the
template - stops the translator with exit status 1 and the definitions of that group are left out of GenFmt.v, so the Coq files that need
them do not build either.
"""
import ast, os, string, sys
sys.path.insert(0, os.path.dirname(os.path.abspath(__file__)))
from gallina import lit, lits


class Fail(Exception):
    pass


def module(repo, rel):
    p = os.path.join(repo, rel)
    try:
        return ast.parse(open(p, encoding='utf-8').read())
    except (OSError, SyntaxError, ValueError) as e:
        raise Fail(f'{rel}: {e}')


def assigned_str(mod, name, rel):
    found = []
    for n in ast.walk(mod):
        tgts = []
        if isinstance(n, ast.Assign):
            tgts = n.targets
        elif isinstance(n, (ast.AnnAssign, ast.AugAssign)):
            tgts = [n.target]
        elif isinstance(n, (ast.For, ast.AsyncFor)):
            tgts = [n.target]
        elif isinstance(n, ast.NamedExpr):
            tgts = [n.target]
        for t in tgts:
            for x in ast.walk(t):
                if isinstance(x, ast.Name) and x.id == name:
                    found.append(n)
    for n in ast.walk(mod):
        if isinstance(n, (ast.Global, ast.Nonlocal)) and name in n.names:
            raise Fail(f'{rel}: {name} is declared global / nonlocal somewhere')
        if isinstance(n, (ast.FunctionDef, ast.ClassDef, ast.AsyncFunctionDef)) and n.name == name:
            raise Fail(f'{rel}: {name} is also a function / class name')
        if isinstance(n, ast.alias) and (n.asname or n.name) == name:
            raise Fail(f'{rel}: {name} is also an imported name')
        if isinstance(n, ast.arg) and n.arg == name:
            raise Fail(f'{rel}: {name} is also a parameter name')
    if len(found) != 1 or found[0] not in mod.body or not isinstance(found[0], ast.Assign) or len(found[0].targets) != 1 \
            or not isinstance(found[0].targets[0], ast.Name):
        raise Fail(f'{rel}: expected exactly one assignment to {name}, at module level')
    v = found[0].value
    if not (isinstance(v, ast.Constant) and isinstance(v.value, str)):
        raise Fail(f'{rel}: {name} is not a string literal')
    return v.value


def func(mod, name, rel):
    fs = [n for n in mod.body if isinstance(n, ast.FunctionDef) and n.name == name]
    if len(fs) != 1:
        raise Fail(f'{rel}: expected one module-level function {name}')
    return fs[0]


def loads(node, name):
    return [n for n in ast.walk(node) if isinstance(n, ast.Name) and n.id == name and isinstance(n.ctx, ast.Load)]


# ---------------------------------------------------------------------------------------------- f-strings
def fstring_parts(js, what):
    """literal parts (holes + 1 of them) and the holes of an f-string"""
    parts, holes, cur = [], [], ''
    for v in js.values:
        if isinstance(v, ast.Constant) and isinstance(v.value, str):
            cur += v.value
        elif isinstance(v, ast.FormattedValue):
            parts.append(cur)
            cur = ''
            holes.append(v)
        else:
            raise Fail(f'{what}: unsupported f-string component {type(v).__name__}')
    parts.append(cur)
    return parts, holes


def hole_kind(h):
    """'name' = {x};  'escape' = {html.escape(x)};  ('spec', s) = {x:s};  None = anything else"""
    if h.conversion != -1:
        return None
    spec = None
    if h.format_spec is not None:
        fs = h.format_spec
        if not (isinstance(fs, ast.JoinedStr) and len(fs.values) == 1 and isinstance(fs.values[0], ast.Constant) and isinstance(fs.values[0].value, str)):
            return None
        spec = fs.values[0].value
    v = h.value
    if isinstance(v, ast.Name):
        return 'name' if spec is None else ('spec', spec)
    if (spec is None and isinstance(v, ast.Call) and not v.keywords and len(v.args) == 1 and isinstance(v.args[0], ast.Name)
            and isinstance(v.func, ast.Attribute) and v.func.attr == 'escape' and isinstance(v.func.value, ast.Name) and v.func.value.id == 'html'):
        return 'escape'
    return None


def check_fields(tmpl, what):
    try:
        fields = list(string.Formatter().parse(tmpl))
    except ValueError as e:
        raise Fail(f'{what} is not a format string: {e}')
    for _, name, spec, conv in fields:
        if name is None:
            continue
        if not (name.isascii() and name.isdigit()) or spec or conv:
            raise Fail(f'{what} has a replacement field other than {{<digits>}}: {{{name}{"!" + conv if conv else ""}{":" + spec if spec else ""}}}')


def single_format_call(mod, fn, name, nargs, rel):
    uses = loads(mod, name)
    calls = [n for n in ast.walk(fn) if isinstance(n, ast.Call) and isinstance(n.func, ast.Attribute) and n.func.attr == 'format'
             and isinstance(n.func.value, ast.Name) and n.func.value.id == name]
    if len(uses) != 1 or len(calls) != 1 or calls[0].keywords or len(calls[0].args) != nargs or any(isinstance(a, ast.Starred) for a in calls[0].args):
        raise Fail(f'{rel}: expected the single use {name}.format(<{nargs} positional argument(s)>) inside {fn.name} (uses: {len(uses)}, such calls: {len(calls)})')


def own_fstrings(fn, rel):
    """the f-strings of a function (format specs of holes are not f-strings of their own), with parts and hole kinds"""
    specs = {id(o.format_spec) for o in ast.walk(fn) if isinstance(o, ast.FormattedValue) and o.format_spec is not None}
    out = []
    for js in [n for n in ast.walk(fn) if isinstance(n, ast.JoinedStr) and id(n) not in specs]:
        parts, holes = fstring_parts(js, f'{rel}:{js.lineno}')
        out.append((js, parts, [hole_kind(h) for h in holes], holes))
    return out


def g_html_tree(repo):
    rel = 'depccg/printer/html.py'
    mod = module(repo, rel)
    term = assigned_str(mod, '_MATHML_SUBTREE_TERMINAL', rel)
    nonterm = assigned_str(mod, '_MATHML_SUBTREE_NONTERMINAL', rel)
    check_fields(term, f'{rel}: _MATHML_SUBTREE_TERMINAL')
    check_fields(nonterm, f'{rel}: _MATHML_SUBTREE_NONTERMINAL')
    sub = func(mod, '_mathml_subtree', rel)
    single_format_call(mod, sub, '_MATHML_SUBTREE_TERMINAL', 2, rel)
    single_format_call(mod, sub, '_MATHML_SUBTREE_NONTERMINAL', 4, rel)
    found = {}
    for js, parts, kinds, holes in own_fstrings(func(mod, '_mathml_cat', rel), rel):
        key = {('name',): 'mi', ('name', 'name'): 'msub'}.get(tuple(kinds))
        if key is None or key in found:
            raise Fail(f'{rel}:{js.lineno}: an f-string of _mathml_cat that is not the (one) <mi> / the (one) <msub> string (holes: {[ast.unparse(h.value) for h in holes]})')
        found[key] = parts
    if set(found) != {'mi', 'msub'}:
        raise Fail(f'{rel}: _mathml_cat must have one f-string with one hole and one with two')
    return ['(* printer/html.py: the two templates of _mathml_subtree as written, and the literal parts of the two f-strings of _mathml_cat *)',
            f'Definition html_terminal_template : list N := {lit(term)}.',
            f'Definition html_nonterminal_template : list N := {lit(nonterm)}.',
            f'Definition html_mi_lits : list (list N) := {lits(found["mi"])}.',
            f'Definition html_msub_lits : list (list N) := {lits(found["msub"])}.']


def g_html(repo):
    rel = 'depccg/printer/html.py'
    mod = module(repo, rel)
    main = assigned_str(mod, '_MATHML_MAIN', rel)
    check_fields(main, f'{rel}: _MATHML_MAIN')
    if not any(isinstance(n, ast.Import) and any(a.name == 'html' and a.asname is None for a in n.names) for n in mod.body):
        raise Fail(f'{rel}: `import html` not found at module level')
    fn = func(mod, 'to_mathml', rel)
    single_format_call(mod, fn, '_MATHML_MAIN', 1, rel)
    found = {}
    for js, parts, kinds, holes in own_fstrings(fn, rel):
        if kinds == ['name', 'escape']:
            key = 'id'
        elif kinds == [('spec', '.5e')]:
            key = 'prob'
        elif kinds == ['name']:
            key = 'math'
        else:
            raise Fail(f'{rel}:{js.lineno}: an f-string of to_mathml that is none of the three known ones (holes: {[ast.unparse(h.value) for h in holes]})')
        if key in found:
            raise Fail(f'{rel}:{js.lineno}: two f-strings of to_mathml look like the {key} line')
        found[key] = parts
    for key in ('id', 'prob', 'math'):
        if key not in found:
            raise Fail(f'{rel}: to_mathml has no f-string for the {key} line')
    return ['(* printer/html.py: _MATHML_MAIN as written (str.format template), and the literal parts of the three f-strings of to_mathml *)',
            f'Definition html_main_template : list N := {lit(main)}.',
            f'Definition html_id_lits : list (list N) := {lits(found["id"])}.',
            f'Definition html_prob_lits : list (list N) := {lits(found["prob"])}.',
            f'Definition html_math_lits : list (list N) := {lits(found["math"])}.']


def g_prolog(repo):
    rel = 'depccg/printer/prolog.py'
    mod = module(repo, rel)
    header = assigned_str(mod, '_prolog_header', rel)
    total = 0
    for fname in ('to_prolog_en', 'to_prolog_ja'):
        fn = func(mod, fname, rel)
        uses = loads(fn, '_prolog_header')
        prints = [n for n in ast.walk(fn) if isinstance(n, ast.Call) and isinstance(n.func, ast.Name) and n.func.id == 'print'
                  and len(n.args) == 1 and isinstance(n.args[0], ast.Name) and n.args[0].id == '_prolog_header'
                  and len(n.keywords) == 1 and n.keywords[0].arg == 'file' and isinstance(n.keywords[0].value, ast.Name)]
        if len(uses) != 1 or len(prints) != 1:
            raise Fail(f'{rel}: {fname} must write the header with exactly one print(_prolog_header, file=<name>) (uses: {len(uses)}, such calls: {len(prints)})')
        for n in ast.walk(mod):
            if (isinstance(n, ast.Name) and n.id == 'print' and not isinstance(n.ctx, ast.Load)) or (isinstance(n, ast.arg) and n.arg == 'print') \
                    or (isinstance(n, (ast.FunctionDef, ast.ClassDef)) and n.name == 'print') or (isinstance(n, ast.alias) and (n.asname or n.name) == 'print'):
                raise Fail(f'{rel}: print is rebound')
        total += len(uses)
    if len(loads(mod, '_prolog_header')) != total:
        raise Fail(f'{rel}: _prolog_header is used outside to_prolog_en / to_prolog_ja')
    return ['(* printer/prolog.py: _prolog_header as written; to_prolog_en and to_prolog_ja write it with print(), i.e. followed by one newline *)',
            f'Definition prolog_header_src : list N := {lit(header)}.']


def g_lower(_repo):
    table = []
    for c in range(0x110000):
        s = chr(c)
        l = s.lower()
        if l != s:
            table.append((c, l))
    if not table:
        raise Fail('str.lower changes no character at all')
    ctx = [c for c, l in table if ('a' + chr(c)).lower() != 'a' + l or (chr(c) + 'a').lower() != l + 'a' or ('a' + chr(c) + 'a').lower() != 'a' + l + 'a'
           or (chr(c) + chr(c)).lower() != l + l]
    # the characters the table leaves alone must also be left alone inside a word
    return [f'(* str.lower of the running interpreter (Python {sys.version_info[0]}.{sys.version_info[1]}, unicodedata {__import__("unicodedata").unidata_version}), one character at a time: '
            f'{len(table)} code points are changed, all others are left alone *)',
            'Definition py_lower_table : list (N * list N) := [\n' + ';'.join(f'({c},{lit(l)})' for c, l in table) + '].',
            '(* of these, the ones whose lower-casing depends on the neighbouring characters *)',
            f'Definition py_lower_contextual : list N := [{";".join(str(c) for c in ctx)}].']


def generate(repo):
    out = ['(* GENERATED by translate/gen_fmt.py from depccg/printer/html.py, depccg/printer/prolog.py and the interpreter - do not edit *)',
           'From Coq Require Import List NArith.', 'Import ListNotations.', 'Open Scope N_scope.', '']
    problems = []
    for name, fn in (('html', g_html), ('html_tree', g_html_tree), ('prolog', g_prolog), ('lower', g_lower)):
        try:
            out.extend(fn(repo))
        except Fail as e:
            problems.append(f'{name}: {e}')
            out.append(f'(* group {name} could not be read: see the translator output *)')
        out.append('')
    return '\n'.join(out), problems


def write_if_changed(path, text):
    old = open(path).read() if os.path.exists(path) else None
    if old != text:
        with open(path, 'w') as f:
            f.write(text)
        return True
    return False


if __name__ == '__main__':
    repo, dst = sys.argv[1], sys.argv[2]
    txt, problems = generate(repo)
    write_if_changed(os.path.join(dst, 'GenFmt.v') if os.path.isdir(dst) else dst, txt)
    if problems:
        sys.exit('translator(gen_fmt): unsupported or missing construct: ' + ' | '.join(problems))
