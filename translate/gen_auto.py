"""Translator, C08 part: the CCGbank category repair of depccg/tools/reader.py -> coq/GenAuto.v  (fail-closed).

Extracted from the *current* source on every run:
  _FIX   (module-level dict str -> str)                      -> fix_table
  _fix   (module-level function of exactly this shape)       -> fix_suffixes, fix_cut
      def _fix(cat):
          if cat in _FIX: return _FIX[cat]
          if cat.endswith(A) [or cat.endswith(B) ...]: return cat[:-N]
          return cat
  and the two call sites `Category.parse(_fix(self.next()))` of _AutoLineReader (so that a reader that stops repairing,
  or repairs other fields, is a translator failure *or* a correspondence mismatch, never silently accepted).
Anything else makes the translator exit non-zero.
"""
import ast, os, sys
sys.path.insert(0, os.path.dirname(os.path.abspath(__file__)))
from gallina import lit
from gen_tables import Fail, module, assigned, func, dict_str_str, write_if_changed


def _is_name(n, name):
    return isinstance(n, ast.Name) and n.id == name


def _endswith_calls(test, arg, what):
    """cat.endswith(A) or cat.endswith(B) ... -> [A, B]"""
    parts = test.values if isinstance(test, ast.BoolOp) and isinstance(test.op, ast.Or) else [test]
    out = []
    for p in parts:
        ok = (isinstance(p, ast.Call) and isinstance(p.func, ast.Attribute) and p.func.attr == 'endswith' and _is_name(p.func.value, arg)
              and len(p.args) == 1 and not p.keywords and isinstance(p.args[0], ast.Constant) and isinstance(p.args[0].value, str))
        if not ok:
            raise Fail(f'{what}: unsupported endswith test')
        out.append(p.args[0].value)
    return out


def fix_function(mod, rel):
    fn = func(mod, '_fix', rel)
    what = f'{rel}:_fix'
    if len(fn.args.args) != 1 or fn.args.vararg or fn.args.kwarg or fn.args.kwonlyargs or fn.args.defaults:
        raise Fail(f'{what}: expected one positional parameter')
    arg = fn.args.args[0].arg
    body = [s for s in fn.body if not (isinstance(s, ast.Expr) and isinstance(s.value, ast.Constant))]   # docstring
    if len(body) != 3:
        raise Fail(f'{what}: expected exactly three statements')
    s1, s2, s3 = body
    # if cat in _FIX: return _FIX[cat]
    ok1 = (isinstance(s1, ast.If) and not s1.orelse and isinstance(s1.test, ast.Compare) and len(s1.test.ops) == 1
           and isinstance(s1.test.ops[0], ast.In) and _is_name(s1.test.left, arg) and _is_name(s1.test.comparators[0], '_FIX')
           and len(s1.body) == 1 and isinstance(s1.body[0], ast.Return) and isinstance(s1.body[0].value, ast.Subscript)
           and _is_name(s1.body[0].value.value, '_FIX') and _is_name(s1.body[0].value.slice, arg))
    if not ok1:
        raise Fail(f'{what}: first statement is not `if {arg} in _FIX: return _FIX[{arg}]`')
    # if cat.endswith(..) or ..: return cat[:-N]
    if not (isinstance(s2, ast.If) and not s2.orelse and len(s2.body) == 1 and isinstance(s2.body[0], ast.Return)):
        raise Fail(f'{what}: second statement is not an if/return')
    sufs = _endswith_calls(s2.test, arg, what)
    r = s2.body[0].value
    ok2 = (isinstance(r, ast.Subscript) and _is_name(r.value, arg) and isinstance(r.slice, ast.Slice) and r.slice.lower is None
           and r.slice.step is None and isinstance(r.slice.upper, ast.UnaryOp) and isinstance(r.slice.upper.op, ast.USub)
           and isinstance(r.slice.upper.operand, ast.Constant) and isinstance(r.slice.upper.operand.value, int)
           and r.slice.upper.operand.value > 0)
    if not ok2:
        raise Fail(f'{what}: second return is not `{arg}[:-N]`')
    cut = r.slice.upper.operand.value
    if not (isinstance(s3, ast.Return) and _is_name(s3.value, arg)):
        raise Fail(f'{what}: last statement is not `return {arg}`')
    return sufs, cut


def reader_uses_fix(mod, rel):
    """the positions where _AutoLineReader applies _fix: exactly `cat = Category.parse(_fix(self.next()))` once in
    parse_leaf and once in parse_tree, and nowhere else in the module (apart from the definition)"""
    cls = [n for n in mod.body if isinstance(n, ast.ClassDef) and n.name == '_AutoLineReader']
    if len(cls) != 1:
        raise Fail(f'{rel}: class _AutoLineReader not found')
    want = "cat = Category.parse(_fix(self.next()))"
    for name in ('parse_leaf', 'parse_tree'):
        fns = [n for n in cls[0].body if isinstance(n, ast.FunctionDef) and n.name == name]
        if len(fns) != 1:
            raise Fail(f'{rel}: _AutoLineReader.{name} not found')
        uses = [n for n in ast.walk(fns[0]) if isinstance(n, ast.Call) and _is_name(n.func, '_fix')]
        stmts = [s for s in fns[0].body if isinstance(s, ast.Assign) and ast.unparse(s) == want]
        if len(uses) != 1 or len(stmts) != 1:
            raise Fail(f'{rel}: _AutoLineReader.{name} does not contain exactly one `{want}`')
    total = [n for n in ast.walk(mod) if isinstance(n, ast.Call) and _is_name(n.func, '_fix')]
    if len(total) != 2:
        raise Fail(f'{rel}: _fix is called {len(total)} times in the module (the model applies it to the two category fields only)')


def generate(repo):
    rel = 'depccg/tools/reader.py'
    mod = module(repo, rel)
    table = dict_str_str(assigned(mod, '_FIX', rel), 'reader._FIX')
    sufs, cut = fix_function(mod, rel)
    reader_uses_fix(mod, rel)
    pairs = '[' + ';'.join(f'({lit(a)},{lit(b)})' for a, b in table) + ']'

    def note(x):      # a Coq comment must not contain string quotes or comment brackets
        return '' if any(k in x for k in ('"', '(*', '*)')) else f'   (* {x} *)'
    out = ['(* GENERATED by translate/gen_auto.py from depccg/tools/reader.py - do not edit *)',
           'From Coq Require Import List NArith.', 'Import ListNotations.', 'Open Scope N_scope.', '',
           f'Definition fix_table : list (list N * list N) := {pairs}.' + note(f'reader._FIX = {dict(table)!r}'),
           f'Definition fix_suffixes : list (list N) := [{";".join(lit(s) for s in sufs)}].' + note(f'endswith {sufs!r}'),
           f'Definition fix_cut : nat := {cut}%nat.   (* cat[:-{cut}] *)']
    return '\n'.join(out) + '\n'


if __name__ == '__main__':
    repo, dst = sys.argv[1], sys.argv[2]
    try:
        txt = generate(repo)
    except Fail as e:
        sys.exit(f'translator(gen_auto): unsupported or missing construct: {e}')
    write_if_changed(os.path.join(dst, 'GenAuto.v') if os.path.isdir(dst) else dst, txt)
