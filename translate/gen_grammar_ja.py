"""One part of translate/gen_grammar.py on its own (depccg/grammar/ja.py -> coq/GenJa.v), so that a check can name exactly the
generated files it needs: ctx.build(..., gens=('tables', 'grammar_ja')).  A failure in another grammar file is then not an
obligation of that check."""
import os, sys
sys.path.insert(0, os.path.dirname(os.path.abspath(__file__)))
import gen_grammar

if __name__ == '__main__':
    gen_grammar.main(sys.argv[1:3] + ['ja'])
