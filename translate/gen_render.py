"""Translator, rendering part: what the printers of depccg/printer read and write -> coq/GenRender.v  (fail-closed).

Regenerated on every run from the *current* source.  For every (language, format) pair the CLI offers
(depccg/argparse.py) the dispatcher `depccg.printer.to_string` is walked with `format` and the global
language fixed, the printer functions it reaches (and the `Tree` properties they use) are analysed by a
small flow-sensitive abstract interpretation over the Python `ast`, and the following is emitted:

  strict_keys_<lang>_<fmt>   token keys read in a way that raises KeyError when the key is missing
                             (`token.k`, `token['k']`, `token.pop('k')`, `node.word` through `Tree.word`),
                             unless the read is guarded (`if 'k' in token`, `try/except KeyError`)
  default_keys_<lang>_<fmt>  token keys read with a default (`token.get('k', d)`)                  [information]
  mutations_<lang>_<fmt>     every mutating operation on an object that may be the caller's
                             (subscript/attribute assignment, del, pop/update/sort/append/..., setattr), as (kind, target)
  label_checks_<lang>_<fmt>  lookups `TABLE[node.op_string|op_symbol]` in a module-level dict literal:
                             (scope of nodes, attribute, keys of the table)
plus the label vocabularies of the two grammars, the CLI choice lists and the formats that cannot be modelled
(their path enters depccg.semantics, which needs nltk).

Abstract values: ownership FRESH < SHALLOW (fresh container, shared elements) < OBJ (may be the caller's object);
token-ness NO / MAYBE / YES.  `dict(token)`, `list(x)`, `x.copy()`, comprehensions are SHALLOW, `copy.deepcopy` FRESH,
`token`, `tree.tokens[i]`, `node.token`, parameters are OBJ.  Everything not understood stops the translator.
"""
import ast, os, sys
sys.path.insert(0, os.path.dirname(os.path.abspath(__file__)))
from gallina import lit, lits


class Fail(Exception):
    pass


FRESH, SHALLOW, OBJ = 0, 1, 2
NO, MAYBE, YES = 0, 1, 2
OWN = {0: 'fresh', 1: 'shallow', 2: 'object'}

MUTATORS = {'pop', 'popitem', 'update', 'clear', 'setdefault', 'sort', 'reverse', 'append', 'extend', 'insert', 'remove',
            'add', 'discard', 'move_to_end', 'difference_update', 'intersection_update', 'symmetric_difference_update',
            '__setitem__', '__delitem__', '__setattr__', '__delattr__', '__iadd__', '__ior__', 'appendleft', 'popleft', 'rotate'}
DICT_NAMES = {'get', 'items', 'keys', 'values', 'pop', 'update', 'copy', 'setdefault', 'popitem', 'clear', 'fromkeys', 'of_piped', 'of_word'}
STR_METHODS = {'lower', 'upper', 'replace', 'format', 'join', 'split', 'strip', 'rstrip', 'lstrip', 'startswith', 'endswith', 'encode',
               'decode', 'find', 'index', 'count', 'getvalue', 'write', 'close', 'title', 'capitalize', 'zfill', 'ljust', 'rjust', 'center',
               'isdigit', 'isalpha', 'splitlines', 'rsplit', 'partition', 'rpartition', 'casefold', 'expandtabs', 'format_map', 'rfind', 'tostring'}
PURE_SCALAR = {'str', 'len', 'int', 'float', 'bool', 'repr', 'format', 'isinstance', 'issubclass', 'type', 'id', 'hash', 'all', 'any', 'print',
               'abs', 'ord', 'chr', 'sum', 'range', 'round', 'callable', 'hasattr', 'divmod', 'ascii', 'bin', 'hex', 'oct'}
CONTAINER_CTORS = {'list', 'dict', 'tuple', 'set', 'frozenset', 'sorted', 'reversed', 'iter', 'filter', 'OrderedDict', 'defaultdict', 'deque', 'Token'}
ELEMENT_FUNCS = {'next', 'max', 'min', 'getattr'}
EXTERNAL_MUTATORS = {'shuffle', 'heapify', 'heappush', 'heappop', 'heapreplace', 'heappushpop', 'insort', 'insort_left', 'insort_right',
                     'setitem', 'delitem', 'iadd', 'iconcat'}


class V:
    """abstract value"""
    __slots__ = ('own', 'tok', 'elem', 'items', 'funcs', 'consts', 'cls')

    def __init__(self, own=FRESH, tok=NO, elem=None, items=None, funcs=frozenset(), consts=None, cls=None):
        self.own, self.tok, self.elem, self.items, self.funcs, self.consts, self.cls = own, tok, elem, items, funcs, consts, cls

    def key(self):
        return (self.own, self.tok, self.elem.key() if self.elem else None, tuple(i.key() for i in self.items) if self.items else None,
                tuple(sorted(id(f) for f in self.funcs)), self.consts, cls_key(self.cls))


def _flat(v):
    """(max ownership, any token-ness) over v and everything nested in it"""
    own, tok = v.own, v.tok
    for x in ([v.elem] if v.elem is not None else []) + list(v.items or []):
        o, t = _flat(x)
        own, tok = max(own, o), max(tok, t)
    return own, tok


def cap(v, depth=3):
    """widening: nested element descriptions deeper than `depth` are collapsed (recursive data, e.g. json_of)"""
    if v is None or (v.elem is None and v.items is None):
        return v
    if depth == 0:
        own, tok = _flat(v)
        return V(v.own, v.tok, elem=V(own, MAYBE if tok != NO else NO), funcs=v.funcs, consts=v.consts, cls=v.cls)
    return V(v.own, v.tok, elem=cap(v.elem, depth - 1), items=[cap(x, depth - 1) for x in v.items] if v.items is not None else None,
             funcs=v.funcs, consts=v.consts, cls=v.cls)


def cls_key(c):
    if c is None:
        return None
    if isinstance(c, tuple):
        return tuple(x if isinstance(x, (str, type(None))) else id(x) for x in c)
    return id(c)


def join(a, b):
    if a is None:
        return b
    if b is None:
        return a
    items = None
    elem = None
    if a.items is not None and b.items is not None and len(a.items) == len(b.items):
        items = [join(x, y) for x, y in zip(a.items, b.items)]
    else:
        ea, eb = elem_of(a, explicit=True), elem_of(b, explicit=True)
        elem = join(ea, eb)
    consts = a.consts | b.consts if (a.consts is not None and b.consts is not None) else None
    return cap(V(max(a.own, b.own), a.tok if a.tok == b.tok else MAYBE, elem, items, a.funcs | b.funcs, consts, a.cls if cls_key(a.cls) == cls_key(b.cls) else None))


def joins(vs):
    r = None
    for v in vs:
        r = join(r, v)
    return r if r is not None else V()


def elem_of(v, explicit=False):
    """abstract value of an element / value stored in v"""
    if v.items is not None:
        return joins(v.items) if v.items else (None if explicit else V())
    if v.elem is not None:
        return v.elem
    if explicit:
        return None
    return V(FRESH if v.own == FRESH else OBJ, NO)


def attr_own(v):
    return FRESH if v.own == FRESH else OBJ


def txt(node):
    return ast.unparse(node)


def cstr(node):
    return node.value if isinstance(node, ast.Constant) and isinstance(node.value, str) else None


# ------------------------------------------------------------------------------------------------------
class Module:
    def __init__(self, repo, rel, modname):
        self.rel, self.name = rel, modname
        p = os.path.join(repo, rel)
        try:
            self.tree = ast.parse(open(p, encoding='utf-8').read())
        except (OSError, SyntaxError) as e:
            raise Fail(f'{rel}: {e}')
        self.funcs, self.classes, self.imports, self.assigns = {}, {}, {}, {}
        for n in self.tree.body:
            if isinstance(n, ast.FunctionDef):
                self.funcs[n.name] = n
            elif isinstance(n, ast.ClassDef):
                self.classes[n.name] = n
            elif isinstance(n, ast.ImportFrom):
                for a in n.names:
                    self.imports[a.asname or a.name] = (n.module or '', a.name)
            elif isinstance(n, ast.Import):
                for a in n.names:
                    self.imports[(a.asname or a.name).split('.')[0]] = (a.name, None)
            elif isinstance(n, ast.Assign) and len(n.targets) == 1 and isinstance(n.targets[0], ast.Name):
                self.assigns[n.targets[0].id] = n.value
            elif isinstance(n, ast.AnnAssign) and isinstance(n.target, ast.Name) and n.value is not None:
                self.assigns[n.target.id] = n.value


class Func:
    """one analysed function (module-level, nested, or method)"""

    def __init__(self, mod, node, parent=None, cls=None):
        self.mod, self.node, self.parent, self.cls = mod, node, parent, cls
        self.qual = (parent.qual + '.' if parent else (cls.name + '.' if cls else '')) + node.name
        self.summary, self.ret = {}, None
        self.actuals = {}           # parameter name -> join of the argument values at the call sites seen so far
        self.open_calls = False     # True once the function is used in a way whose arguments the analysis does not follow (passed as a value, *args, ...)
        self.nested = {}
        self.dirty = set()          # names of this scope that a nested function rebinds or fills
        self.nonlocals = set()
        self.is_property = any(isinstance(d, ast.Name) and d.id == 'property' for d in node.decorator_list)
        for n in ast.walk(node):
            if isinstance(n, (ast.Nonlocal, ast.Global)):
                self.nonlocals.update(n.names)

    @property
    def where(self):
        return f'{self.mod.name}.{self.qual}'


class World:
    def __init__(self, repo):
        self.repo = repo
        self.mods = {}
        pdir = os.path.join(repo, 'depccg', 'printer')
        try:
            names = sorted(f[:-3] for f in os.listdir(pdir) if f.endswith('.py'))
        except OSError as e:
            raise Fail(str(e))
        for f in names:
            modname = 'depccg.printer' if f == '__init__' else f'depccg.printer.{f}'
            self.mods[modname] = Module(repo, f'depccg/printer/{f}.py', modname)
        self.mods['depccg.tree'] = Module(repo, 'depccg/tree.py', 'depccg.tree')
        self.tree_cls = self.mods['depccg.tree'].classes.get('Tree')
        if self.tree_cls is None:
            raise Fail('depccg/tree.py: no class Tree')
        self.tree_members = {n.name: n for n in self.tree_cls.body if isinstance(n, ast.FunctionDef)}
        self.tree_props = {k for k, n in self.tree_members.items() if any(isinstance(d, ast.Name) and d.id == 'property' for d in n.decorator_list)}
        self.func_cache = {}
        check_token_semantics(repo)

    def func(self, mod, node, parent=None, cls=None):
        k = id(node)
        if k not in self.func_cache:
            self.func_cache[k] = Func(mod, node, parent, cls)
        return self.func_cache[k]


def check_token_semantics(repo):
    """Token(dict).__getattr__(item) must be self[item] for ordinary names (KeyError on a missing key)"""
    m = Module(repo, 'depccg/types.py', 'depccg.types')
    c = m.classes.get('Token')
    if c is None or not any(isinstance(b, ast.Name) and b.id == 'dict' for b in c.bases):
        raise Fail('types.py: Token is not a dict subclass any more')
    ga = [n for n in c.body if isinstance(n, ast.FunctionDef) and n.name == '__getattr__']
    if len(ga) != 1:
        raise Fail('types.py: Token.__getattr__ missing')
    fn = ga[0]
    params = [a.arg for a in fn.args.args]
    last = fn.body[-1]
    ok = (len(params) == 2 and isinstance(last, ast.Return) and isinstance(last.value, ast.Subscript)
          and isinstance(last.value.value, ast.Name) and last.value.value.id == params[0]
          and isinstance(last.value.slice, ast.Name) and last.value.slice.id == params[1])
    if not ok:
        raise Fail('types.py: Token.__getattr__ no longer ends in `return self[item]`')
    for n in c.body:
        if isinstance(n, ast.FunctionDef) and n.name in ('__getitem__', '__missing__', 'get', '__contains__', 'items', 'pop'):
            raise Fail(f'types.py: Token overrides dict.{n.name}')


# ------------------------------------------------------------------------------------------------------
class Analysis:
    """abstract interpretation of to_string(format=<fmt>) with the global language fixed"""

    def __init__(self, world, lang, fmt):
        self.w, self.lang, self.fmt = world, lang, fmt
        self.strict, self.defaults, self.mutations, self.labels = {}, {}, {}, {}
        self.externals, self.entered, self.unmodelled, self.undispatched = set(), [], [], []
        self.changed = False
        self.todo = []
        world.func_cache = {}       # summaries are per analysis (they depend on the fixed format / language)

    # ---- facts ----
    def rec_strict(self, key, f, node, guards, recv):
        if '*' in guards or (recv, key) in guards:
            return
        self.strict.setdefault(key, f'{f.where}:{node.lineno} {txt(node)}')

    def rec_default(self, key, f, node):
        self.defaults.setdefault(key, f'{f.where}:{node.lineno}')

    def rec_mut(self, kind, target, f, node):
        self.mutations.setdefault((kind, target), f'{f.where}:{node.lineno}')

    # ---- driver ----
    def run(self):
        pm = self.w.mods['depccg.printer']
        if 'to_string' not in pm.funcs:
            raise Fail('printer/__init__.py: no function to_string')
        root = self.w.func(pm, pm.funcs['to_string'])
        for it in range(12):
            self.changed = False
            self.todo, done = [root], {}
            while self.todo:
                f = self.todo.pop()
                if id(f) in done:
                    continue
                done[id(f)] = f
                self.run_func(f, root)
            if not self.changed:
                self.entered = sorted({g.where for g in done.values() if g.node.name != '__module__'})
                return self
        raise Fail(f'{self.lang}/{self.fmt}: analysis did not reach a fixed point')

    def run_func(self, f, root):
        env = {}
        a = f.node.args
        if (a.vararg or a.kwarg) and f is root:
            raise Fail(f'{f.where}: *args/**kwargs in the dispatcher')
        params = [x.arg for x in a.posonlyargs + a.args + a.kwonlyargs] + ([a.vararg.arg] if a.vararg else []) + ([a.kwarg.arg] if a.kwarg else [])
        defaults = dict(zip([x.arg for x in (a.posonlyargs + a.args)][::-1], a.defaults[::-1]))
        defaults.update({x.arg: d for x, d in zip(a.kwonlyargs, a.kw_defaults) if d is not None})
        for i, p in enumerate(params):
            if i == 0 and f.cls is not None and not any(isinstance(d, ast.Name) and d.id == 'staticmethod' for d in f.node.decorator_list):
                v = V(OBJ if f.cls is self.w.tree_cls else FRESH, NO, cls=('instance', f.cls))
            elif f is not root and not f.open_calls and p in f.actuals and not f.is_property:
                v = f.actuals[p]          # every call site of this function is followed: the parameter is what the callers pass
            elif p == 'token':
                v = V(OBJ, YES)
            elif p == 'tokens':
                v = V(OBJ, NO, elem=V(OBJ, YES))
            else:
                v = V(OBJ, NO)
            if f is root and p == 'format':
                v = V(FRESH, NO, consts=frozenset([self.fmt]))
            elif f.is_property and p in defaults and isinstance(defaults[p], ast.Constant):
                v = V(FRESH, NO, consts=frozenset([defaults[p].value]))       # a property is never called with arguments
            env[p] = v
            self.bind_summary(f, p, v)
        self.block(f.node.body, env, f, frozenset())

    def bind_call(self, g, n, args, skip_self):
        """record the argument values of the call `n` for the parameters of g (context-insensitive join over all call sites)"""
        a = g.node.args
        pos = [x.arg for x in a.posonlyargs + a.args]
        if skip_self:
            pos = pos[1:]
        if a.vararg or a.kwarg or any(isinstance(x, ast.Starred) for x in n.args) or any(k.arg is None for k in n.keywords) or len(n.args) > len(pos):
            if not g.open_calls:
                g.open_calls, self.changed = True, True
            return
        names = pos[:len(n.args)] + [k.arg for k in n.keywords]
        known = set(pos) | {x.arg for x in a.kwonlyargs}
        if not set(names) <= known or len(set(names)) != len(names):
            if not g.open_calls:
                g.open_calls, self.changed = True, True
            return
        for p, v in zip(names, args):
            old = g.actuals.get(p)
            new = cap(join(old, v))
            if old is None or old.key() != new.key():
                g.actuals[p] = new
                self.changed = True

    def bind_summary(self, f, name, v):
        old = f.summary.get(name)
        new = cap(join(old, v))
        if old is None or old.key() != new.key():
            f.summary[name] = new
            self.changed = True

    # ---- names ----
    def assign_name(self, name, v, env, f):
        if name in f.nonlocals:
            owner = f.parent
            while owner is not None and name not in owner.summary and owner.parent is not None:
                owner = owner.parent
            if owner is not None:
                self.bind_summary(owner, name, v)
                if name not in owner.dirty:
                    owner.dirty.add(name)
                    self.changed = True
            return
        env[name] = v
        self.bind_summary(f, name, v)

    def taint(self, recv, v, env, f):
        """a value is stored into the container that `recv` denotes: the root name of recv now may hold it"""
        while isinstance(recv, (ast.Attribute, ast.Subscript)):
            recv = recv.value
        if not isinstance(recv, ast.Name) or v.own == FRESH and not v.funcs:
            return
        name = recv.id
        add = V(SHALLOW, NO, elem=v)
        if name in env and name not in f.nonlocals:
            cur = env[name]
            env[name] = V(max(cur.own, SHALLOW), cur.tok, elem=join(elem_of(cur, explicit=True), v), funcs=cur.funcs, consts=None, cls=cur.cls)
            self.bind_summary(f, name, env[name])
            return
        s = f if name not in f.nonlocals else f.parent
        while s is not None:
            if name in s.summary:
                cur = s.summary[name]
                self.bind_summary(s, name, V(max(cur.own, SHALLOW), cur.tok, elem=join(elem_of(cur, explicit=True), v), cls=cur.cls))
                if s is not f and name not in s.dirty:
                    s.dirty.add(name)
                    self.changed = True
                return
            s = s.parent

    def lookup(self, name, env, f):
        if name in env and name not in f.nonlocals:
            return join(env[name], f.summary.get(name)) if name in f.dirty else env[name]
        s = f
        while s is not None:
            if name in s.nested:
                return V(FRESH, NO, funcs=frozenset([s.nested[name]]))
            if name in s.summary and not (s is f and name in f.nonlocals):
                return s.summary[name]
            s = s.parent
        m = f.mod
        if name in m.funcs:
            return V(FRESH, NO, funcs=frozenset([self.w.func(m, m.funcs[name])]))
        if name in m.classes:
            return V(FRESH, NO, cls=('class', m, m.classes[name]))
        if name in m.imports:
            src, orig = m.imports[name]
            sm = self.w.mods.get(src)
            if sm is not None and orig in sm.funcs:
                return V(FRESH, NO, funcs=frozenset([self.w.func(sm, sm.funcs[orig])]))
            if sm is not None and orig in sm.classes:
                return V(FRESH, NO, cls=('class', sm, sm.classes[orig]))
            return V(FRESH, NO, cls=('external', src, orig))
        if name in m.assigns:
            return V(FRESH, NO, cls=('modvar', m, name))
        return V(FRESH, NO, cls=('builtin', name))

    # ---- statements ----
    def block(self, stmts, env, f, guards):
        """returns True when the block always leaves (return/raise/continue/break)"""
        for i, st in enumerate(stmts):
            if isinstance(st, ast.If):
                t = self.truth(st.test, env, f, guards)
                pos, neg = guard_sets(st.test)
                if t is True:
                    if self.block(st.body, env, f, guards | pos):
                        return True
                    continue
                if t is False:
                    if self.block(st.orelse, env, f, guards | neg):
                        return True
                    continue
                e1, e2 = dict(env), dict(env)
                x1 = self.block(st.body, e1, f, guards | pos)
                x2 = self.block(st.orelse, e2, f, guards | neg)
                if x1 and x2:
                    return True
                merged = e2 if x1 else e1 if x2 else merge(e1, e2)
                env.clear(); env.update(merged)
                if x1:
                    guards = guards | neg
                elif x2:
                    guards = guards | pos
                continue
            if self.stmt(st, env, f, guards):
                return True
        return False

    def loop_body(self, body, orelse, env, f, guards, bind):
        for _ in range(2):
            e = dict(env)
            bind(e)
            self.block(body, e, f, guards)
            m = merge(env, e)
            env.clear(); env.update(m)
        self.block(orelse, env, f, guards)

    def stmt(self, st, env, f, guards):
        E = lambda x: self.expr(x, env, f, guards)
        if isinstance(st, ast.Expr):
            E(st.value)
        elif isinstance(st, ast.Assign):
            self.assign(st.targets, st.value, env, f, guards)
        elif isinstance(st, ast.AnnAssign):
            if st.value is not None:
                self.assign([st.target], st.value, env, f, guards)
        elif isinstance(st, ast.AugAssign):
            v = E(st.value)
            if isinstance(st.target, ast.Name):
                cur = self.lookup(st.target.id, env, f)
                if cur.own == OBJ and (cur.elem is not None or cur.items is not None or cur.tok != NO):
                    self.rec_mut('iadd', f'{f.where}: {txt(st.target)}', f, st)
                self.assign_name(st.target.id, join(cur, v), env, f)
            else:
                self.store(st.target, v, env, f, guards, value_node=None)
                self.expr(ast.copy_location(ast.Subscript(st.target.value, st.target.slice, ast.Load()), st.target)
                          if isinstance(st.target, ast.Subscript) else st.target.value, env, f, guards)
        elif isinstance(st, ast.Return):
            v = E(st.value) if st.value is not None else V()
            new = cap(join(f.ret, v))
            if f.ret is None or f.ret.key() != new.key():
                f.ret = new
                self.changed = True
            return True
        elif isinstance(st, ast.Raise):
            if st.exc is not None:
                E(st.exc)
            if st.cause is not None:
                E(st.cause)
            return True
        elif isinstance(st, (ast.Continue, ast.Break)):
            return True
        elif isinstance(st, (ast.Pass, ast.Nonlocal, ast.Global, ast.Import, ast.ImportFrom)):
            pass
        elif isinstance(st, ast.Assert):
            E(st.test)
            if st.msg is not None:
                E(st.msg)
        elif isinstance(st, ast.Delete):
            for t in st.targets:
                if isinstance(t, ast.Name):
                    env.pop(t.id, None)
                elif isinstance(t, (ast.Subscript, ast.Attribute)):
                    r = E(t.value)
                    if isinstance(t, ast.Subscript):
                        E(t.slice)
                    if r.own == OBJ:
                        k = cstr(t.slice) if isinstance(t, ast.Subscript) else None
                        if k is not None and r.tok != NO:
                            self.rec_mut('tok.pop', k, f, t)
                        else:
                            self.rec_mut('del', f'{f.where}: {txt(t)}', f, t)
                    if isinstance(t, ast.Subscript) and r.tok != NO and cstr(t.slice) is not None:
                        self.rec_strict(cstr(t.slice), f, t, guards, txt(t.value))
                else:
                    raise Fail(f'{f.where}:{st.lineno}: unsupported del target')
        elif isinstance(st, ast.For):
            it = E(st.iter)
            el = elem_of(it)
            lits_ = None
            if isinstance(st.iter, (ast.Tuple, ast.List, ast.Set)) and all(isinstance(x, ast.Constant) for x in st.iter.elts):
                lits_ = frozenset(x.value for x in st.iter.elts)
            if lits_ is not None:
                el = V(FRESH, NO, consts=lits_)
            self.loop_body(st.body, st.orelse, env, f, guards, lambda e: self.bind_target(st.target, el, e, f, guards))
        elif isinstance(st, ast.While):
            E(st.test)
            self.loop_body(st.body, st.orelse, env, f, guards, lambda e: None)
        elif isinstance(st, ast.With):
            for item in st.items:
                v = E(item.context_expr)
                if item.optional_vars is not None:
                    self.bind_target(item.optional_vars, v, env, f, guards)
            return self.block(st.body, env, f, guards)
        elif isinstance(st, ast.Try):
            catches = False
            for h in st.handlers:
                names = []
                if h.type is None:
                    names = ['BaseException']
                elif isinstance(h.type, ast.Tuple):
                    names = [txt(x) for x in h.type.elts]
                else:
                    names = [txt(h.type)]
                if any(n in ('KeyError', 'LookupError', 'Exception', 'BaseException') for n in names):
                    catches = True
            e0 = dict(env)
            self.block(st.body, env, f, guards | {'*'} if catches else guards)
            for h in st.handlers:
                eh = merge(e0, env)
                if h.name:
                    eh[h.name] = V()
                self.block(h.body, eh, f, guards)
                m = merge(env, eh)
                env.clear(); env.update(m)
            self.block(st.orelse, env, f, guards)
            self.block(st.finalbody, env, f, guards)
        elif isinstance(st, ast.FunctionDef):
            g = self.w.func(f.mod, st, parent=f)
            f.nested[st.name] = g
            for d in st.args.defaults + [d for d in st.args.kw_defaults if d is not None]:
                E(d)
        elif isinstance(st, ast.ClassDef):
            raise Fail(f'{f.where}:{st.lineno}: nested class')
        else:
            raise Fail(f'{f.where}:{st.lineno}: unsupported statement {type(st).__name__}')
        return False

    def assign(self, targets, value, env, f, guards):
        # token[K2] = token.pop(K1): a rename inside one dict
        if (len(targets) == 1 and isinstance(targets[0], ast.Subscript) and cstr(targets[0].slice) is not None
                and isinstance(value, ast.Call) and isinstance(value.func, ast.Attribute) and value.func.attr == 'pop'
                and len(value.args) == 1 and cstr(value.args[0]) is not None and txt(value.func.value) == txt(targets[0].value)):
            r = self.expr(value.func.value, env, f, guards)
            if r.tok != NO:
                self.rec_strict(cstr(value.args[0]), f, value, guards, txt(value.func.value))
            if r.own == OBJ and r.tok != NO:
                self.rec_mut('tok.move', cstr(value.args[0]) + '>' + cstr(targets[0].slice), f, value)
                return
            if r.own != OBJ:
                return
        v = self.expr(value, env, f, guards)
        for t in targets:
            self.bind_target(t, v, env, f, guards, value_node=value)

    def bind_target(self, t, v, env, f, guards, value_node=None):
        if isinstance(t, ast.Name):
            self.assign_name(t.id, v, env, f)
        elif isinstance(t, (ast.Tuple, ast.List)):
            for i, x in enumerate(t.elts):
                if isinstance(x, ast.Starred):
                    self.bind_target(x.value, V(SHALLOW if v.own != FRESH else FRESH, NO, elem=elem_of(v)), env, f, guards)
                elif v.items is not None and len(v.items) == len(t.elts):
                    self.bind_target(x, v.items[i], env, f, guards)
                else:
                    self.bind_target(x, elem_of(v), env, f, guards)
        elif isinstance(t, (ast.Subscript, ast.Attribute)):
            self.store(t, v, env, f, guards, value_node)
        else:
            raise Fail(f'{f.where}:{t.lineno}: unsupported assignment target')

    def store(self, t, v, env, f, guards, value_node):
        r = self.expr(t.value, env, f, guards)
        self.taint(t.value, v, env, f)
        if isinstance(t, ast.Subscript):
            self.expr(t.slice, env, f, guards)
            if r.own == OBJ:
                k = cstr(t.slice)
                if k is not None and r.tok != NO:
                    self.rec_mut('tok.setitem', k, f, t)
                else:
                    self.rec_mut('setitem', f'{f.where}: {txt(t)}', f, t)
        else:
            if r.own == OBJ:
                self.rec_mut('setattr', f'{f.where}: {txt(t)}', f, t)

    # ---- static truth ----
    def truth(self, test, env, f, guards):
        if isinstance(test, ast.Constant):
            return bool(test.value)
        if isinstance(test, ast.UnaryOp) and isinstance(test.op, ast.Not):
            t = self.truth(test.operand, env, f, guards)
            return None if t is None else not t
        if isinstance(test, ast.BoolOp):
            ts = [self.truth(x, env, f, guards) for x in test.values]
            if isinstance(test.op, ast.And):
                return False if any(t is False for t in ts) else True if all(t is True for t in ts) else None
            return True if any(t is True for t in ts) else False if all(t is False for t in ts) else None
        if isinstance(test, ast.Compare) and len(test.ops) == 1:
            l = self.expr(test.left, env, f, guards)
            rn = test.comparators[0]
            op = test.ops[0]
            if isinstance(op, (ast.In, ast.NotIn)) and isinstance(rn, (ast.Tuple, ast.List, ast.Set)) and all(isinstance(x, ast.Constant) for x in rn.elts):
                for x in rn.elts:
                    pass
                if l.consts is None:
                    return None
                pool = {x.value for x in rn.elts}
                res = {c in pool for c in l.consts}
                if len(res) == 1:
                    r = res.pop()
                    return r if isinstance(op, ast.In) else not r
                return None
            r = self.expr(rn, env, f, guards)
            if isinstance(op, (ast.Eq, ast.NotEq)) and l.consts is not None and r.consts is not None:
                res = {a == b for a in l.consts for b in r.consts}
                if len(res) == 1:
                    x = res.pop()
                    return x if isinstance(op, ast.Eq) else not x
            return None
        self.expr(test, env, f, guards)
        return None

    # ---- expressions ----
    def expr(self, n, env, f, guards):
        E = lambda x: self.expr(x, env, f, guards)
        if n is None:
            return V()
        if isinstance(n, ast.Constant):
            return V(FRESH, NO, consts=frozenset([n.value]) if isinstance(n.value, (str, int, bool, type(None))) else None)
        if isinstance(n, ast.Name):
            return self.lookup(n.id, env, f)
        if isinstance(n, ast.JoinedStr):
            for x in n.values:
                E(x)
            return V()
        if isinstance(n, ast.FormattedValue):
            E(n.value)
            if n.format_spec is not None:
                E(n.format_spec)
            return V()
        if isinstance(n, (ast.BinOp,)):
            l, r = E(n.left), E(n.right)
            if isinstance(n.op, (ast.Add, ast.Mult)) and (l.own != FRESH or r.own != FRESH):
                return V(SHALLOW, NO, elem=join(elem_of(l), elem_of(r)))        # list concatenation / repetition
            if l.own != FRESH or r.own != FRESH:
                return join(l, r)                                               # an operator of an unknown class
            return V()
        if isinstance(n, ast.UnaryOp):
            E(n.operand)
            return V()
        if isinstance(n, ast.BoolOp):
            return joins([E(x) for x in n.values])
        if isinstance(n, ast.Compare):
            t = self.truth(n, env, f, guards) if len(n.ops) == 1 else None
            if len(n.ops) != 1:
                E(n.left)
                for c in n.comparators:
                    E(c)
            return V(FRESH, NO, consts=frozenset([t]) if t is not None else None)
        if isinstance(n, ast.IfExp):
            t = self.truth(n.test, env, f, guards)
            pos, neg = guard_sets(n.test)
            if t is True:
                return self.expr(n.body, env, f, guards | pos)
            if t is False:
                return self.expr(n.orelse, env, f, guards | neg)
            return join(self.expr(n.body, env, f, guards | pos), self.expr(n.orelse, env, f, guards | neg))
        if isinstance(n, (ast.Tuple, ast.List, ast.Set)):
            vs = [E(x.value if isinstance(x, ast.Starred) else x) for x in n.elts]
            own = SHALLOW if any(v.own != FRESH for v in vs) else FRESH
            if isinstance(n, ast.Tuple) and not any(isinstance(x, ast.Starred) for x in n.elts):
                return V(own, NO, items=vs)
            return V(own, NO, elem=joins(vs) if vs else None)
        if isinstance(n, ast.Dict):
            vs = [E(x) for x in n.values]
            for k in n.keys:
                if k is not None:
                    E(k)
            own = SHALLOW if any(v.own != FRESH for v in vs) else FRESH
            return V(own, NO, elem=joins(vs) if vs else None)
        if isinstance(n, (ast.ListComp, ast.SetComp, ast.GeneratorExp, ast.DictComp)):
            e = dict(env)
            g = guards
            for c in n.generators:
                it = self.expr(c.iter, e, f, g)
                el = elem_of(it)
                if isinstance(c.iter, (ast.Tuple, ast.List, ast.Set)) and all(isinstance(x, ast.Constant) for x in c.iter.elts):
                    el = V(FRESH, NO, consts=frozenset(x.value for x in c.iter.elts))
                self.bind_comp(c.target, el, e, f)
                for cond in c.ifs:
                    self.truth(cond, e, f, g)
                    g = g | guard_sets(cond)[0]
            if isinstance(n, ast.DictComp):
                self.expr(n.key, e, f, g)
                v = self.expr(n.value, e, f, g)
            else:
                v = self.expr(n.elt, e, f, g)
            return V(SHALLOW if v.own != FRESH else FRESH, NO, elem=v)
        if isinstance(n, ast.Starred):
            return E(n.value)
        if isinstance(n, ast.Lambda):
            e = dict(env)
            for a in n.args.posonlyargs + n.args.args + n.args.kwonlyargs:
                e[a.arg] = V(OBJ, YES if a.arg == 'token' else NO)
            return self.expr(n.body, e, f, guards)
        if isinstance(n, ast.Slice):
            for x in (n.lower, n.upper, n.step):
                if x is not None:
                    E(x)
            return V()
        if isinstance(n, ast.Subscript):
            return self.subscript(n, env, f, guards)
        if isinstance(n, ast.Attribute):
            return self.attribute(n, env, f, guards)
        if isinstance(n, ast.Call):
            return self.call(n, env, f, guards)
        if isinstance(n, ast.NamedExpr):
            v = E(n.value)
            self.assign_name(n.target.id, v, env, f)
            return v
        raise Fail(f'{f.where}:{getattr(n, "lineno", "?")}: unsupported expression {type(n).__name__}')

    def bind_comp(self, t, v, env, f):
        if isinstance(t, ast.Name):
            env[t.id] = v
        elif isinstance(t, (ast.Tuple, ast.List)):
            for i, x in enumerate(t.elts):
                self.bind_comp(x, v.items[i] if v.items is not None and len(v.items) == len(t.elts) else elem_of(v), env, f)
        else:
            raise Fail(f'{f.where}: unsupported comprehension target')

    def subscript(self, n, env, f, guards):
        r = self.expr(n.value, env, f, guards)
        if isinstance(n.slice, ast.Slice):
            self.expr(n.slice, env, f, guards)
            return V(SHALLOW if r.own != FRESH else FRESH, r.tok, elem=elem_of(r))
        k = self.expr(n.slice, env, f, guards)
        # lookup in a module-level dict literal
        if r.cls and r.cls[0] == 'modvar':
            m, name = r.cls[1], r.cls[2]
            d = m.assigns[name]
            if isinstance(d, ast.Dict) and all(cstr(x) is not None for x in d.keys):
                keys = [cstr(x) for x in d.keys]
                if k.consts is not None:
                    vs = []
                    for c in k.consts:
                        if c in keys:
                            vs.append(self.expr(d.values[keys.index(c)], {}, self.w.func(m, _modfn(m)), frozenset()))
                        elif '*' not in guards:
                            self.undispatched.append(f'{name}[{c!r}] at {f.where}:{n.lineno}')
                        else:
                            self.undispatched.append(f'{name}[{c!r}] at {f.where}:{n.lineno} (caught and re-raised)')
                    return joins(vs)
                sl = n.slice
                if isinstance(sl, ast.Name):
                    # a local that only abbreviates <node>.op_string / <node>.op_symbol (assigned exactly once in this function)
                    sl = local_alias(f.node, sl.id) or sl
                if isinstance(sl, ast.Attribute) and sl.attr in ('op_string', 'op_symbol'):
                    scope = node_scope(f, n, txt(sl.value))
                    self.labels.setdefault((scope, sl.attr, tuple(keys)), f'{f.where}:{n.lineno} {txt(n)}')
                    return joins([self.expr(x, {}, self.w.func(m, _modfn(m)), frozenset()) for x in d.values])
                raise Fail(f'{f.where}:{n.lineno}: lookup {txt(n)} in table {name} with a key the translator cannot classify')
            return V()
        ks = k.consts
        if r.tok != NO and isinstance(n.ctx, ast.Load):
            if ks is not None and all(isinstance(c, str) for c in ks):
                for c in sorted(ks):
                    self.rec_strict(c, f, n, guards, txt(n.value))
            elif ks is not None and all(isinstance(c, (int, bool)) for c in ks):
                pass
            elif r.tok == YES and '*' not in guards:
                raise Fail(f'{f.where}:{n.lineno}: token key of {txt(n)} is not a resolvable constant')
        el = elem_of(r)
        if r.tok == YES:
            return V(FRESH)              # token values are strings
        return el

    def attribute(self, n, env, f, guards):
        r = self.expr(n.value, env, f, guards)
        a = n.attr
        if r.cls and r.cls[0] in ('external', 'builtin', 'modvar', 'class'):
            if r.cls[0] == 'external':
                return V(FRESH, NO, cls=('external', r.cls[1] + '.' + (r.cls[2] or ''), a))
            return V()
        if r.tok == YES and a not in DICT_NAMES and not a.startswith('_'):
            self.rec_strict(a, f, n, guards, txt(n.value))
            return V()
        # a property / method of a class defined in an analysed module (Tree, _ConvertToJiggXML)
        target = self.member(r, a)
        if target is not None and target.is_property:
            self.todo.append(target)
            v = target.ret or V()
            if r.own == FRESH and target.cls is self.w.tree_cls:
                v = V()
            return overlay(a, v, r)
        return overlay(a, V(attr_own(r), NO), r)

    def member(self, r, a):
        """the function an attribute name denotes: a member of the receiver's class if known, else of Tree"""
        w = self.w
        if r.cls is not None and r.cls[0] == 'instance':
            for x in r.cls[1].body:
                if isinstance(x, ast.FunctionDef) and x.name == a:
                    return w.func(self.mod_of_class(r.cls[1]), x, cls=r.cls[1])
            return None
        if a in w.tree_members and r.tok != YES:
            return w.func(w.mods['depccg.tree'], w.tree_members[a], cls=w.tree_cls)
        for m in w.mods.values():
            for c in m.classes.values():
                if c is w.tree_cls:
                    continue
                for x in c.body:
                    if isinstance(x, ast.FunctionDef) and x.name == a and a not in DICT_NAMES and a not in MUTATORS:
                        return w.func(m, x, cls=c)
        return None

    def mod_of_class(self, c):
        for m in self.w.mods.values():
            if c in m.classes.values():
                return m
        raise Fail('class without module')

    def call(self, n, env, f, guards):
        E = lambda x: self.expr(x, env, f, guards)
        fn = n.func
        args = [E(a.value if isinstance(a, ast.Starred) else a) for a in n.args] + [E(k.value) for k in n.keywords]
        anyobj = joins(args) if args else V()
        if isinstance(fn, ast.Attribute):
            r = E(fn.value)
            a = fn.attr
            const0 = cstr(n.args[0]) if n.args else None
            key0 = args[0].consts if n.args else None
            if r.cls and r.cls[0] == 'builtin':
                if a in MUTATORS and args and args[0].own == OBJ:          # object.__setattr__(cat, ...), dict.pop(token, ...), list.sort(children)
                    self.rec_mut(a, f'{f.where}: {txt(n)}', f, n)
                return V()          # str.join(...), dict.fromkeys(...) or a closure variable that is not bound yet in this iteration
            if r.cls and r.cls[0] == 'external':
                return self.external(f'{r.cls[1]}.{r.cls[2] or ""}.{a}'.replace('..', '.'), a, args, n, f)
            # token reads
            if r.tok != NO and a == 'get':
                if key0 is not None:
                    for c in sorted(x for x in key0 if isinstance(x, str)):
                        self.rec_default(c, f, n)
                return V(FRESH) if r.tok == YES else joins([elem_of(r)] + args[1:])
            if r.tok != NO and a in ('pop', 'setdefault') and key0 is not None and all(isinstance(x, str) for x in key0):
                if a == 'pop' and len(n.args) == 1:
                    for c in sorted(key0):
                        self.rec_strict(c, f, n, guards, txt(fn.value))
                if r.own == OBJ:
                    for c in sorted(key0):
                        self.rec_mut('tok.pop' if a == 'pop' else 'tok.setitem', c, f, n)
                return V(FRESH) if r.tok == YES else elem_of(r)
            if a in MUTATORS and r.own == OBJ:
                self.rec_mut(a, f'{f.where}: {txt(fn.value)}', f, n)
            if a in ('append', 'add', 'insert', 'appendleft', 'setdefault', '__setitem__'):
                self.taint(fn.value, anyobj, env, f)
            elif a in ('extend', 'update', '__iadd__', '__ior__'):
                self.taint(fn.value, elem_of(anyobj) if (anyobj.elem is not None or anyobj.items is not None) else anyobj, env, f)
            if a in ('pop', 'popitem', 'popleft', 'get', 'setdefault', '__getitem__'):
                return joins([elem_of(r)] + args[1:])
            if a in ('items',):
                e = elem_of(r)
                return V(SHALLOW if r.own != FRESH else FRESH, NO, elem=V(e.own, NO, items=[V(FRESH), V(FRESH) if r.tok == YES else e]))
            if a in ('values', 'keys'):
                return V(SHALLOW if r.own != FRESH else FRESH, NO, elem=V(FRESH) if (a == 'keys' or r.tok == YES) else elem_of(r))
            if a == 'copy':
                return V(SHALLOW if r.own != FRESH else FRESH, r.tok, elem=r.elem, items=r.items)
            if a in STR_METHODS:
                return V()
            target = self.member(r, a) if not (r.tok == YES) else None
            if target is not None and not target.is_property:
                self.bind_call(target, n, args, skip_self=target.cls is not None)
                self.todo.append(target)
                v = target.ret or V()
                return v
            if a in MUTATORS:
                return V()
            # unknown method: may return its receiver or an argument
            return V(max(attr_own(r), anyobj.own), MAYBE if (r.tok != NO or anyobj.tok != NO) else NO)
        if isinstance(fn, ast.Name):
            name = fn.id
            c = self.lookup(name, env, f)
            if c.funcs:
                for g in c.funcs:
                    self.bind_call(g, n, args, skip_self=False)
                    self.todo.append(g)
                return joins([g.ret or V() for g in c.funcs])
            if c.cls and c.cls[0] == 'class':
                cls = c.cls[2]
                for x in cls.body:
                    if isinstance(x, ast.FunctionDef) and x.name == '__init__':
                        self.todo.append(self.w.func(c.cls[1], x, cls=cls))
                return V(SHALLOW if anyobj.own != FRESH else FRESH, NO, cls=('instance', cls))
            if c.cls and c.cls[0] == 'external':
                if c.cls[1] == 'depccg.lang' and c.cls[2] == 'get_global_language' and not n.args:
                    return V(FRESH, NO, consts=frozenset([self.lang]))
                if c.cls[1] == 'depccg.types' and c.cls[2] == 'Token':        # Token(**token): a new dict
                    return V(SHALLOW if anyobj.own != FRESH else FRESH, YES)
                return self.external(f'{c.cls[1]}.{c.cls[2]}', c.cls[2], args, n, f)
            if c.cls and c.cls[0] == 'builtin':
                return self.builtin(name, n, args, env, f, guards)
            if c.own != FRESH:
                return V(OBJ, MAYBE)          # calling an unknown callable object
            return V()
        r = E(fn)
        for g in r.funcs:
            if not g.open_calls:
                g.open_calls, self.changed = True, True      # called through an expression: arguments not followed
            self.todo.append(g)
        if r.funcs:
            return joins([g.ret or V() for g in r.funcs])
        return V(max(r.own, anyobj.own), MAYBE if anyobj.tok != NO else NO)

    def builtin(self, name, n, args, env, f, guards):
        a0 = args[0] if args else V()
        anyv = joins(args) if args else V()
        if name == 'len':
            if a0.own != FRESH and a0.tok == NO and '__len__' in self.w.tree_members:
                self.todo.append(self.w.func(self.w.mods['depccg.tree'], self.w.tree_members['__len__'], cls=self.w.tree_cls))
            return V()
        if name in PURE_SCALAR:
            return V()
        if name in ('setattr', 'delattr'):
            if a0.own == OBJ:
                self.rec_mut('setattr', f'{f.where}: {txt(n)}', f, n)
            return V()
        if name in ('vars',):
            return V(a0.own, NO)
        if name in ('enumerate',):
            return V(SHALLOW if a0.own != FRESH else FRESH, NO, elem=V(SHALLOW if a0.own != FRESH else FRESH, NO, items=[V(), elem_of(a0)]))
        if name == 'zip':
            return V(SHALLOW if anyv.own != FRESH else FRESH, NO, elem=V(SHALLOW if anyv.own != FRESH else FRESH, NO, items=[elem_of(a) for a in args]))
        if name == 'map':
            fv = a0
            for g in fv.funcs:
                if not g.open_calls:
                    g.open_calls, self.changed = True, True      # map(f, ...): arguments not followed
                self.todo.append(g)
            rv = joins([g.ret or V() for g in fv.funcs]) if fv.funcs else V(joins(args[1:]).own if len(args) > 1 else FRESH, MAYBE)
            return V(SHALLOW if rv.own != FRESH else FRESH, NO, elem=rv)
        if name in CONTAINER_CTORS:
            if not args:
                return V()
            if name == 'dict' and a0.tok == YES:
                return V(SHALLOW if a0.own != FRESH else FRESH, YES)
            if name == 'dict':
                e = elem_of(a0)
                if e.items is not None and len(e.items) == 2:
                    e = e.items[1]
                return V(SHALLOW if a0.own != FRESH else FRESH, a0.tok, elem=e)
            return V(SHALLOW if a0.own != FRESH else FRESH, a0.tok if name == 'Token' else NO, elem=elem_of(a0))
        if name in ELEMENT_FUNCS:
            return joins([elem_of(a) if a.elem is not None or a.items is not None else a for a in args])
        if name in ('super', 'object', 'open', 'input', 'exec', 'eval', 'compile', 'globals', 'locals', '__import__'):
            raise Fail(f'{f.where}:{n.lineno}: call of {name}() in a printer')
        if name[:1].isupper():      # an exception class or similar
            return V()
        raise Fail(f'{f.where}:{n.lineno}: call of unknown name {name}')

    def external(self, qual, short, args, n, f):
        """a function of a module that is not analysed: assumed not to mutate its arguments (listed in the output)"""
        anyv = joins(args) if args else V()
        if qual.startswith('depccg.semantics') or '.ccg2lambda' in qual or qual.startswith('ccg2lambda'):
            self.unmodelled.append(qual)
            return V()
        if short in EXTERNAL_MUTATORS and anyv.own == OBJ:
            self.rec_mut(short, f'{f.where}: {txt(n)}', f, n)
        if short == 'deepcopy':
            a0 = args[0] if args else V()
            return V(FRESH, a0.tok, elem=None)
        if qual.startswith('copy.') and short == 'copy':
            a0 = args[0] if args else V()
            return V(SHALLOW if a0.own != FRESH else FRESH, a0.tok, elem=a0.elem, items=a0.items)
        self.externals.add(qual)
        if anyv.own == FRESH:
            return V()
        return V(anyv.own, MAYBE if anyv.tok != NO else NO)


def overlay(a, v, r):
    """token-ness is decided by the attribute name"""
    if a == 'token':
        return V(v.own if v.own != FRESH else attr_own(r), YES)
    if a == 'tokens':
        return V(v.own, NO, elem=V(attr_own(r), YES))
    if a == 'children':
        return V(v.own, NO, elem=V(attr_own(r), MAYBE))
    return v


def _modfn(m):
    """a pseudo function node for evaluating module-level expressions"""
    if not hasattr(m, '_pseudo'):
        m._pseudo = ast.parse('def __module__(): pass').body[0]
    return m._pseudo


def merge(e1, e2):
    out = {}
    for k in set(e1) | set(e2):
        out[k] = join(e1.get(k), e2.get(k))
    return out


def guard_sets(test):
    """(facts that hold in the body, facts that hold in the else branch): pairs (receiver text, key) known to be present"""
    if isinstance(test, ast.Compare) and len(test.ops) == 1 and cstr(test.left) is not None:
        g = frozenset([(txt(test.comparators[0]), cstr(test.left))])
        if isinstance(test.ops[0], ast.In):
            return g, frozenset()
        if isinstance(test.ops[0], ast.NotIn):
            return frozenset(), g
    if isinstance(test, ast.UnaryOp) and isinstance(test.op, ast.Not):
        p, q = guard_sets(test.operand)
        return q, p
    if isinstance(test, ast.BoolOp):
        parts = [guard_sets(x) for x in test.values]
        if isinstance(test.op, ast.And):
            return frozenset().union(*[p for p, _ in parts]), frozenset()
        return frozenset(), frozenset().union(*[q for _, q in parts])
    return frozenset(), frozenset()


def local_alias(fn, name):
    """the Attribute node E if `name` is bound exactly once in function fn, by a plain `name = E` with E = <Name>.op_string / .op_symbol,
    and <Name> itself is a parameter or is never re-bound; None otherwise (fail-closed: the caller then cannot classify the key)"""
    binds = []
    for x in ast.walk(fn):
        tg = []
        if isinstance(x, ast.Assign):
            tg = x.targets
        elif isinstance(x, (ast.AnnAssign, ast.AugAssign, ast.NamedExpr)):
            tg = [x.target]
        elif isinstance(x, (ast.For, ast.comprehension)):
            tg = [x.target]
        elif isinstance(x, ast.withitem) and x.optional_vars is not None:
            tg = [x.optional_vars]
        elif isinstance(x, ast.arg) and x.arg == name:
            binds.append(None)
        for t in tg:
            for y in ast.walk(t):
                if isinstance(y, ast.Name) and y.id == name:
                    binds.append(x)
    if len(binds) != 1 or not isinstance(binds[0], ast.Assign) or len(binds[0].targets) != 1 or not isinstance(binds[0].targets[0], ast.Name):
        return None
    v = binds[0].value
    if isinstance(v, ast.Attribute) and v.attr in ('op_string', 'op_symbol') and isinstance(v.value, ast.Name):
        recv = v.value.id
        rebinds = [x for x in ast.walk(fn) if isinstance(x, ast.Name) and x.id == recv and isinstance(x.ctx, ast.Store)]
        if not rebinds:
            return v
    return None


def node_scope(f, target, recv):
    """which tree nodes reach `target` inside function f: walk the if/elif chains that test <recv>.is_leaf / <recv>.is_unary"""
    path = []

    def find(stmts):
        for st in stmts:
            if not any(x is target for x in ast.walk(st)):
                continue
            if isinstance(st, ast.If):
                if any(x is target for x in ast.walk(st.test)):
                    return True
                if any(x is target for b in st.body for x in ast.walk(b)):
                    path.append((st.test, True))
                    return find(st.body)
                path.append((st.test, False))
                return find(st.orelse)
            for fld in ('body', 'orelse', 'finalbody'):
                sub = getattr(st, fld, None)
                if isinstance(sub, list) and any(x is target for b in sub if isinstance(b, ast.AST) for x in ast.walk(b)):
                    if isinstance(st, ast.FunctionDef):
                        raise Fail(f'{f.where}: label lookup inside a nested function of the node function')
                    return find(sub)
            return True
        return False
    find(f.node.body)
    leaf = unary = None      # None = unknown, True/False
    for test, branch in path:
        neg = False
        t = test
        while isinstance(t, ast.UnaryOp) and isinstance(t.op, ast.Not):
            neg, t = not neg, t.operand
        if isinstance(t, ast.Attribute) and txt(t.value) == recv and t.attr in ('is_leaf', 'is_unary'):
            val = branch != neg
            if t.attr == 'is_leaf':
                leaf = val
                if val:
                    unary = True
            else:
                unary = val
                if not val:
                    leaf = False
        elif branch:
            pass        # an additional, unrelated condition: the lookup may still happen (conservative)
    if leaf is True:
        return 'leaf'
    if leaf is False and unary is False:
        return 'binary'
    if leaf is False and unary is True:
        return 'unary'
    if leaf is False:
        return 'nonleaf'
    if unary is False:
        return 'binary'
    return 'all'


# ------------------------------------------------------------------------------------------------------
def cli_formats(repo):
    """{'en': [...], 'ja': [...]} - the choices of --format per language sub-parser of depccg/argparse.py"""
    m = Module(repo, 'depccg/argparse.py', 'depccg.argparse')
    if m.funcs.get('parse_args') is None:
        raise Fail('argparse.py: no parse_args')
    out = {}
    # the sub-parsers may be set up in parse_args itself or in helper functions it calls: every function of the module is scanned, a
    # `P = <...>.add_parser('<lang>')` and the `P.add_argument('--format', choices=[...])` that follows must be in the same function
    for fn in [n for n in ast.walk(m.tree) if isinstance(n, ast.FunctionDef)]:
        parsers = {}
        own = [n for n in ast.walk(fn)]
        for n in own:
            if (isinstance(n, ast.Assign) and len(n.targets) == 1 and isinstance(n.targets[0], ast.Name) and isinstance(n.value, ast.Call)
                    and isinstance(n.value.func, ast.Attribute) and n.value.func.attr == 'add_parser' and n.value.args and cstr(n.value.args[0])):
                parsers[n.targets[0].id] = cstr(n.value.args[0])
        for n in own:
            if (isinstance(n, ast.Call) and isinstance(n.func, ast.Attribute) and n.func.attr == 'add_argument' and isinstance(n.func.value, ast.Name)
                    and any(cstr(a) == '--format' for a in n.args)):
                lang = parsers.get(n.func.value.id)
                if lang is None:
                    continue        # the common options of add_common_parser_arguments have no --format; anything else is caught below
                ch = [k.value for k in n.keywords if k.arg == 'choices']
                if len(ch) == 1 and isinstance(ch[0], ast.Name) and isinstance(m.assigns.get(ch[0].id), (ast.List, ast.Tuple)):
                    ch = [m.assigns[ch[0].id]]
                if len(ch) != 1 or not isinstance(ch[0], (ast.List, ast.Tuple)) or not all(cstr(e) is not None for e in ch[0].elts):
                    raise Fail('argparse.py: --format without a literal choices list on a language sub-parser')
                if lang in out:
                    raise Fail(f'argparse.py: two --format options for {lang}')
                out[lang] = [cstr(e) for e in ch[0].elts]
    if sorted(out) != ['en', 'ja']:
        raise Fail(f'argparse.py: expected --format choices for en and ja, found {sorted(out)}')
    return out


def _const_returns(node, where):
    """the string constants a returned expression can be: a literal or a conditional expression of such"""
    if cstr(node) is not None:
        return [cstr(node)]
    if isinstance(node, ast.IfExp):
        return _const_returns(node.body, where) + _const_returns(node.orelse, where)
    raise Fail(f'{where}: non-constant return')


def _all_paths_return_const(stmts, where):
    """every path through stmts ends in `return <str constant | conditional of constants>`; returns the constants"""
    out = []
    stmts = [s for s in stmts if not (isinstance(s, ast.Pass) or (isinstance(s, ast.Expr) and isinstance(s.value, ast.Constant)))]
    if not stmts:
        raise Fail(f'{where}: a path falls off the end (returns None)')
    for st in stmts[:-1]:
        if isinstance(st, ast.If):
            # an early `if c: return k` with fall-through
            for sub in (st.body, st.orelse):
                for x in sub:
                    for r in ast.walk(x):
                        if isinstance(r, ast.Return):
                            out += _const_returns(r.value, where)
        elif any(isinstance(r, ast.Return) for r in ast.walk(st)):
            raise Fail(f'{where}: unsupported control flow')
    last = stmts[-1]
    if isinstance(last, ast.Return):
        out += _const_returns(last.value, where)
    elif isinstance(last, ast.If):
        out += _all_paths_return_const(last.body, where)
        out += _all_paths_return_const(last.orelse, where)
    else:
        raise Fail(f'{where}: a path falls off the end (returns None)')
    return out


def _params(fn):
    a = fn.args
    if a.vararg or a.kwarg or a.kwonlyargs or a.posonlyargs:
        return None
    return [p.arg for p in a.args]


def _label_source(node, fn, m, binds, where, depth=0):
    """where the value of a label expression comes from: ('vals', [strings]) for literals and conditionals of literals,
    ('helper', name, [strings]) for a call of a literal-returning helper (two labels fed by ONE such call are equal).
    `binds` maps the parameters of fn to (argument node, calling function, its binds) when fn is a result-building helper."""
    if depth > 20:
        raise Fail(f'{where}: label expression nested too deeply')
    if cstr(node) is not None:
        return ('vals', [cstr(node)])
    if isinstance(node, ast.IfExp):
        a, b = _label_source(node.body, fn, m, binds, where, depth + 1), _label_source(node.orelse, fn, m, binds, where, depth + 1)
        if a[0] == 'vals' and b[0] == 'vals':
            return ('vals', a[1] + b[1])
    if isinstance(node, ast.Call) and isinstance(node.func, ast.Name) and node.func.id in m.funcs:
        vals = _all_paths_return_const(m.funcs[node.func.id].body, f'{where}/{node.func.id}')
        return ('helper', (node.func.id, id(node)), sorted(set(vals)))     # a vocabulary: independent of the order of the returns
    if isinstance(node, ast.Name):
        stores = [s for s in ast.walk(fn) if isinstance(s, ast.Name) and s.id == node.id and isinstance(s.ctx, (ast.Store, ast.Del))]
        defs = [s for s in ast.walk(fn) if isinstance(s, (ast.Assign, ast.AnnAssign)) and getattr(s, 'value', None) is not None
                and [getattr(t, 'id', None) for t in (s.targets if isinstance(s, ast.Assign) else [s.target])] == [node.id]]
        if len(defs) == 1 and len(stores) == 1:
            return _label_source(defs[0].value, fn, m, binds, where, depth + 1)
        if not stores and binds is not None and node.id in binds:
            arg, caller, cbinds = binds[node.id]
            return _label_source(arg, caller, m, cbinds, where, depth + 1)
        if not stores and node.id not in (_params(fn) or []) and cstr(m.assigns.get(node.id)) is not None:
            return ('vals', [cstr(m.assigns[node.id])])      # a module-level string constant
    raise Fail(f'{where}: label expression {txt(node)} is not a literal, a conditional of literals or a call of a literal-returning helper')


def _builds_results(fn, m, stack=()):
    """does fn (or a helper it calls) contain a CombinatorResult(...) literal"""
    for c in ast.walk(fn):
        if isinstance(c, ast.Call) and isinstance(c.func, ast.Name):
            if c.func.id == 'CombinatorResult':
                return True
            if c.func.id in m.funcs and c.func.id not in stack and c.func.id != fn.name and _builds_results(m.funcs[c.func.id], m, stack + (fn.name,)):
                return True
    return False


def _head_source(node, fn, m, binds, depth=0):
    """head_is_left of a CombinatorResult literal: True / False when it is a literal (possibly handed through the parameters of
    result-building helpers or a once-assigned local), None when it is computed"""
    if depth > 20 or node is None:
        return None
    if isinstance(node, ast.Constant) and isinstance(node.value, bool):
        return node.value
    if isinstance(node, ast.Name):
        stores = [s for s in ast.walk(fn) if isinstance(s, ast.Name) and s.id == node.id and isinstance(s.ctx, (ast.Store, ast.Del))]
        defs = [s for s in ast.walk(fn) if isinstance(s, (ast.Assign, ast.AnnAssign)) and getattr(s, 'value', None) is not None
                and [getattr(t, 'id', None) for t in (s.targets if isinstance(s, ast.Assign) else [s.target])] == [node.id]]
        if len(defs) == 1 and len(stores) == 1:
            return _head_source(defs[0].value, fn, m, binds, depth + 1)
        if not stores and binds is not None and node.id in binds:
            arg, caller, cbinds = binds[node.id]
            return _head_source(arg, caller, m, cbinds, depth + 1)
    return None


def _results_of(fn, m, where, binds=None, stack=()):
    """the (op_string, op_symbol, head_is_left) triples of every CombinatorResult(...) literal that fn can return - in fn itself
    or in the module-level helpers it calls (the helper's parameters are followed back to the arguments of the call);
    head_is_left is None when it is not a literal"""
    out = []
    if fn.name in stack:
        raise Fail(f'{where}: recursive result-building helper {fn.name}')
    for c in ast.walk(fn):
        if not (isinstance(c, ast.Call) and isinstance(c.func, ast.Name)):
            continue
        if c.func.id == 'CombinatorResult':
            kw = {k.arg: k.value for k in c.keywords}
            if c.args or 'op_string' not in kw or 'op_symbol' not in kw:
                raise Fail(f'{where}: CombinatorResult without keyword op_string/op_symbol')
            a = _label_source(kw['op_string'], fn, m, binds, where)
            b = _label_source(kw['op_symbol'], fn, m, binds, where)
            h = _head_source(kw.get('head_is_left'), fn, m, binds)
            if a[0] == 'helper' and b[0] == 'helper' and a[1] == b[1]:
                ps = [(v, v, h) for v in a[2]]        # both labels are the value of one call
            else:
                ps = [(x, y, h) for x in a[-1] for y in b[-1]]
            out += ps
        elif c.func.id in m.funcs and c.func.id != fn.name and _builds_results(m.funcs[c.func.id], m):
            h = m.funcs[c.func.id]
            params = _params(h)
            names = (params or [])[:len(c.args)] + [k.arg for k in c.keywords]
            if params is None or any(isinstance(x, ast.Starred) for x in c.args) or None in names or len(set(names)) != len(names) or not set(names) <= set(params):
                raise Fail(f'{where}: call of the result-building helper {c.func.id} with an unsupported argument list')
            hb = {n: (v, fn, binds) for n, v in zip(names, list(c.args) + [k.value for k in c.keywords])}
            out += _results_of(h, m, f'{where}/{c.func.id}', hb, stack + (fn.name,))
    return out


def combinator_results(repo, lang):
    """THE reading of the result vocabulary of depccg/grammar/<lang>.py, shared by every translator that needs it (gen_render for
    C18/C19, gen_c20 for C20): which (op_string, op_symbol, head_is_left) triples each rule function can put into a
    CombinatorResult.  Returns (binary, unary):
      binary = [(combinator name, [triples])] for the functions of the literal `combinators` table, in table order,
      unary  = [triples] of apply_unary_rules.
    Labels are literals, conditionals of literals, once-assigned locals of those, module-level string constants, the constants a
    literal-returning helper returns, and parameters of result-building helpers followed back to the call; anything else: Fail.
    head_is_left is True / False, or None when it is not a literal (a consumer that needs the head must treat None as failure)."""
    m = Module(repo, f'depccg/grammar/{lang}.py', f'depccg.grammar.{lang}')
    combs = m.assigns.get('combinators')
    if not isinstance(combs, ast.List) or not all(isinstance(e, ast.Name) and e.id in m.funcs for e in combs.elts):
        raise Fail(f'grammar/{lang}.py: `combinators` is not a literal list of module-level functions')
    ab = m.funcs.get('apply_binary_rules')
    if ab is None or not any(isinstance(x, ast.Name) and x.id == 'combinators' for x in ast.walk(ab)):
        raise Fail(f'grammar/{lang}.py: apply_binary_rules does not iterate `combinators`')
    if _builds_results(ab, m):
        raise Fail(f'grammar/{lang}.py: apply_binary_rules builds results itself')
    binary = []
    for e in combs.elts:
        ts = _results_of(m.funcs[e.id], m, f'grammar/{lang}.py:{e.id}')
        if not ts:
            raise Fail(f'grammar/{lang}.py:{e.id}: no CombinatorResult')
        binary.append((e.id, ts))
    au = m.funcs.get('apply_unary_rules')
    if au is None:
        raise Fail(f'grammar/{lang}.py: no apply_unary_rules')
    import patconst
    au = patconst.unlazy(au)      # `V = None` ... `if V is None: V = EXPR` at the top of the loop body reads as `V = EXPR` (see patconst.unlazy)
    unary = _results_of(au, m, f'grammar/{lang}.py:apply_unary_rules')
    if not unary:
        raise Fail(f'grammar/{lang}.py: apply_unary_rules builds no CombinatorResult')
    return binary, unary


def grammar_labels(repo, lang):
    """(binary, unary): the distinct (op_string, op_symbol) pairs, in order of first occurrence"""
    bres, ures = combinator_results(repo, lang)
    binary, unary = [], []
    for _, ts in bres:
        for a, b, _h in ts:
            if (a, b) not in binary:
                binary.append((a, b))
    for a, b, _h in ures:
        if (a, b) not in unary:
            unary.append((a, b))
    return binary, unary


# ------------------------------------------------------------------------------------------------------
def leaf_label(w):
    """(op_string, op_symbol) that Tree.make_terminal gives a leaf by default (the parser passes none)"""
    fn = w.tree_members.get('make_terminal')
    if fn is None:
        raise Fail('tree.py: no Tree.make_terminal')
    names = [a.arg for a in fn.args.args]
    d = dict(zip(names[::-1], fn.args.defaults[::-1]))
    if cstr(d.get('op_string')) is None or cstr(d.get('op_symbol')) is None:
        raise Fail('tree.py: Tree.make_terminal has no literal default op_string/op_symbol')
    return cstr(d['op_string']), cstr(d['op_symbol'])


def analyse(repo):
    """everything the generated file contains, as Python data (also used by the harness to enumerate the domain)"""
    w = World(repo)
    cli = cli_formats(repo)
    res = {'cli': cli, 'formats': {}, 'unmodelled': [], 'undispatched': [], 'labels': {}, 'externals': set(), 'leaf_label': leaf_label(w)}
    for lang in ('en', 'ja'):
        res['labels'][lang] = grammar_labels(repo, lang)
        for fmt in cli[lang]:
            a = Analysis(w, lang, fmt).run()
            if a.unmodelled:
                res['unmodelled'].append((lang, fmt, sorted(set(a.unmodelled))))
                continue
            if a.undispatched:
                res['undispatched'].append((lang, fmt, a.undispatched[0]))
                continue
            res['externals'] |= a.externals
            res['formats'][(lang, fmt)] = {
                'strict': list(a.strict.items()), 'defaults': list(a.defaults.items()),
                'mutations': list(a.mutations.items()), 'labels': list(a.labels.items()), 'functions': a.entered}
    return res


def ident(s):
    return ''.join(c if c.isalnum() else '_' for c in s)


def comment(text):
    """a Coq comment that cannot end early or open a string"""
    return '   (* ' + text.replace('"', "'").replace('(*', '( *').replace('*)', '* )') + ' *)'


def generate(repo):
    r = analyse(repo)
    T = 'list N'
    import re as _re
    _comment = globals()['comment']

    def comment(t):         # source positions are kept out of the generated text: moving code must not change the model
        return _comment(_re.sub(r':\d+\b', '', t))
    out = ['(* GENERATED by translate/gen_render.py from the repository source - do not edit *)',
           'From Coq Require Import List NArith.', 'Import ListNotations.', 'Open Scope N_scope.', '']
    pairs = lambda t: '[' + ';'.join(f'({lit(a)},{lit(b)})' for a, b in t) + ']'
    for lang in ('en', 'ja'):
        out.append(f'Definition cli_formats_{lang} : list ({T}) := {lits(r["cli"][lang])}.' + comment(f'argparse.py --format choices: {r["cli"][lang]!r}'))
    for lang in ('en', 'ja'):
        b, u = r['labels'][lang]
        out.append(f'Definition {lang}_binary_labels : list ({T} * {T}) := {pairs(b)}.' + comment(f'(op_string, op_symbol) of grammar/{lang}.py combinators: {b!r}'))
        out.append(f'Definition {lang}_unary_labels : list ({T} * {T}) := {pairs(u)}.' + comment(f'apply_unary_rules: {u!r}'))
    out.append(f'Definition leaf_label : {T} * {T} := ({lit(r["leaf_label"][0])},{lit(r["leaf_label"][1])}).' + comment(f'Tree.make_terminal defaults {r["leaf_label"]!r}'))
    out.append('')
    rows = []
    for (lang, fmt), d in r['formats'].items():
        nm = f'{lang}_{ident(fmt)}'
        out.append(comment(f'---- {lang} / {fmt}: analysed functions {", ".join(d["functions"])}').strip())
        out.append(f'Definition strict_keys_{nm} : list ({T}) := {lits([k for k, _ in d["strict"]])}.'
                   + (comment("; ".join(f"{k!r} at {wh}" for k, wh in d["strict"])) if d['strict'] else ''))
        dk = sorted(k for k, _ in d["defaults"])        # information only: a set
        out.append(f'Definition default_keys_{nm} : list ({T}) := {lits(dk)}.' + (comment(repr(dk)) if dk else ''))
        out.append(f'Definition mutations_{nm} : list ({T} * {T}) := {pairs([k for k, _ in d["mutations"]])}.'
                   + (comment("; ".join(f"{k[0]} {k[1]} at {wh}" for k, wh in d["mutations"])) if d['mutations'] else ''))
        lc = '[' + ';'.join(f'({lit(sc)},{lit(at)},{lits(list(keys))})' for (sc, at, keys), _ in d['labels']) + ']'
        out.append(f'Definition label_checks_{nm} : list ({T} * {T} * list ({T})) := {lc}.'
                   + (comment("; ".join(f"{sc} nodes: {wh}" for (sc, at, keys), wh in d["labels"])) if d['labels'] else ''))
        rows.append(f'  ({lit(lang)}, {lit(fmt)}, (strict_keys_{nm}, mutations_{nm}, label_checks_{nm}))')
    out.append('')
    out.append(f'(* (language, format, (strict token keys, mutations, label lookups)) for every format the CLI offers and this sandbox can run *)')
    out.append(f'Definition render_table : list ({T} * {T} * (list ({T}) * list ({T} * {T}) * list ({T} * {T} * list ({T})))) := [\n' + ';\n'.join(rows) + '].')
    out.append(comment('offered by the CLI but outside every model: the path enters depccg.semantics (needs nltk): '
               + '; '.join(f'{l}/{f} -> {", ".join(q)}' for l, f, q in r['unmodelled'])).strip())
    out.append(f'Definition unmodelled_formats : list ({T} * {T}) := {pairs([(l, f) for l, f, _ in r["unmodelled"]])}.')
    out.append(comment('offered by the CLI but not dispatched by to_string: ' + '; '.join(f'{l}/{f}: {why}' for l, f, why in r['undispatched'])).strip())
    out.append(f'Definition undispatched_formats : list ({T} * {T}) := {pairs([(l, f) for l, f, _ in r["undispatched"]])}.')
    out.append(comment(f'functions of modules that are not analysed and are assumed not to mutate their arguments: {", ".join(sorted(r["externals"]))}').strip())
    return '\n'.join(out) + '\n'


def write_if_changed(path, text):
    old = open(path).read() if os.path.exists(path) else None
    if old != text:
        with open(path, 'w') as f:
            f.write(text)
        return True
    return False


if __name__ == '__main__':
    repo, dst = sys.argv[1], sys.argv[2]
    try:
        text = generate(repo)
    except Fail as e:
        sys.exit(f'translator(gen_render): unsupported or missing construct: {e}')
    write_if_changed(os.path.join(dst, 'GenRender.v') if os.path.isdir(dst) else dst, text)
