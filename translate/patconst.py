"""Compile-time pattern arguments of Unification(...).

The two patterns of a matcher are accepted when they are constants of the module: string literals, Category.parse(<such a constant>) (Unification
parses a string itself and takes a parsed category as it is - the same pattern either way), module-level names bound exactly once to such values or
to tuples of them, *NAME of such a tuple, and calls of module-level single-return helpers whose body is built from the same forms.  Anything else is
not resolved (None) and the translators fail closed."""
import ast


def _stores(mod, name):
    n = 0
    for x in ast.walk(mod):
        if isinstance(x, ast.Name) and x.id == name and isinstance(x.ctx, (ast.Store, ast.Del)):
            n += 1
        elif isinstance(x, (ast.Global, ast.Nonlocal)) and name in x.names:
            n += 2
        elif isinstance(x, (ast.FunctionDef, ast.AsyncFunctionDef, ast.ClassDef)) and x.name == name:
            n += 1
        elif isinstance(x, ast.arg) and x.arg == name:
            n += 2          # shadowed somewhere: no single meaning
        elif isinstance(x, ast.alias) and (x.asname or x.name).split('.')[0] == name:
            n += 1
    return n


def _module_value(mod, name):
    if _stores(mod, name) != 1:
        return None
    for st in mod.body:
        if isinstance(st, ast.Assign) and len(st.targets) == 1 and isinstance(st.targets[0], ast.Name) and st.targets[0].id == name:
            return st.value
        if isinstance(st, ast.AnnAssign) and isinstance(st.target, ast.Name) and st.target.id == name and st.value is not None:
            return st.value
    return None


def _helper(mod, name):
    if _stores(mod, name) != 1:
        return None
    for st in mod.body:
        if isinstance(st, ast.FunctionDef) and st.name == name:
            a = st.args
            if st.decorator_list or a.vararg or a.kwarg or a.kwonlyargs or a.defaults or getattr(a, 'posonlyargs', []):
                return None
            body = [s for s in st.body if not (isinstance(s, ast.Expr) and isinstance(s.value, ast.Constant) and isinstance(s.value.value, str))]
            if len(body) == 1 and isinstance(body[0], ast.Return) and body[0].value is not None:
                return [p.arg for p in a.args], body[0].value
    return None


def _ev(n, mod, env, depth):
    """str (a pattern text), tuple of values, or None"""
    if depth > 8:
        return None
    if isinstance(n, ast.Constant) and isinstance(n.value, str):
        return n.value
    if isinstance(n, ast.Name) and isinstance(n.ctx, ast.Load):
        if n.id in env:
            return env[n.id]
        v = _module_value(mod, n.id)
        return None if v is None else _ev(v, mod, {}, depth + 1)
    if isinstance(n, ast.Tuple):
        out = []
        for e in n.elts:
            if isinstance(e, ast.Starred):
                v = _ev(e.value, mod, env, depth + 1)
                if not isinstance(v, tuple):
                    return None
                out.extend(v)
            else:
                v = _ev(e, mod, env, depth + 1)
                if v is None:
                    return None
                out.append(v)
        return tuple(out)
    if isinstance(n, ast.Call) and not n.keywords:
        f = n.func
        if (isinstance(f, ast.Attribute) and f.attr == 'parse' and isinstance(f.value, ast.Name) and f.value.id == 'Category' and 'Category' not in env
                and len(n.args) == 1 and not isinstance(n.args[0], ast.Starred)):
            v = _ev(n.args[0], mod, env, depth + 1)
            return v if isinstance(v, str) else None
        if isinstance(f, ast.Name) and f.id not in env:
            h = _helper(mod, f.id)
            if h is None or any(isinstance(a, ast.Starred) for a in n.args) or len(h[0]) != len(n.args):
                return None
            vals = [_ev(a, mod, env, depth + 1) for a in n.args]
            if any(v is None for v in vals):
                return None
            return _ev(h[1], mod, dict(zip(h[0], vals)), depth + 1)
    return None


def unification_patterns(call, mod, local_names=()):
    """(px, py) of the call Unification(...), or None.  local_names: names bound in the enclosing function (they hide module-level ones)"""
    if call.keywords:
        return None
    env = {nm: None for nm in local_names}
    for x in ast.walk(call):
        if isinstance(x, ast.Name) and x.id in env:
            return None
    v = _ev(ast.Tuple(elts=list(call.args), ctx=ast.Load()), mod, {}, 0)
    if isinstance(v, tuple) and len(v) == 2 and all(isinstance(s, str) for s in v):
        return v
    return None


def is_none(n):
    return isinstance(n, ast.Constant) and n.value is None


def is_doc(st):
    return isinstance(st, ast.Expr) and isinstance(st.value, ast.Constant) and isinstance(st.value.value, str)


def unlazy(fn):
    """`V = None` before a loop and `if V is None: V = EXPR` at the top of the loop body, where EXPR reads nothing the loop binds and V is
    bound nowhere else and read only below that test inside the loop: every iteration sees the value of EXPR (the translated expression
    language is pure and deterministic, and a None value of EXPR is simply computed again) - rewritten to `V = EXPR` at that place"""
    import copy
    fn = copy.deepcopy(fn)

    def stores(node, name):
        return sum(1 for m in ast.walk(node) if isinstance(m, ast.Name) and m.id == name and isinstance(m.ctx, (ast.Store, ast.Del)))
    for i, st in enumerate(list(fn.body)):
        if not (isinstance(st, ast.Assign) and len(st.targets) == 1 and isinstance(st.targets[0], ast.Name) and is_none(st.value)):
            continue
        v = st.targets[0].id
        loops = [s for s in fn.body if isinstance(s, ast.For) and stores(s, v)]
        if len(loops) != 1 or stores(fn, v) != 2 or fn.body.index(loops[0]) < i or v in [a.arg for a in fn.args.args]:
            continue
        lp = loops[0]
        # the lazy assignments sit at the top of the loop body (several such variables may follow each other)
        j = 0
        found = None
        while j < len(lp.body):
            s = lp.body[j]
            lazy = (isinstance(s, ast.If) and not s.orelse and len(s.body) == 1 and isinstance(s.body[0], ast.Assign) and len(s.body[0].targets) == 1
                    and isinstance(s.body[0].targets[0], ast.Name) and isinstance(s.test, ast.Compare) and len(s.test.ops) == 1 and isinstance(s.test.ops[0], ast.Is)
                    and isinstance(s.test.left, ast.Name) and is_none(s.test.comparators[0]) and s.test.left.id == s.body[0].targets[0].id)
            if not (lazy or is_doc(s)):
                break
            if lazy and s.test.left.id == v:
                found = j
            j += 1
        if found is None:
            continue
        expr = lp.body[found].body[0].value
        bound_in_loop = {m.id for s in lp.body for m in ast.walk(s) if isinstance(m, ast.Name) and isinstance(m.ctx, (ast.Store, ast.Del))}
        bound_in_loop |= {m.id for m in ast.walk(lp.target) if isinstance(m, ast.Name)}
        if any(isinstance(m, ast.Name) and m.id in bound_in_loop for m in ast.walk(expr)):
            continue
        if any(isinstance(m, (ast.NamedExpr, ast.Lambda, ast.Await, ast.Yield, ast.YieldFrom)) for m in ast.walk(expr)):
            continue
        # every read of V is inside the loop, below the lazy assignment
        reads_outside = [m for s in fn.body if s is not lp for m in ast.walk(s) if isinstance(m, ast.Name) and m.id == v and isinstance(m.ctx, ast.Load)]
        reads_above = [m for s in lp.body[:found] for m in ast.walk(s) if isinstance(m, ast.Name) and m.id == v and isinstance(m.ctx, ast.Load)]
        reads_iter = [m for m in ast.walk(lp.iter) if isinstance(m, ast.Name) and m.id == v]
        if reads_outside or reads_above or reads_iter or lp.orelse:
            continue
        lp.body[found] = ast.copy_location(ast.Assign(targets=[ast.Name(id=v, ctx=ast.Store())], value=expr), lp.body[found])
        fn.body.remove(st)
        ast.fix_missing_locations(fn)
    return fn

