"""Serialisers from Python values to Gallina terms (shared by the translator and the harness)."""
import re

CAT_SPLIT = re.compile(r'([\[\]\(\)/\\|<>])')


def lit(s):
    """a text (list N of code points)"""
    return '[' + ';'.join(str(ord(c)) for c in s) + ']'


def lits(ss):
    return '[' + ';'.join(lit(s) for s in ss) + ']'


def toks(s, split=CAT_SPLIT):
    """token list of a category text, as cat.py's reader splits it"""
    out = split.sub(r' \1 ', s).split(' ')
    return '[' + ';'.join(lit(t) for t in out if t) + ']'


def gbool(b):
    return 'true' if b else 'false'


def gfeat(f):
    from depccg.cat import UnaryFeature
    if isinstance(f, UnaryFeature):
        return 'FNone' if f.value is None else f'(FUn {lit(f.value)})'
    return '(FTer ' + ' '.join(lit(x) for kv in f.items() for x in kv) + ')'


def gcat(c):
    from depccg.cat import Atom
    if isinstance(c, Atom):
        return f'(Atom {lit(c.base)} {gfeat(c.feature)})'
    return f'(Fun {gcat(c.left)} {lit(c.slash)} {gcat(c.right)})'


def gopt(x, f):
    return 'None' if x is None else f'(Some {f(x)})'


def glist(xs, f=lambda x: x, sep=';'):
    return '[' + sep.join(f(x) for x in xs) + ']'


def gnat(n):
    return f'{int(n)}%nat'


def gZ(n):
    n = int(n)
    return f'({n})%Z' if n < 0 else f'{n}%Z'


def gtoken(tok):
    return '[' + ';'.join(f'({lit(k)},{lit(v)})' for k, v in tok.items()) + ']'


def gtree(t):
    if t.is_leaf:
        return f'(Leaf {gcat(t.cat)} {gtoken(t.token)} {lit(t.op_string)} {lit(t.op_symbol)})'
    if t.is_unary:
        return f'(Un {gcat(t.cat)} {lit(t.op_string)} {lit(t.op_symbol)} {gtree(t.child)})'
    return f'(Bin {gcat(t.cat)} {lit(t.op_string)} {lit(t.op_symbol)} {gbool(t.head_is_left)} {gtree(t.left_child)} {gtree(t.right_child)})'
