#!/bin/bash
# tools/seed_eval.sh <PROPERTY-ID> <seed-out-dir> <name> [extra check ids...]
# 1. confirms the seeded change: applies to a clean scratch worktree, existing suite unchanged, demo fails with / passes without
# 2. runs our check(s) against it (scratch copies; /repo and /verif untouched)
# 3. stores it as /verif/seeded/<name>/ (patch.diff, demonstration, meta.json)
set -u
PID=$1; SRC=$2; NAME=$3; shift 3
D=$(mktemp -d /tmp/sev.XXXXXX)
trap 'git -C /repo worktree remove --force "$D/repo" >/dev/null 2>&1; rm -rf "$D"' EXIT
git -C /repo worktree add -q --detach "$D/repo" HEAD || exit 2
( cd "$D/repo" && bash "$SRC/run_demo.sh" "$D/repo" >/dev/null 2>&1 ); CLEAN=$?
git -C "$D/repo" apply "$SRC/patch.diff" || { echo "PATCH DOES NOT APPLY"; exit 2; }
SUITE=$(cd "$D/repo" && /venv/bin/python -m pytest -q -p no:cacheprovider --continue-on-collection-errors 2>&1 | tail -1)
( cd "$D/repo" && bash "$SRC/run_demo.sh" "$D/repo" >/dev/null 2>&1 ); MUT=$?
echo "confirm: demo clean exit=$CLEAN, with patch exit=$MUT, suite: $SUITE"
OURS=$(cd /verif && tools/mutant_run.sh "$SRC/patch.diff" $PID "$@" 2>&1 | grep -E "^(VIOLATION|OK|KNOWN|\[)" )
echo "$OURS"
mkdir -p /verif/seeded/$NAME
cp -r "$SRC"/* /verif/seeded/$NAME/
python3 - "$PID" "$NAME" "$CLEAN" "$MUT" "$SUITE" "$OURS" <<'PY'
import json, sys, os
pid, name, clean, mut, suite, ours = sys.argv[1:7]
p = f'/verif/seeded/{name}/meta.json'
m = json.load(open(p)) if os.path.exists(p) else {}
m.update({'breaks_property': pid, 'confirmed': {'demo_exit_clean': int(clean), 'demo_exit_with_patch': int(mut), 'existing_suite_with_patch': suite,
          'ran': f'tools/seed_eval.sh {pid} <dir> {name}: git apply patch.diff in a scratch worktree; pytest; run_demo.sh with and without the patch; ./check via tools/mutant_run.sh'},
          'our_checks': ours.splitlines()})
json.dump(m, open(p, 'w'), indent=1)
PY
