#!/bin/bash
# tools/seed_matrix.sh <VERIF_SEED> <out.json> [name-regex]
# Runs, for every stored seeded change, the check of the property it breaks (quick tier) with the given VERIF_SEED against a scratch copy
# with the patch applied; records the verdicts (nothing under seeded/ is modified).  4 seeds in parallel.
set -u
SEED=$1; OUT=$2; RE=${3:-.}
TMP=$(mktemp -d /tmp/smx.XXXXXX)
ls /verif/seeded | grep -E "$RE" | xargs -P 4 -I{} bash -c '
  n={}; id=$(python3 -c "import json;print(json.load(open(\"/verif/seeded/$n/meta.json\"))[\"breaks_property\"])")
  r=$(cd /verif && VERIF_SEED='"$SEED"' tools/mutant_run.sh /verif/seeded/$n/patch.diff $id 2>&1 | grep -E "^(VIOLATION|OK)" | head -1 | cut -c1-120)
  echo "$n $id $r" > '"$TMP"'/$n.txt'
python3 - "$TMP" "$OUT" "$SEED" <<'PY'
import sys, os, json
tmp, out, seed = sys.argv[1:4]
res = {}
for f in sorted(os.listdir(tmp)):
    n, pid, *rest = open(os.path.join(tmp, f)).read().strip().split(' ', 2)
    line = rest[0] if rest else ''
    res[n] = {'property': pid, 'verdict': 'VIOLATION' if line.startswith('VIOLATION') else ('OK' if line.startswith('OK') else 'NO-RESULT'),
              'no_failing_input': 'no-failing-input-found' in line}
json.dump({'verif_seed': int(seed), 'results': res}, open(out, 'w'), indent=1)
v = sum(1 for r in res.values() if r['verdict'] == 'VIOLATION')
print(f'seed {seed}: {v}/{len(res)} detected; not detected: {[n for n, r in res.items() if r["verdict"] != "VIOLATION"]}')
PY
rm -rf "$TMP"
