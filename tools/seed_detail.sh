#!/bin/bash
# tools/seed_detail.sh <seed-name> <ID>: run check ID (quick) against seeded/<name> on scratch copies, show broken obligations / failures, keep the replay as /tmp/seed_detail_<name>.replay.json
name=$1; id=$2
D=$(mktemp -d /tmp/mut.XXXXXX)
trap 'git -C /repo worktree remove --force "$D/repo" >/dev/null 2>&1; rm -rf "$D"' EXIT
git -C /repo worktree add -q --detach "$D/repo" HEAD || exit 2
git -C "$D/repo" apply /verif/seeded/$name/patch.diff || exit 2
rsync -a --exclude work --exclude .git /verif/ "$D/verif/"; mkdir -p "$D/verif/work"
( cd "$D/verif" && DEPCCG_REPO="$D/repo" VERIF_SEED=${VERIF_SEED:-0} ./check "$id" --tier quick 2>&1 | grep -E "^(VIOLATION|OK|KNOWN|  broken|  failure)" | cut -c1-600 | head -12 )
cp "$D/verif/work/$id/replay.json" /tmp/seed_detail_$name.replay.json 2>/dev/null
