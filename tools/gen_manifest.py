#!/usr/bin/env python3
"""Regenerates /verif/MANIFEST.json from the table below (kept here so that texts and the claimed set stay in one place)."""
import json, os

HERE = os.path.dirname(os.path.dirname(os.path.abspath(__file__)))
ASTAR_NOTE = ('Trusted: Coq kernel + vm_compute; the implementation-level model AStarImpl.v is hand-written and tied to parsing.h by trace validation '
              '(every pop with its in/out scores, span, head, rule index, the status and the goal cell of each run are replayed and accepted inside coqc); '
              'driver.cpp/ctypes bridge; exact arithmetic on a dyadic score grid (float32 rounding of arbitrary reals not modelled); '
              'heap tie-breaking abstracted (theorems hold for every maximal pop).')
GLUE_NOTE = (' Glue: decy.py (fail-closed de-cythonizer of parsing.pyx) + its ctypes runtime run the real parsing.pyx/parsing.py; Glue.v tree_of is tied to '
             'retrieve_tree by exact comparison of every returned Tree.')

CHECKS = {
 'C01': ('A* optimality proved in Coq (Knuth lightest-derivation argument: priority = K - loss with additive non-negative losses; frontier invariant; refinement from an '
         'implementation-level model with stored scores to the abstract search): the first parse of every run the model accepts has maximum model score among all licensed '
         'complete derivations, failure only if none exists (or the step budget ran out), pop priorities never increase - for every sentence length, score matrix, head-uniform '
         'grammar, root set, penalty >= 0, beam. The real search is tied to the model by replaying its pop trace inside coqc; an exhaustive-enumeration oracle searches for counterexamples.',
         ASTAR_NOTE, 'Coq proof (invariants + refinement) + trace validation against parsing.h + exhaustive-enumeration oracle', 'DESIGN.md §4 C01'),
 'C02': ('Invariant proved in Coq: every item of the goal cell of every accepted run (1-best and n-best) is a complete licensed derivation (leaves = the tokens in order with beam-admitted '
         'tags, every node the k-th grammar result for its children, allowed root, no unary step at the full span); retrieve_tree consumes tokens left to right. Tied by trace validation and '
         'by exact comparison of returned Trees with the model; Tree-level oracle on the real depccg.parsing.run (real en/ja grammars, seen-rule filter, synthetic grammars).',
         ASTAR_NOTE + GLUE_NOTE, 'Coq invariant proof + trace validation + Tree-level re-derivation oracle', 'DESIGN.md §4 C02'),
 'C05': ('Machine-checked Coq theorems (P_C05.v) over a hand-written model of cat.py: parse(show c)=c for every well-formed value, every well-formed text with arbitrary redundant '
         'round/angle brackets and blanks reads as its value, two unbracketed slashes at a level are rejected, show is injective; the punctuation list and the split class come from the '
         'translator on every run and the model is tied to Category.parse/str by differential execution inside coqc.',
         'Trusted: Coq kernel+vm_compute, model Cat.v (validated by correspondence, not derived), gen_tables.py, wf domain as stated in the theorems.',
         'Coq proof by induction on categories / token texts + correspondence cases + round-trip oracle', 'DESIGN.md §4 C05'),
 'C06': ('Machine-checked specification of Unification over the hand-written model Unify.v: success iff shape + all bindings of a variable feature-blind equal (the latest-binding check is closed by '
         'transitivity of ^) + position-wise feature compatibility, exact error/False conditions (ordered tests), bindings = bound sub-category with only variable features replaced by features of '
         'the inputs, KeyError for unknown names, no read after failure / before the call, one answer per matcher. Model tied to the real class by 2000+ differential cases per run '
         '(grammar pattern pairs, random patterns with repeated variables, both and mixed feature systems) and an independent Python restatement; hash-seed reruns.',
         'Trusted: Coq kernel+vm_compute; model Unify.v (pattern-variable keys (v, index) instead of f-strings: sound for single-letter variables, enforced by the translator); gen_unif.py.',
         'Coq proof by induction on patterns/dictionaries + differential cases + independent oracle', 'DESIGN.md §4 C06'),
 'C14': ('Theorems over the GENERATED grammars (GenEn.v/GenJa.v, re-translated from en.py/ja.py on every run): binary and unary rule application never raises on well-formed categories of one '
         'feature system, seen-rule filter = unrestricted result or nothing (key with X/nb erased for English, raw pair for Japanese), English results independent of nb, unary rules = the configured '
         'targets in order. In Gallina the rule functions are functions (no hidden state); reproducibility across processes and PYTHONHASHSEED values, argument immutability and repeatability '
         'are decided by differential execution (fresh interpreters under 4/16 hash seeds).',
         'Trusted: translator gen_grammar.py (tied by BinEn/BinJa/UnEn/UnJa cases), Unify.v, Coq kernel.', 'Coq proof over translated grammar + differential cases + multi-process hash-seed oracle', 'DESIGN.md §4 C14'),
 'C09': ('Proved in Coq through the refinement: the score stored in every goal item equals the recursive model score of its derivation (leaf tags + dependency of each non-head child to its '
         'head as the head flags determine + root attachment - penalty per unary node); chart items store inside score/head/span of their derivation. Tree-level oracle recomputes the score '
         'of every returned ScoredTree from its head flags on the real depccg.parsing.run.', ASTAR_NOTE + GLUE_NOTE,
         'Coq refinement proof (stored fields = functions of the derivation) + trace validation + score-recomputation oracle', 'DESIGN.md §4 C09'),
 'C10': ('Proved in Coq for n-best mode (no head-uniformity needed): goal items are popped best first (sorted), each is a complete licensed derivation with its model score, and every complete '
         'derivation not returned scores no more than every returned one (top-k), the returned derivations are pairwise different (each derivation is created at most once), at most k are '
         'returned and fewer than k only when the agenda is empty and every derivation was returned. The exhaustive-enumeration oracle (multiset of scores, duplicates, count) searches for counterexamples.', ASTAR_NOTE,
         'Coq proof (n-best frontier invariant, sortedness) + trace validation + exhaustive-enumeration oracle', 'DESIGN.md §4 C10'),
 'C12': ('Parser side: theorem that the tree built for a derivation labels each unary/binary node with op_string/op_symbol/head of exactly the rule_id-th cached result (Glue.v tied to '
         'retrieve_tree by exact tree comparison; A* invariants give the index validity). Reader side: guess_combinator_by_triplet is translated from the source on every run and proved to '
         'return the first deriving rule, unk only for underivable nodes; files printed from trees are re-read in auto/xml/ptb/jigg_xml and labels compared.',
         GLUE_NOTE + ' Translator gen_grammar.py for guess.', 'Coq proof over glue model + generated guess, exact-tree correspondence, multi-label synthetic grammars', 'DESIGN.md §4 C12'),
 'C16': ('Proved in Coq: the per-token candidate list is a prefix of the (score,id)-sorted tags of length <= pruning_size in which every tag passes the beta test against the best tag and which '
         'stops early only at the first failing tag; leaves of all returned derivations lie in it; excluded tags are not licensed. Threshold in the log domain (s - best > ln beta) with beta '
         'chosen so no decision is within 1/16 of the threshold. Tied by trace validation; oracle compares status/leaves with exhaustive enumeration over the admitted tags.', ASTAR_NOTE,
         'Coq proof (beam spec + licensed leaves) + trace validation + enumeration oracle', 'DESIGN.md §4 C16'),
}

PENDING_REASON = 'check under construction in this build round (not yet claimed)'


def main():
    m = {'version': 1, 'setup_cmd': './setup.sh',
         'hooks': {'guard': 'DEPCCG_VERIF',
                   'enable': 'checks export DEPCCG_VERIF=1 and compile harness/driver.cpp against /repo/depccg/parsing.h; the hook is a function pointer in parsing.h that stays null unless the driver installs it and the variable is set',
                   'baseline_off_cmd': 'cd /repo && env -u DEPCCG_VERIF /venv/bin/python -m pytest -ra -q -p no:cacheprovider --timeout=900 --continue-on-collection-errors',
                   'source_commits': ['e98ad2e'], 'add_only': True},
         'engines': [{'name': 'coq', 'path': 'coq/', 'serves_properties': sorted(CHECKS),
                      'kind_free_text': 'Coq 8.16.1 development: hand-written models, generated (translated) files, one theorem file P_Cxx.v per property'},
                     {'name': 'harness', 'path': 'harness/', 'serves_properties': sorted(CHECKS),
                      'kind_free_text': 'correspondence (cases evaluated by vm_compute inside coqc against the real implementation), C++ driver + de-cythonizer to run parsing.h/parsing.pyx, independent property oracles'},
                     {'name': 'translate', 'path': 'translate/', 'serves_properties': sorted(CHECKS),
                      'kind_free_text': 'fail-closed Python-ast translators source -> Gallina, re-run on every check'}],
         'checks': [], 'not_applicable': [], 'notes': 'see DESIGN.md; ./check <ID> --tier quick|thorough; known findings in known_findings.json'}
    for pid in sorted(CHECKS):
        text, note, tech, ref = CHECKS[pid]
        m['checks'].append({'property_id': pid, 'quick_cmd': f'./check {pid} --tier quick', 'thorough_cmd': f'./check {pid} --tier thorough',
                            'evidence_file': f'evidence/{pid}.json', 'replay_cmd_template': f'./check {pid} --replay {{path}}', 'engine': 'coq',
                            'level_claimed': {'category': 'proof', 'text': text, 'design_ref': ref}, 'level_note': note, 'technique': tech})
    for l in open(os.path.join(HERE, 'properties.jsonl')):
        p = json.loads(l)
        if p['id'] not in CHECKS:
            m['not_applicable'].append({'property_id': p['id'], 'reason': PENDING_REASON})
    json.dump(m, open(os.path.join(HERE, 'MANIFEST.json'), 'w'), indent=1)
    print('claimed:', sorted(CHECKS))


if __name__ == '__main__':
    main()
