#!/usr/bin/env python3
"""Regenerates /verif/MANIFEST.json from the table below (kept here so that texts and the claimed set stay in one place)."""
import json, os

HERE = os.path.dirname(os.path.dirname(os.path.abspath(__file__)))
ASTAR_NOTE = ('Trusted: Coq kernel + vm_compute; the implementation-level model AStarImpl.v is hand-written and tied to parsing.h by trace validation '
              '(every pop with its in/out scores, span, head, rule index, the status and the goal cell of each run are replayed and accepted inside coqc); '
              'driver.cpp/ctypes bridge; exact arithmetic on a dyadic score grid (for arbitrary float32 reals only the epsilon-optimality of C01 is proved, with the slack measured per run); '
              'theorems hold for every maximal pop; the library heap and push order are modelled separately (Heap.v/DSearch.v, tied in C11).')
GLUE_NOTE = (' Glue: decy.py (fail-closed de-cythonizer of parsing.pyx) + its ctypes runtime run the real parsing.pyx/parsing.py; Glue.v tree_of is tied to '
             'retrieve_tree by exact comparison of every returned Tree.')

CHECKS = {
 'C01': ('A* optimality proved in Coq (Knuth lightest-derivation argument: priority = K - loss with additive non-negative losses; frontier invariant; refinement from an '
         'implementation-level model with stored scores to the abstract search): the first parse of every run the model accepts has maximum model score among all licensed '
         'complete derivations, failure only if none exists (or the step budget ran out), pop priorities never increase - for every sentence length, score matrix, head-uniform '
         'grammar, root set, penalty >= 0, beam. The real search is tied to the model by replaying its pop trace inside coqc; an exhaustive-enumeration oracle searches for counterexamples. '
         'Also proved: the same for the DETERMINISTIC twin of parse_sentence (literal libstdc++ heap + push order; P_DSearch.v, tied to the real traces in the C11 check), and for real-valued float32 '
         'scores EPSILON-optimality under a pop rule with slack delta (rounded comparisons): first parse >= every derivation d minus delta*(nodes(d)+1), tight; delta is measured per run in exact '
         'rational arithmetic, the run is replayed in the slack model inside coqc and the bound is checked against exhaustive enumeration (P_C01_approx.v, 17 theorems).',
         ASTAR_NOTE, 'Coq proof (invariants + refinement) + trace validation against parsing.h + exhaustive-enumeration oracle', 'DESIGN.md §4 C01'),
 'C02': ('Invariant proved in Coq: every item of the goal cell of every accepted run (1-best and n-best) is a complete licensed derivation (leaves = the tokens in order with beam-admitted '
         'tags, every node the k-th grammar result for its children, allowed root, no unary step at the full span); retrieve_tree consumes tokens left to right. Tied by trace validation and '
         'by exact comparison of returned Trees with the model; Tree-level oracle on the real depccg.parsing.run (real en/ja grammars, seen-rule filter, synthetic grammars).',
         ASTAR_NOTE + GLUE_NOTE, 'Coq invariant proof + trace validation + Tree-level re-derivation oracle', 'DESIGN.md §4 C02'),
 'C03': ('Soundness and completeness of the English combinators proved in Coq over the GENERATED grammar (GenEn.v, translated from grammar/en.py on every run): every result of apply_binary_rules on '
         'well-formed categories of the English feature system is justified by the declarative schema its label names (EnSpec.Justified_en, written from the property text), head always left, bx/gbx '
         'never over a bare N/NP argument, a modifier functor returns the other category, features come from the inputs; conversely each schema with identical matched parts yields its result. '
         'Translation tied to the real functions by differential cases (inventory firing pairs, small categories, schema instances, rule closure) and an independent Python schema oracle.',
         'Trusted: translator gen_grammar.py, Unify.v model (C06), Coq kernel. Reading of the N/NP restriction: the restriction tests the matched argument as the rule sees it (after feature matching); recorded in DESIGN.md.',
         'Coq proof over translated grammar (on top of the C06 unification lemmas) + differential cases + schema oracle', 'DESIGN.md §4 C03'),
 'C04': ('As C03 for the Japanese grammar (GenJa.v from grammar/ja.py): all 11 symbols sound and complete w.r.t. JaSpec.Justified_ja (crossed slash kept, outer arguments re-wrapped with the primary input\'s '
         'slashes, whole-triple instantiation from the inputs only, head always right, SSEQ between root categories), unary labels ADNext/ADNint/ADV0/ADV1/ADV2/OTHER follow the shape, each label '
         'reached on a concrete category. Differential cases incl. non-modifier instances of the deep patterns, independent oracle.',
         'Trusted: translators gen_grammar.py, gen_jaroots.py; Unify.v; Coq kernel. Domain: categories whose atoms carry feature triples.',
         'Coq proof over translated grammar + differential cases + schema oracle', 'DESIGN.md §4 C04'),
 'C07': ('Coq models with independent decoders and round-trip theorems for conll (dependency column: one root, non-head child attaches to head child, heads inside the parent span), json, auto_extended '
         '(field and text level), deriv (interval-stack reader, structural and raw-text level), prolog for English and Japanese (lexer + term reader of the ccg(k, ...) clauses and of the whole document incl. its '
         'header, functor tables and header text generated from the source), html (MathML element tree and its printed text, regex scanner of the category text, html.escape, and the WHOLE document: page frame, '
         'ID / Log prob lines, one record per tree - templates and f-string literals generated from html.py on every run), batch numbering; the read-back theorems of auto/ptb/ja/xml/jigg_xml are C08/C20/C15. '
         '47 theorems incl. one refuted statement with witness (a newline inside a feature is not printed with brackets by html). Oracle: Python decoders for all eleven formats cross-compared with the encoded tree.',
         'Trusted: Fmt*.v models (exact-string correspondence with the real encoders, whole documents included), translate/gen_fmt.py (templates, header, and the table of str.lower taken from the running interpreter), '
         'fmt_dec.py decoders, lxml/json/html.parser, float formatting. PARTIAL: control flow of to_mathml / to_prolog_* is a hand-written model tied by exact-string correspondence; str.format is modelled for '
         '{digits} fields only (the translator refuses other templates); str.lower is exact except for the context-dependent U+03A3 (such names are skipped and counted).',
         'Coq codec proofs + exact-output correspondence + eleven independent decoders', 'DESIGN.md §4 C07'),
 'C08': ('Character-level Coq model of auto_of, denormalize, conll fragments and the cursor reader _AutoLineReader (fuel = line length): read_auto(print_auto t) = canon t for every well-formed tree, '
         'reprint identity, CoNLL fragments concatenate to the AUTO line, _fix inert on printed categories (tables generated from the source). Exact correspondence with the real printer/reader through '
         'temp files incl. a malformed stream; independent round-trip oracle.',
         'Trusted: Auto.v model, gen_auto.py/gen_tables.py, Category.parse model of C05, file/line splitting of Python.', 'Coq proof (cursor reader, induction on trees) + exact correspondence + oracle', 'DESIGN.md §4 C08'),
 'C11': ('55 theorems: chunks concatenate back to the batch and results read in task order equal map parse batch; the wrapper parsing.run rejects ill-shaped input before the parser is applied and returns the same '
         'list for every max_chunk_size and processes >= 1; the memo layer (category table + rule cache) as a state machine keeps every cached entry equal to what the pure grammar returns now, ids are '
         'never reassigned; the search reading the memo incrementally IS the category-level search from every admissible history (both directions), so the outcome of a sentence - status, categories, '
         'rule indices, head flags, scores - is the same after any history, and a batch equals parsing each sentence alone (unconditional, iff); under a category-blind pop policy the batch is a '
         'function of the batch; failures are local; the CONCRETE policy is modelled (Heap.v: libstdc++ sift-up/sift-down, differential against the real library; DSearch.v: deterministic twin predicting the real pop '
         'trace, ties included) and proved category-blind (C11_d_search_is_category_blind). PARTIAL: the blind twin is proved for fixed rule functions, not threaded through the incremental memo; fork/pickling/completion order of '
         'multiprocessing are specified and exercised (real Pool), not proved. Oracle: real depccg.parsing.run with forking Pool, permutations/rotations/subsets/warming, failing sentences '
         '(length, step budget shared across a call, dead tags), malformed shapes with zero rule calls.',
         'Trusted: Glue.v/GlueMemo*.v/AStarEquiv*.v models (memo replay of logged callbacks, chunks exact, wrapper correspondence against the real run() with a probe parser), decy + driver to run the real code '
         '(the driver copies the config struct back after every sentence, as parsing.pyx shares one struct per call).', 'Coq refinement (memo search = category search) + state-machine invariants + differential batch oracle', 'DESIGN.md §4 C11'),
 'C13': ('Coq theorems over Cat.v: == is structural equality, equal values hash equally for every string/tuple hash and hashed containers find exactly the == keys, string comparison holds exactly for '
         'the canonical text (unique by show-injectivity), ^ is an equivalence = equal skeletons, strictly coarser than ==, clear_features erases exactly the named features everywhere, idempotent, '
         'no-op when nothing matches. 700k differential pair/text/clear cases per run and an independent oracle incl. real set/dict lookups.',
         'Trusted: Cat.v/CatValue.v models (abstract hash: the dataclass hash is hash(tuple(fields))), Coq kernel.', 'Coq proof + exhaustive small-value differential cases + oracle', 'DESIGN.md §4 C13'),
 'C15': ('Infoset-level Coq model of xml_of, to_jigg_xml, read_xml, read_jigg_xml, build_ccg_tree, normalize_token(s) with theorems: C&C XML reads back to the same tree, labels and five token attributes; '
         'Jigg XML of Japanese derivations reads back to the same categories/shape/words; Jigg sentences are self-contained (distinct ids across n-best, references resolve, offsets tile, one root); '
         'build_ccg_tree is an isomorphism with the written rule labels; normalize_token output is clean. Known finding K01 (tokens already starting with _ pass through) is reported as KNOWN-FINDING.',
         'Trusted: Xml.v model (exact infoset correspondence), lxml serialisation/parsing, stubs to import ccg2lambda_tools.', 'Coq proof over infoset model + exact correspondence through real files + oracle', 'DESIGN.md §4 C15'),
 'C17': ('Coq theorems over Filter.v: every entry after apply_category_filters is the original value if the word is not a key or the category is listed, else the large negative value; row counts, token '
         'order and dependency scores untouched; errors (shape/form/KeyError) leave the arrays unchanged and the shape check comes first. Shipped data (regenerated each run): all 3863 category strings '
         'parse to well-formed values and re-read, the 418 dictionary categories are in targets.en, inventories duplicate-free (vm_compute over the generated lists).',
         'Trusted: Filter.v model (exact correspondence incl. array state after the call), gen_data.py, jsonnet subset reader.', 'Coq proof + computed facts over generated data + differential cases + oracle', 'DESIGN.md §4 C17'),
 'C18': ('Rendering modelled as a state transformer on the result store whose per-format effect is DERIVED from the source on every run: gen_render.py (flow-sensitive abstract interpretation with alias '
         'analysis of every function printer.to_string reaches for each CLI format) emits the mutating operations each printer performs on objects reachable from its arguments; theorems: every offered '
         'format leaves the store unchanged, hence any sequence of renderings gives step by step what rendering the original gives. Tie: deep snapshots of every Tree/Token/Category before and after '
         'each real rendering must agree with the model; oracle: random format sequences on the same objects vs. fresh deep copies.',
         'Trusted: translator gen_render.py (its alias analysis; external callees assumed non-mutating are listed in GenRender.v), Render.v, snapshot function (self-tested).',
         'Coq proof over generated mutation lists + snapshot correspondence + sequence oracle', 'DESIGN.md §4 C18'),
 'C19': ('Theorems over generated tables (strict token keys per printer, label vocabularies of both grammars, prolog functor tables, CLI format lists): every label the English/Japanese grammar can put on '
         'a node is a key of the table the prolog printer indexes, every tree whose tokens have `word` and whose labels are in the grammar vocabulary - and the failure placeholder - renders Ok in every '
         'offered offline format, a batch renders iff each sentence does. Tie: model outcome Ok/KeyErr/LabelErr vs what to_string does on batches with every vocabulary label, placeholders and a '
         'malformed stream. The two nltk-bound ccg2lambda formats cannot run here: listed as unmodelled, not claimed.',
         'Trusted: gen_render.py, Render.v, traceback-based split of real KeyErrors into key/label errors.', 'Coq proof over generated tables (finite, vm_compute lifted) + outcome correspondence + batch oracle', 'DESIGN.md §4 C19'),
 'C20': ('Coq models of ptb_of/_parse_ptb and ja_of/_JaCCGLineReader with theorems: PTB and bank lines read back to the same categories, shape, words (and rule symbols), every proper prefix of a PTB '
         'line and every unbalanced line is rejected, annotated bank texts ({..} blocks, _suffix) read the same. Domain boundaries are proved as _refuted witnesses (escape collision on words containing '
         '-LRB-/-RRB- spellings, the bank word -RCB-, the symbol OTHER) and excluded from the oracle. Exact correspondence through temp files incl. malformed streams.',
         'Trusted: Ptb.v/JaBank.v models, gen_c20.py, Category.parse model of C05.', 'Coq proof (stack machine / cursor reader) + exact correspondence + truncation oracle', 'DESIGN.md §4 C20'),
 'C05': ('Machine-checked Coq theorems (P_C05.v) over a hand-written model of cat.py: parse(show c)=c for every well-formed value, every well-formed text with arbitrary redundant '
         'round/angle brackets and blanks reads as its value, two unbracketed slashes at a level are rejected, show is injective; the punctuation list and the split class come from the '
         'translator on every run and the model is tied to Category.parse/str by differential execution inside coqc.',
         'Trusted: Coq kernel+vm_compute, model Cat.v (validated by correspondence, not derived), gen_tables.py, wf domain as stated in the theorems.',
         'Coq proof by induction on categories / token texts + correspondence cases + round-trip oracle', 'DESIGN.md §4 C05'),
 'C06': ('Machine-checked specification of Unification over the hand-written model Unify.v: success iff shape + all bindings of a variable feature-blind equal (the latest-binding check is closed by '
         'transitivity of ^) + position-wise feature compatibility, exact error/False conditions (ordered tests), bindings = bound sub-category with only variable features replaced by features of '
         'the inputs, KeyError for unknown names, no read after failure / before the call, one answer per matcher. Model tied to the real class by 2000+ differential cases per run '
         '(grammar pattern pairs, random patterns with repeated variables, both and mixed feature systems) and an independent Python restatement; hash-seed reruns.',
         'Trusted: Coq kernel+vm_compute; model Unify.v (pattern-variable keys (v, index) instead of f-strings: sound for single-letter variables, enforced by the translator); gen_unif.py.',
         'Coq proof by induction on patterns/dictionaries + differential cases + independent oracle', 'DESIGN.md §4 C06'),
 'C14': ('Theorems over the GENERATED grammars (GenEn.v/GenJa.v, re-translated from en.py/ja.py on every run): binary and unary rule application never raises on well-formed categories of one '
         'feature system, seen-rule filter = unrestricted result or nothing (key with X/nb erased for English, raw pair for Japanese), English results independent of nb, unary rules = the configured '
         'targets in order. In Gallina the rule functions are functions (no hidden state); reproducibility across processes and PYTHONHASHSEED values, argument immutability and repeatability '
         'are decided by differential execution (fresh interpreters under 4/16 hash seeds).',
         'Trusted: translator gen_grammar.py (tied by BinEn/BinJa/UnEn/UnJa cases), Unify.v, Coq kernel.', 'Coq proof over translated grammar + differential cases + multi-process hash-seed oracle', 'DESIGN.md §4 C14'),
 'C09': ('Proved in Coq through the refinement: the score stored in every goal item equals the recursive model score of its derivation (leaf tags + dependency of each non-head child to its '
         'head as the head flags determine + root attachment - penalty per unary node); chart items store inside score/head/span of their derivation. Tree-level oracle recomputes the score '
         'of every returned ScoredTree from its head flags on the real depccg.parsing.run.', ASTAR_NOTE + GLUE_NOTE,
         'Coq refinement proof (stored fields = functions of the derivation) + trace validation + score-recomputation oracle', 'DESIGN.md §4 C09'),
 'C10': ('Proved in Coq for n-best mode (no head-uniformity needed): goal items are popped best first (sorted), each is a complete licensed derivation with its model score, and every complete '
         'derivation not returned scores no more than every returned one (top-k), the returned derivations are pairwise different (each derivation is created at most once), at most k are '
         'returned and fewer than k only when the agenda is empty and every derivation was returned; the same for the deterministic twin (P_DSearch.v C10_d_results_are_the_best_in_order). The exhaustive-enumeration oracle (multiset of scores, duplicates, count) searches for counterexamples.', ASTAR_NOTE,
         'Coq proof (n-best frontier invariant, sortedness) + trace validation + exhaustive-enumeration oracle', 'DESIGN.md §4 C10'),
 'C12': ('Parser side: theorem that the tree built for a derivation labels each unary/binary node with op_string/op_symbol/head of exactly the rule_id-th cached result (Glue.v tied to '
         'retrieve_tree by exact tree comparison; A* invariants give the index validity). Reader side: guess_combinator_by_triplet is translated from the source on every run and proved to '
         'return the first deriving rule, unk only for underivable nodes; files printed from trees are re-read in auto/xml/ptb/jigg_xml and labels compared.',
         GLUE_NOTE + ' Translator gen_grammar.py for guess.', 'Coq proof over glue model + generated guess, exact-tree correspondence, multi-label synthetic grammars', 'DESIGN.md §4 C12'),
 'C16': ('Proved in Coq: the per-token candidate list is a prefix of the (score,id)-sorted tags of length <= pruning_size in which every tag passes the beta test against the best tag and which '
         'stops early only at the first failing tag; leaves of all returned derivations lie in it; excluded tags are not licensed. Threshold in the log domain (s - best > ln beta) with beta '
         'chosen so no decision is within 1/16 of the threshold. Tied by trace validation; oracle compares status/leaves with exhaustive enumeration over the admitted tags.', ASTAR_NOTE,
         'Coq proof (beam spec + licensed leaves) + trace validation + enumeration oracle', 'DESIGN.md §4 C16'),
}

PENDING_REASON = 'check under construction in this build round (not yet claimed)'


def main():
    m = {'version': 1, 'setup_cmd': './setup.sh',
         'hooks': {'guard': 'DEPCCG_VERIF',
                   'enable': 'checks export DEPCCG_VERIF=1 and compile harness/driver.cpp against /repo/depccg/parsing.h; the hook is a function pointer in parsing.h that stays null unless the driver installs it and the variable is set',
                   'baseline_off_cmd': 'cd /repo && env -u DEPCCG_VERIF /venv/bin/python -m pytest -ra -q -p no:cacheprovider --timeout=900 --continue-on-collection-errors',
                   'source_commits': ['e98ad2e'], 'add_only': True},
         'engines': [{'name': 'coq', 'path': 'coq/', 'serves_properties': sorted(CHECKS),
                      'kind_free_text': 'Coq 8.16.1 development: hand-written models, generated (translated) files, one theorem file P_Cxx.v per property'},
                     {'name': 'harness', 'path': 'harness/', 'serves_properties': sorted(CHECKS),
                      'kind_free_text': 'correspondence (cases evaluated by vm_compute inside coqc against the real implementation), C++ driver + de-cythonizer to run parsing.h/parsing.pyx, independent property oracles'},
                     {'name': 'translate', 'path': 'translate/', 'serves_properties': sorted(CHECKS),
                      'kind_free_text': 'fail-closed Python-ast translators source -> Gallina, re-run on every check'}],
         'checks': [], 'not_applicable': [], 'notes': 'see DESIGN.md; ./check <ID> --tier quick|thorough; known findings in known_findings.json'}
    for pid in sorted(CHECKS):
        text, note, tech, ref = CHECKS[pid]
        m['checks'].append({'property_id': pid, 'quick_cmd': f'./check {pid} --tier quick', 'thorough_cmd': f'./check {pid} --tier thorough',
                            'evidence_file': f'evidence/{pid}.json', 'replay_cmd_template': f'./check {pid} --replay {{path}}', 'engine': 'coq',
                            'level_claimed': {'category': 'proof', 'text': text, 'design_ref': ref}, 'level_note': note, 'technique': tech})
    for l in open(os.path.join(HERE, 'properties.jsonl')):
        p = json.loads(l)
        if p['id'] not in CHECKS:
            m['not_applicable'].append({'property_id': p['id'], 'reason': PENDING_REASON})
    json.dump(m, open(os.path.join(HERE, 'MANIFEST.json'), 'w'), indent=1)
    print('claimed:', sorted(CHECKS))


if __name__ == '__main__':
    main()
