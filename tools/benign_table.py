#!/usr/bin/env python3
"""tools/benign_table.py <name-regex>: markdown rows for DESIGN.md section 10 from benign/*/meta.json"""
import json, glob, sys, re
rx = re.compile(sys.argv[1])


def cut(s, n):
    s = re.sub(r'\s+', ' ', str(s)).replace('|', '\\|')
    return s if len(s) <= n else s[:n] + '…'


def key(p):
    g, k = re.search(r'B(\d+)_(\d+)', p).groups()
    return int(g), int(k)


for p in sorted(glob.glob('/verif/benign/*/meta.json'), key=key):
    name = p.split('/')[-2]
    if not rx.search(name):
        continue
    m = json.load(open(p))
    files = ', '.join(f.replace('depccg/', '') for f in m.get('files', []))
    first = ', '.join(m.get('first_run_alarms', [])) or '-'
    final = ', '.join(sorted({re.search(r'property=(C\d+)', a).group(1) for a in m.get('alarms', [])})) or '-'
    print(f"| {name} | {cut(files, 50)} | {cut(m.get('summary', ''), 190)} | {first} | {final} |")
