#!/usr/bin/env python3
"""tools/seed_table.py <suffix letters> : markdown rows (seed | change | needs | caught by) for DESIGN.md section 9 from seeded/*/meta.json"""
import json, glob, sys, re, os
NOTES = json.load(open(os.path.join(os.path.dirname(__file__), 'seed_notes.json'))) if os.path.exists(os.path.join(os.path.dirname(__file__), 'seed_notes.json')) else {}


def cut(s, n):
    s = re.sub(r'\s+', ' ', str(s)).replace('|', '\\|')
    return s if len(s) <= n else s[:n] + ' …'


print('| seed | change | needs | caught by (final run) |\n|---|---|---|---|')
for p in sorted(glob.glob('/verif/seeded/C??_[%s]/meta.json' % sys.argv[1])):
    name = p.split('/')[-2]
    m = json.load(open(p))
    ours = m.get('our_checks', [])
    ids = [re.search(r'property=(C\d+)', l).group(1) for l in ours if l.startswith('VIOLATION')]
    nf = any('no-failing-input-found' in l for l in ours if l.startswith('VIOLATION'))
    by = ', '.join(dict.fromkeys(ids)) or 'NOT CAUGHT'
    if nf:
        by += ' (no-failing-input-found)'
    if name in NOTES:
        by += '; ' + NOTES[name]
    print(f"| {name} | {cut(m.get('summary', ''), 180)} | {cut(m.get('needs', ''), 150)} | {by} |")
