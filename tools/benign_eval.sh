#!/bin/bash
# tools/benign_eval.sh <src-dir with patch.diff + meta.json> <name> [check ids... default: all]
# Runs the checks against a behaviour-preserving change of /repo (scratch copies; /repo and /verif untouched) and stores
# patch, description and verdicts under /verif/benign/<name>/.  A verdict other than OK is a false alarm (or the change is not benign).
set -u
SRC=$1; NAME=$2; shift 2
IDS=${@:-C01 C02 C03 C04 C05 C06 C07 C08 C09 C10 C11 C12 C13 C14 C15 C16 C17 C18 C19 C20}
D=$(mktemp -d /tmp/bev.XXXXXX)
trap 'git -C /repo worktree remove --force "$D/repo" >/dev/null 2>&1; rm -rf "$D"' EXIT
git -C /repo worktree add -q --detach "$D/repo" HEAD || exit 2
git -C "$D/repo" apply "$SRC/patch.diff" || { echo "PATCH DOES NOT APPLY"; exit 2; }
SUITE=$(cd "$D/repo" && /venv/bin/python -m pytest -q -p no:cacheprovider --continue-on-collection-errors 2>&1 | tail -1)
git -C /repo worktree remove --force "$D/repo" >/dev/null 2>&1
OURS=$(cd /verif && tools/mutant_run.sh "$SRC/patch.diff" $IDS 2>&1 | grep -E "^(VIOLATION|OK|  broken|  failure)" | cut -c1-300)
mkdir -p /verif/benign/$NAME
cp "$SRC/patch.diff" /verif/benign/$NAME/
[ -f /verif/benign/$NAME/meta.json ] || { [ -f "$SRC/meta.json" ] && cp "$SRC/meta.json" /verif/benign/$NAME/; }
python3 - "$NAME" "$SUITE" "$OURS" <<'PY'
import json, sys, os
name, suite, ours = sys.argv[1:4]
p = f'/verif/benign/{name}/meta.json'
m = json.load(open(p)) if os.path.exists(p) else {}
m.update({'existing_suite_with_patch': suite, 'our_checks': ours.splitlines(),
          'alarms': [l for l in ours.splitlines() if l.startswith('VIOLATION')]})
json.dump(m, open(p, 'w'), indent=1)
print(name, suite, '| alarms:', len(m['alarms']))
for l in ours.splitlines():
    if not l.startswith('OK'): print('   ', l[:250])
PY
