#!/bin/bash
# tools/mutant_run.sh <patch-file | rev:<commit>> <ID> [<ID>...]
# Runs the given checks against a scratch copy of /repo with the patch applied (rev:<commit> = that commit reverted),
# using a scratch copy of /verif, so neither /repo nor /verif is touched.  Prints the verdict lines.
set -u
SPEC=$1; shift
D=$(mktemp -d /tmp/mut.XXXXXX)
trap 'git -C /repo worktree remove --force "$D/repo" >/dev/null 2>&1; rm -rf "$D"' EXIT
git -C /repo worktree add -q --detach "$D/repo" HEAD || exit 2
if [[ "$SPEC" == rev:* ]]; then
  git -C "$D/repo" revert --no-commit "${SPEC#rev:}" >/dev/null 2>&1 || { echo "cannot revert ${SPEC#rev:}"; exit 2; }
else
  git -C "$D/repo" apply "$SPEC" || { echo "patch does not apply"; exit 2; }
fi
rsync -a --exclude work --exclude .git /verif/ "$D/verif/"
mkdir -p "$D/verif/work"
for id in "$@"; do
  ( cd "$D/verif" && DEPCCG_REPO="$D/repo" VERIF_TIER=${VERIF_TIER:-quick} timeout ${MUT_TIMEOUT:-2400} ./check "$id" --tier ${VERIF_TIER:-quick} 2>&1 | grep -E "^(VIOLATION|OK|KNOWN|  broken|  failure)" | cut -c1-400 | head -8 )
  cp "$D/verif/work/$id/replay.json" "/tmp/last_replay_$id.json" 2>/dev/null
  echo "[$id done]"
done
