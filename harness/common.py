"""Shared machinery of every check: build the Coq development against the current source, evaluate
correspondence cases inside coqc, decide the verdict, write evidence and replay files."""
import fcntl, json, os, random, re, subprocess, sys, time, hashlib, glob

import env
from env import VERIF, REPO, COQ, WORK

sys.path.insert(0, os.path.join(VERIF, 'translate'))

COQ_TIMEOUT = int(os.environ.get('VERIF_COQ_TIMEOUT', '1500'))
NPROC = int(os.environ.get('VERIF_NPROC', '16'))
FORBIDDEN = re.compile(r'\b(Admitted|admit|Axiom|Axioms|Parameter|Parameters|Conjecture|Admit\s+Obligations|bypass_check)\b|Unset\s+Guard|Unset\s+Positivity|Unset\s+Universe|-type-in-type|-impredicative-set')
ALLOWED_AXIOMS = {
    # standard-library axioms a theorem may rely on (each is named in the trusted base of the evidence file)
    'ClassicalDedekindReals.sig_forall_dec', 'ClassicalDedekindReals.sig_not_dec',
    'FunctionalExtensionality.functional_extensionality_dep', 'Classical_Prop.classic',
    'Eqdep.Eq_rect_eq.eq_rect_eq', 'ProofIrrelevance.proof_irrelevance', 'JMeq.JMeq_eq',
}


def _big_stack():
    """coqc reads the generated case files recursively: a text literal of ten thousand code points needs more than the default 8 MiB stack"""
    import resource
    soft, hard = resource.getrlimit(resource.RLIMIT_STACK)
    try:
        resource.setrlimit(resource.RLIMIT_STACK, (hard, hard))
    except (ValueError, OSError):
        pass


def sh(cmd, timeout=COQ_TIMEOUT, cwd=None, env_=None, inp=None):
    t0 = time.time()
    try:
        p = subprocess.run(cmd, shell=isinstance(cmd, str), cwd=cwd, env=env_, input=inp, capture_output=True, text=True, timeout=timeout, preexec_fn=_big_stack)
        return p.returncode, p.stdout, p.stderr, time.time() - t0
    except subprocess.TimeoutExpired as e:
        return 124, (e.stdout or b'').decode() if isinstance(e.stdout, bytes) else (e.stdout or ''), 'TIMEOUT', time.time() - t0


class Ctx:
    def __init__(self, pid, tier):
        self.pid, self.tier = pid, tier
        self.seed = env.seed()
        self.rng = random.Random(self.seed * 1000003 + int(hashlib.sha1(pid.encode()).hexdigest()[:6], 16))
        self.t0 = time.time()
        self.work = os.path.join(WORK, pid)
        os.makedirs(self.work, exist_ok=True)
        for f in glob.glob(os.path.join(self.work, '*')):
            if os.path.isfile(f):
                os.unlink(f)
        self.obligations = []      # (name, ok, detail)
        self.corr = []             # dicts
        self.failures = []         # concrete oracle failures: dict(kind=..., desc=..., data=...)
        self.known = []            # failures matched by known_findings.json
        self.samples = []
        self.stats = {}
        self.assumptions = {}
        self.trusted = []
        self.notes = []
        self.evaluations = 0
        self.nontrivial = set()
        self.quick = tier != 'thorough'

    # ---- bookkeeping -------------------------------------------------------------------------
    def obligation(self, name, ok, detail=''):
        self.obligations.append((name, bool(ok), detail[-2000:] if detail else ''))

    def sample(self, x, limit=6):
        if len(self.samples) < limit:
            self.samples.append(x)

    def count(self, key, n=1):
        self.stats[key] = self.stats.get(key, 0) + n

    def case(self, key, nontrivial=True):
        """count one explored case; key identifies it for distinctness"""
        self.evaluations += 1
        if nontrivial:
            self.nontrivial.add(hashlib.sha1(repr(key).encode()).digest()[:10])

    def fail(self, kind, desc, data):
        f = {'kind': kind, 'desc': desc, 'data': data}
        for k in load_known():
            if k.get('property') == self.pid and k.get('status', 'open') == 'open' and matches(k, f):
                self.known.append((k, f))
                return
        if len(self.failures) < 50:
            self.failures.append(f)
        else:
            self.count('failures_beyond_50')

    # ---- Coq ---------------------------------------------------------------------------------
    def build(self, targets, gens=('tables',)):
        """regenerate the translated files from the current source and build the given .vo targets"""
        ok = True
        with open(os.path.join(WORK, '.build.lock'), 'w') as lk:
            fcntl.flock(lk, fcntl.LOCK_EX)
            for g in gens:
                rc, out, err, dt = sh([sys.executable, os.path.join(VERIF, 'translate', f'gen_{g}.py'), REPO, COQ], timeout=120)
                self.obligation(f'translate:{g}', rc == 0, (out + err))
                ok &= rc == 0
                partial = [l for l in (out + err).splitlines() if l.startswith('PARTIAL ')]
                if partial:
                    self._partial_tables = partial
                    self.notes += [f'{l} (Coq files that use the missing definitions will not build)' for l in partial]
            # the other translators are run too, so that every generated file exists and is current (files are rewritten
            # only when their content changes); their outcome is an obligation of the checks that name them
            for fn in sorted(glob.glob(os.path.join(VERIF, 'translate', 'gen_*.py'))):
                g = os.path.basename(fn)[4:-3]
                if g not in gens:
                    sh([sys.executable, fn, REPO, COQ], timeout=120)
            bad = grep_gate()
            self.obligation('no Admitted/Axiom/Parameter/unset checks anywhere in coq/', not bad, '; '.join(bad))
            ok &= not bad
            make_makefile()
            for t in targets:
                rc, out, err, dt = sh(['make', '-f', 'Makefile.verif', '-j', str(NPROC), t], cwd=COQ, timeout=COQ_TIMEOUT)
                self.obligation(f'coqc:{t}', rc == 0, (out + err) + ('' if rc == 0 else ' '.join(getattr(self, '_partial_tables', []))))
                self.stats[f'build_s:{t}'] = round(dt, 1)
                ok &= rc == 0
        return ok

    def theorems(self, pfile):
        """Print Assumptions for every Theorem of a property file; each is one proof obligation"""
        src = open(os.path.join(COQ, pfile + '.v')).read()
        names = re.findall(r'^\s*(?:Theorem|Corollary)\s+(\w+)', src, flags=re.M)
        if not os.path.exists(os.path.join(COQ, pfile + '.vo')):
            for n in names:
                self.obligation(f'theorem:{n}', False, f'{pfile}.vo was not built')
            return False
        body = f'Require Import {pfile}.\n' + ''.join(f'Print Assumptions {n}.\n' for n in names)
        f = os.path.join(self.work, f'Assum_{pfile}.v')
        open(f, 'w').write(body)
        rc, out, err, dt = sh([env.COQC, '-R', COQ, 'Depccg', f], timeout=600)
        blocks = re.split(r'(?=Closed under the global context|Axioms:)', out)
        blocks = [b for b in blocks if b.strip()]
        allok = rc == 0 and len(blocks) == len(names)
        if not allok:
            for n in names:
                self.obligation(f'theorem:{n}', False, f'Print Assumptions failed: {(out + err)[-500:]}')
            return False
        if not self.quick:
            self.coqchk(pfile)
        for n, b in zip(names, blocks):
            if b.startswith('Closed'):
                self.assumptions[n] = []
                self.obligation(f'theorem:{n}', True, 'closed under the global context')
            else:
                ax = re.findall(r'^(\S+)\s*:', b, flags=re.M)
                ax = [a for a in ax if a != 'Axioms']
                self.assumptions[n] = ax
                bad = [a for a in ax if a not in ALLOWED_AXIOMS]
                self.obligation(f'theorem:{n}', not bad, 'axioms: ' + ', '.join(ax))
                allok &= not bad
        return allok

    def coqchk(self, pfile):
        """thorough tier: re-check the compiled property file and everything it depends on with the independent checker"""
        rc, out, err, dt = sh(['coqchk', '-o', '-silent', '-R', COQ, 'Depccg', f'Depccg.{pfile}'], timeout=3000)
        out = out + '\n' + err          # coqchk writes its context summary to stderr
        m = re.search(r'\* Axioms:\s*(.*?)\n\s*\n', out + '\n\n', flags=re.S)
        axioms = (m.group(1).strip() if m else '?')
        self.stats[f'coqchk_s:{pfile}'] = round(dt, 1)
        self.stats[f'coqchk_axioms:{pfile}'] = axioms[:500]
        bad = rc != 0 or 'type-in-type: <none>' not in out.replace('\n', ' ') or 'unsafe (co)fixpoints: <none>' not in out.replace('\n', ' ')
        self.obligation(f'coqchk:{pfile} (independent checker; axioms: {axioms[:200]})', not bad, (out + err)[-1500:])

    def coq_cases(self, name, preamble, cases, chunk=300, describe=None, timeout=900):
        """cases: list of Gallina terms of type bool ('model agrees with what the implementation did').
        Evaluated by vm_compute inside coqc; returns the indices that are false (or None if coqc failed)."""
        if not cases:
            return []
        files = []
        for k in range(0, len(cases), chunk):
            fn = os.path.join(self.work, f'Cases_{name}_{k // chunk}.v')
            with open(fn, 'w') as f:
                f.write(preamble + '\n')
                f.write('Definition cases_ : list bool := [\n' + ';\n'.join(cases[k:k + chunk]) + '].\n')
                f.write('Fixpoint mism_ (k : nat) (cs : list bool) : list nat := match cs with nil => nil | c :: r => if c then mism_ (S k) r else k :: mism_ (S k) r end.\n')
                f.write('Eval vm_compute in (mism_ 0%nat cases_).\n')
            files.append((k, fn))
        t0 = time.time()
        procs = []
        bad, broken = [], []
        pending = list(files)
        running = []
        while pending or running:
            while pending and len(running) < NPROC:
                k, fn = pending.pop(0)
                p = subprocess.Popen(['timeout', str(timeout), env.COQC, '-R', COQ, 'Depccg', '-Q', self.work, f'W{self.pid}', fn], stdout=subprocess.PIPE, stderr=subprocess.PIPE, text=True, preexec_fn=_big_stack)
                running.append((k, fn, p))
            k, fn, p = running.pop(0)
            out, err = p.communicate()
            m = re.search(r'=\s*(\[[^\]]*\]|nil)\s*:\s*list nat', out.replace('\n', ' '))
            if p.returncode != 0 or not m:
                broken.append((fn, (out + err)[-1500:]))
                continue
            body = m.group(1)
            idx = [int(x) for x in re.findall(r'\d+', body)] if body != 'nil' else []
            bad.extend(k + i for i in idx)
        self.stats[f'corr_s:{name}'] = round(time.time() - t0, 1)
        rec = {'name': name, 'cases': len(cases), 'mismatches': len(bad), 'broken_files': len(broken)}
        self.corr.append(rec)
        if broken:
            self.obligation(f'correspondence:{name} evaluates', False, broken[0][1])
            return None
        self.obligation(f'correspondence:{name} ({len(cases)} cases)', not bad,
                        'disagreeing case indices: ' + str(bad[:20]) + (('; first: ' + str(describe(bad[0]))) if bad and describe else ''))
        return bad

    # ---- verdict -----------------------------------------------------------------------------
    def finish(self, level='proof', rule='', assumptions=(), checker_cmd=None, extra=None):
        try:
            os.unlink(os.path.join(self.work, 'last_input.json'))       # the run came to its end: no input took the process down
        except OSError:
            pass
        wall = time.time() - self.t0
        broken = [(n, d) for n, ok, d in self.obligations if not ok]
        viol = 0
        out_lines = []
        seen_known = {}
        for k, f in self.known:
            seen_known.setdefault(k['id'], (k, 0))
            seen_known[k['id']] = (k, seen_known[k['id']][1] + 1)
        for kid, (k, n) in seen_known.items():
            out_lines.append(f"KNOWN-FINDING: property={self.pid} {k['desc']} ({n} instance(s) this run; {kid})")
        replay = None
        if self.failures:
            viol = len(self.failures)
            replay = os.path.join(self.work, 'replay.json')
            json.dump({'property': self.pid, 'seed': self.seed, 'tier': self.tier, 'failures': self.failures,
                       'broken_obligations': broken}, open(replay, 'w'), indent=1, default=str)
            out_lines.append(f'VIOLATION property={self.pid} replay={replay}')
        elif broken:
            viol = 1
            replay = os.path.join(self.work, 'replay.json')
            json.dump({'property': self.pid, 'seed': self.seed, 'tier': self.tier, 'failures': [],
                       'no_failing_input_found': True,
                       'searched': f'{self.evaluations} implementation cases against the independent oracle of the property',
                       'broken_obligations': [{'name': n, 'detail': d} for n, d in broken]}, open(replay, 'w'), indent=1, default=str)
            out_lines.append(f'VIOLATION property={self.pid} replay={replay} no-failing-input-found')
        nob = len(self.obligations)
        ndis = sum(1 for _, ok, _ in self.obligations if ok)
        ax = sorted({a for v in self.assumptions.values() for a in v})
        cov = {
            'obligations': nob, 'discharged': ndis,
            'checker_cmd': checker_cmd or f'make -C {COQ} (coqc 8.16.1, full .vo build) + Print Assumptions per theorem',
            'trusted_base': ['Coq 8.16.1 kernel incl. vm_compute (no native_compute)',
                             'axioms reported by Print Assumptions: ' + (', '.join(ax) if ax else 'none (closed under the global context)')] + list(self.trusted),
            'evaluations': max(self.evaluations, 1), 'distinct_nontrivial': len(self.nontrivial),
            'rule': rule, 'samples': self.samples or ['(no sample recorded)'],
            'obligation_list': [{'name': n, 'ok': ok} for n, ok, _ in self.obligations],
            'correspondence': self.corr, 'theorem_assumptions': self.assumptions, 'stats': self.stats,
            'known_findings_hit': [k['id'] for k, _ in seen_known.values()],
        }
        if extra:
            cov.update(extra)
        ev = {'property_id': self.pid, 'tier': 'thorough' if self.tier == 'thorough' else 'quick', 'seed': self.seed,
              'level': level, 'coverage': cov, 'assumptions': list(assumptions) + self.notes, 'wall_s': round(wall, 2), 'violations': viol}
        os.makedirs(os.path.join(VERIF, 'evidence'), exist_ok=True)
        json.dump(ev, open(os.path.join(VERIF, 'evidence', f'{self.pid}.json'), 'w'), indent=1, default=str)
        for l in out_lines:
            print(l)
        if not viol:
            print(f'OK property={self.pid} tier={self.tier} obligations={ndis}/{nob} cases={self.evaluations} distinct_nontrivial={len(self.nontrivial)} wall={wall:.1f}s')
        else:
            for n, d in broken[:6]:
                print(f'  broken: {n}: {d[-400:]}')
            for f in self.failures[:6]:
                print(f"  failure[{f['kind']}]: {f['desc'][:400]}")
        sys.stdout.flush()
        return 1 if viol else 0


def make_makefile():
    """Makefile.verif from the files of _CoqProject that exist (a missing or half-registered file of one property
    must not stop the build of another); regenerated only when the file list changes"""
    lines = [l.strip() for l in open(os.path.join(COQ, '_CoqProject')) if l.strip()]
    keep, seen = [], set()
    for l in lines:
        if l.endswith('.v'):
            if l in seen or not os.path.exists(os.path.join(COQ, l)):
                continue
            seen.add(l)
        keep.append(l)
    txt = '\n'.join(keep) + '\n'
    fp = os.path.join(COQ, '_CoqProject.verif')
    if not os.path.exists(fp) or open(fp).read() != txt or not os.path.exists(os.path.join(COQ, 'Makefile.verif')):
        open(fp, 'w').write(txt)
        sh('coq_makefile -f _CoqProject.verif -o Makefile.verif', cwd=COQ, timeout=60)


_known = None


def load_known():
    global _known
    if _known is None:
        p = os.path.join(VERIF, 'known_findings.json')
        _known = json.load(open(p)).get('findings', []) if os.path.exists(p) else []
    return _known


def matches(k, f):
    if k.get('kind') != f['kind']:
        return False
    for key, want in (k.get('where') or {}).items():
        got = f['data'].get(key) if isinstance(f['data'], dict) else None
        if isinstance(want, list):
            if got not in want:
                return False
        elif isinstance(want, dict) and 'contains_any' in want:
            if not (isinstance(got, str) and any(w in got for w in want['contains_any'])):
                return False
        elif got != want:
            return False
    return True


def grep_gate():
    bad = []
    for fn in sorted(glob.glob(os.path.join(COQ, '*.v'))):
        txt = open(fn, encoding='utf-8').read()
        txt = re.sub(r'\(\*.*?\*\)', '', txt, flags=re.S)
        for m in FORBIDDEN.finditer(txt):
            bad.append(f'{os.path.basename(fn)}: {m.group(0)}')
    return bad
