"""C07 / html (MathML) - correspondence cases between coq/FmtHtml.v and depccg/printer/html.py.

Each function runs the REAL code and returns one Gallina term of type bool ("the model agrees with what the implementation did"):
    tree_case(t)      depccg.printer.html._mathml_subtree(t)              vs  mathml_subtree / hser_list (mathml_nodes t) / dec_mathml / hparse
    batch_case(batch) depccg.printer.to_string(batch, format='html')      vs  FmtHtmlDoc.html_doc (page template and f-strings from the generated
                      GenFmt.v), and the document reader dec_html_doc run on the REAL text: sentence numbers, tree indices, score texts
                      and header words against the Python objects, views against html_doc_views
    scan_case(s)      re.findall(r'([^\\[\\]]+)(\\[.+?\\])*', s) and _mathml_cat(s)  vs  mathml_scan / mathml_cat
    escape_case(s)    html.escape(s)                                       vs  html_escape (and html_unescape back)
KeyError / IndexError / AssertionError of the implementation are the expected value None.
Use:  cases = [fmt_html_cases.tree_case(t), ...];  ctx.coq_cases('html', fmt_html_cases.PRE_HTML, cases)
PRE_HTML is self-contained (all its helper names start with h_ / Chk) so it can also be appended to another preamble.
Self-test:  cd /verif/harness && PYTHONHASHSEED=0 /venv/bin/python -B fmt_html_cases.py
"""
import html
import os
import re
import sys

import env  # noqa: F401  (import path: /repo first, stubs)
sys.path.insert(0, os.path.join(env.VERIF, 'translate'))   # as common.py does
from gallina import lit, gtree, gopt, glist

PRE_HTML = '''From Coq Require Import List NArith Bool Arith.
Import ListNotations.
Require Import Cat CatFacts Tree Fmt FmtHtml FmtHtmlDoc.
Open Scope N_scope.
Definition h_otext_eqb (a b : option text) : bool := match a, b with Some x, Some y => text_eqb x y | None, None => true | _, _ => false end.
Fixpoint h_list_eqb {A : Type} (e : A -> A -> bool) (a b : list A) : bool :=
  match a, b with [], [] => true | x :: a', y :: b' => e x y && h_list_eqb e a' b' | _, _ => false end.
Fixpoint h_view_eqb (a b : view text) : bool :=
  match a, b with
  | VLeaf c x, VLeaf d y => cat_eqb c d && text_eqb x y
  | VUn c l v, VUn d m w => cat_eqb c d && text_eqb l m && h_view_eqb v w
  | VBin c l h v1 v2, VBin d m k w1 w2 => cat_eqb c d && text_eqb l m && Bool.eqb h k && h_view_eqb v1 w1 && h_view_eqb v2 w2
  | _, _ => false
  end.
Definition h_oview_eqb (a b : option (view text)) : bool :=
  match a, b with Some x, Some y => h_view_eqb x y | None, None => true | _, _ => false end.
Definition h_is_some {A : Type} (o : option A) : bool := match o with Some _ => true | None => false end.
Fixpoint h_node_eqb (a b : hnode) {struct a} : bool :=
  match a, b with
  | HText x, HText y => text_eqb x y
  | HEl t1 a1 k1, HEl t2 a2 k2 =>
      text_eqb t1 t2 && text_eqb a1 a2 &&
      (fix go (l m : list hnode) {struct l} : bool :=
         match l, m with [], [] => true | x :: l', y :: m' => h_node_eqb x y && go l' m' | _, _ => false end) k1 k2
  | _, _ => false
  end.
(* one derivation: the text model and the serialised element tree against the real string; when the implementation printed
   something, the reader of the element tree gives the view of the derivation (readable = the categories are category values
   without a newline in a feature, the domain of FmtHtmlProofs.html_roundtrip); the tag parser on the REAL string gives the
   element tree of the model (when no word / rule label is empty) and, read by dec_mathml_list, the view again *)
Definition ChkHtmlTreeL (t : tree) (e : option text) (readable : bool) : list bool :=
  [h_otext_eqb (mathml_subtree t) e;
   h_otext_eqb (option_map hser_list (mathml_nodes t)) e;
   match mathml_node t with
   | Some n => if readable then h_oview_eqb (dec_mathml n) (view_html t) && h_is_some (view_html t) else true
   | None => negb (h_is_some e) && negb (h_is_some (view_html t))
   end;
   match e with
   | Some s => if texts_nonempty t
               then match hparse s, mathml_nodes t with Some a, Some b => h_list_eqb h_node_eqb a b | _, _ => false end
               else true
   | None => true
   end;
   match e with
   | Some s => if texts_nonempty t && readable
               then match hparse s with Some ns => h_oview_eqb (dec_mathml_list ns) (view_html t) | None => false end
               else true
   | None => true
   end].
Definition ChkHtmlTree (t : tree) (e : option text) (readable : bool) : bool := forallb (fun b => b) (ChkHtmlTreeL t e readable).
(* one batch; a record = (score as Python formats it with .5e, tree).  The model's document against the real one; and - when every tree is
   readable (see above), has non-empty words / labels and a score text without the characters html.escape rewrites: the domain of
   FmtHtmlDocProofs.html_doc_roundtrip - the document reader on the REAL text: its headers and records against html_doc_views, and the sentence
   numbers / words (exp_h) and sentence numbers / tree indices / score texts (exp_r) against what the harness took from the Python objects *)
Definition h_rec_eqb (a b : html_rec) : bool :=
  let '(k, i, s, v) := a in let '(k', i', s', v') := b in Nat.eqb k k' && Nat.eqb i i' && text_eqb s s' && h_view_eqb v v'.
Definition h_hdr_eqb (a b : nat * text) : bool := Nat.eqb (fst a) (fst b) && text_eqb (snd a) (snd b).
Definition h_num_eqb (a b : nat * nat * text) : bool :=
  Nat.eqb (fst (fst a)) (fst (fst b)) && Nat.eqb (snd (fst a)) (snd (fst b)) && text_eqb (snd a) (snd b).
Definition h_docv_eqb (a b : option (list (nat * text) * list html_rec)) : bool :=
  match a, b with
  | Some (h, r), Some (h', r') => h_list_eqb h_hdr_eqb h h' && h_list_eqb h_rec_eqb r r'
  | None, None => true
  | _, _ => false
  end.
Definition ChkHtmlBatchL (b : list (list (text * tree))) (e : option text) (readable : bool) (exp_h : list (nat * text)) (exp_r : list (nat * nat * text)) : list bool :=
  [h_otext_eqb (html_doc b) e;
   match e with
   | Some txt =>
       if readable && forallb (forallb (fun st : text * tree => score_plain (fst st) && texts_nonempty (snd st))) b then
         h_docv_eqb (dec_html_doc txt) (html_doc_views b)
       else true
   | None => true
   end;
   match e with
   | Some txt =>
       if readable && forallb (forallb (fun st : text * tree => score_plain (fst st) && texts_nonempty (snd st))) b then
         match dec_html_doc txt with
         | Some (h, r) => h_list_eqb h_hdr_eqb h exp_h && h_list_eqb h_num_eqb (map (fun x : html_rec => fst x) r) exp_r
         | None => false
         end
       else true
   | None => true
   end;
   (* the page frame is readable whatever the trees are *)
   match e with Some txt => h_is_some (dec_html_frame txt) | None => true end].
Definition ChkHtmlBatch (b : list (list (text * tree))) (e : option text) (readable : bool) (exp_h : list (nat * text)) (exp_r : list (nat * nat * text)) : bool :=
  forallb (fun x => x) (ChkHtmlBatchL b e readable exp_h exp_r).
(* the regular expression of _mathml_cat and _mathml_cat itself *)
Definition h_pair_eqb (a b : text * text) : bool := text_eqb (fst a) (fst b) && text_eqb (snd a) (snd b).
Definition ChkScan (s : text) (e : list (text * text)) (m : text) : bool :=
  h_list_eqb h_pair_eqb (mathml_scan s) e && text_eqb (mathml_cat s) m.
Definition ChkEscape (s e : text) : bool := text_eqb (html_escape s) e && text_eqb (html_unescape e) s.
'''

def biglit(s, piece=400):
    """a long text as the concatenation of short list literals (coqc overflows its stack on a list literal of ~10^5 elements)"""
    if len(s) <= piece:
        return lit(s)
    return '(List.concat [' + ';'.join(lit(s[i:i + piece]) for i in range(0, len(s), piece)) + '])'


_SCAN = re.compile(r'([^\[\]]+)(\[.+?\])*')      # restated from html.py:63; scan_case also compares _mathml_cat itself


def _attempt(f, *a, **k):
    try:
        return f(*a, **k)
    except (KeyError, IndexError, AssertionError):
        return None


def readable_tree(t):
    """every category of the derivation is a category value (gen.wf_py) without a newline in a feature"""
    import gen
    def rec(n):
        s = str(n.cat)
        if not gen.wf_py(n.cat) or '\n' in s:
            return False
        return True if n.is_leaf else all(rec(c) for c in n.children)
    return rec(t)


def tree_case(t, readable=None):
    from depccg.printer.html import _mathml_subtree
    exp = _attempt(_mathml_subtree, t)
    if readable is None:
        readable = readable_tree(t)
    return f'ChkHtmlTree {gtree(t)} {gopt(exp, biglit)} {"true" if readable else "false"}'


def tree_case_detail(t, k, readable=None):
    """the k-th sub-check of tree_case (0 text model, 1 element tree serialised, 2 reader of the element tree, 3 tag parser on the real string, 4 parser + reader)"""
    from depccg.printer.html import _mathml_subtree
    exp = _attempt(_mathml_subtree, t)
    if readable is None:
        readable = readable_tree(t)
    return f'nth {k} (ChkHtmlTreeL {gtree(t)} {gopt(exp, biglit)} {"true" if readable else "false"}) false'


def gbatch(batch):
    return glist(batch, lambda trees: glist(trees, lambda st: f'({lit(f"{st.score:.5e}")},{gtree(st.tree)})'))


def _batch_args(batch):
    from depccg.printer import to_string
    exp = _attempt(to_string, batch, format='html')
    readable = all(readable_tree(st.tree) for trees in batch for st in trees)
    # what the document is expected to carry, taken from the Python objects (not from the model)
    hdr = [(k, _attempt(lambda: trees[0].tree.word)) for k, trees in enumerate(batch, 1) if trees]
    hdr = [] if any(w is None for _, w in hdr) else hdr
    recs = [(k, i, f'{st.score:.5e}') for k, trees in enumerate(batch, 1) for i, st in enumerate(trees, 1)]
    gh = glist(hdr, lambda x: f'({x[0]}%nat,{lit(x[1])})')
    gr = glist(recs, lambda x: f'({x[0]}%nat,{x[1]}%nat,{lit(x[2])})')
    return f'{gbatch(batch)} {gopt(exp, biglit)} {"true" if readable else "false"} {gh} {gr}'


def batch_case(batch):
    return 'ChkHtmlBatch ' + _batch_args(batch)


def batch_case_detail(batch, k):
    """the k-th sub-check of batch_case (0 html_doc = the real text, 1 dec_html_doc on the real text = html_doc_views, 2 numbers / scores / words
    against the Python objects, 3 the page frame is readable)"""
    return f'nth {k} (ChkHtmlBatchL {_batch_args(batch)}) false'


def scan_case(s):
    from depccg.printer.html import _mathml_cat
    pairs = re.findall(r'([^\[\]]+)(\[.+?\])*', s)
    assert pairs == _SCAN.findall(s)
    return f'ChkScan {lit(s)} {glist(pairs, lambda p: f"({lit(p[0])},{lit(p[1])})")} {biglit(_mathml_cat(s))}'


def escape_case(s):
    return f'ChkEscape {lit(s)} {lit(html.escape(s))}'


def coq_eval(workdir, name, preamble, cases, chunk=100, timeout=900, nproc=16):
    """the scheme of common.Ctx.coq_cases without a Ctx: -> (indices that are false, [(file, output)] that did not evaluate)"""
    import subprocess
    os.makedirs(workdir, exist_ok=True)
    files = []
    for k in range(0, len(cases), chunk):
        fn = os.path.join(workdir, f'Cases_{name}_{k // chunk}.v')
        with open(fn, 'w') as f:
            f.write(preamble + '\n')
            f.write('Definition cases_ : list bool := [\n' + ';\n'.join(cases[k:k + chunk]) + '].\n')
            f.write('Fixpoint mism_ (k : nat) (cs : list bool) : list nat := match cs with nil => nil | c :: r => if c then mism_ (S k) r else k :: mism_ (S k) r end.\n')
            f.write('Eval vm_compute in (mism_ 0%nat cases_).\n')
        files.append((k, fn))
    bad, broken, pending, running = [], [], list(files), []
    while pending or running:
        while pending and len(running) < nproc:
            k, fn = pending.pop(0)
            p = subprocess.Popen(['timeout', str(timeout), env.COQC, '-R', env.COQ, 'Depccg', '-Q', workdir, 'WC07html', fn],
                                 stdout=subprocess.PIPE, stderr=subprocess.PIPE, text=True)
            running.append((k, fn, p))
        k, fn, p = running.pop(0)
        out, err = p.communicate()
        m = re.search(r'=\s*(\[[^\]]*\]|nil)\s*:\s*list nat', out.replace('\n', ' '))
        if p.returncode != 0 or not m:
            broken.append((fn, (out + err)[-1500:]))
            continue
        body = m.group(1)
        bad.extend(k + i for i in ([int(x) for x in re.findall(r'\d+', body)] if body != 'nil' else []))
    return sorted(bad), broken


def _selftest():
    import random
    import time
    import gen
    import fmt_gen
    from depccg.lang import set_global_language_to
    from depccg.cat import Category
    from depccg.tree import Tree, ScoredTree
    from depccg.types import Token
    rng = random.Random(env.seed() * 7919 + 7)
    t0 = time.time()
    cases, descr = [], []

    def add(case, d):
        cases.append(case)
        descr.append(d)

    ntree = nbatch = 0
    nread = [0]
    _tree_case = tree_case

    def tree_case_counted(t, readable=None):
        nread[0] += readable_tree(t) if readable is None else bool(readable)
        return _tree_case(t, readable)
    for lang in ('en', 'ja'):
        set_global_language_to(lang)
        for i in range(40):
            b, kinds = fmt_gen.make_batch(rng, lang)
            add(batch_case(b), ('batch', lang, [len(x) for x in b]))
            nbatch += 1
            for trees in b[:2]:
                for st in trees[:2]:
                    add(tree_case_counted(st.tree), ('tree', lang, repr(gen.tree_sig(st.tree))[:300]))
                    ntree += 1
        probes = fmt_gen.probe_batches(rng, lang)
        for b in rng.sample(probes, 12):
            add(batch_case(b), ('probe batch', lang, [len(x) for x in b]))
            nbatch += 1
            add(tree_case_counted(b[0][0].tree), ('probe tree', lang, repr(gen.tree_sig(b[0][0].tree))[:300]))
            ntree += 1
        # malformed: a token without 'word' (KeyError), in the first / a later tree; an empty n-best list (IndexError)
        for i in range(6):
            b, _ = fmt_gen.make_batch(rng, lang, nsent=2, nbest=2)
            victim = b[i % 2][(i // 2) % 2].tree
            del rng.choice(victim.leaves).children[0]['word']
            add(batch_case(b), ('batch with a word missing', lang, i))
            add(tree_case_counted(victim), ('tree with a word missing', lang, repr(gen.tree_sig(victim))[:300]))
            nbatch += 1
            ntree += 1
        b, _ = fmt_gen.make_batch(rng, lang, nsent=2, nbest=1)
        add(batch_case([b[0], []]), ('second sentence has no tree', lang))
        add(batch_case([[], b[0]]), ('first sentence has no tree', lang))
        nbatch += 2
    set_global_language_to('en')
    add(batch_case([]), ('empty batch',))
    nbatch += 1
    # categories with exotic texts: entities in bases / features, a newline in a feature (brackets are lost: not readable)
    for s in ['S[a\nb]', 'S[a&b]\\NP["]', "x'y['z']/&amp;", 'S[\n]', 'N\n[x]', 'S[dcl]', '(S[dcl]\\NP)/NP', 'S[mod=nm,form=base,fin=f]', ',', 'conj']:
        c = Category.parse(s)
        leaf = Tree.make_terminal(Token(word='w&<>"\''), c)
        add(tree_case_counted(leaf), ('exotic category leaf', s))
        add(tree_case_counted(Tree.make_unary(c, leaf, 'a"<&>\'b', '<un>')), ('exotic category unary', s))
        add(batch_case([[ScoredTree(Tree.make_binary(c, leaf, leaf, 'fa', '>'), -1.5)]]), ('exotic category batch', s))
        ntree += 2
        nbatch += 1
    n_tb = len(cases)

    # scanner strings
    strs = ['', 'a[]]b', '[x]', 'a[b][c]d', 'a[', 'a[b', ']a[', 'a[\n]b', 'a[b\n]', 'a[\nb]', 'a[]', 'a[]b]', '[[', ']]', 'a[[]', 'a[[]]', 'a[b]c[d]', 'a[b]]',
            'a[b][', 'a[b][c', 'a[b][\n]', 'a[b\r]', 'a[ ]', '\n', '\n[a]', 'S[dcl]', '(S[dcl]\\NP)/NP', 'a&b[<c>]"\'']
    alphabet = ['a', '[', ']', '\n', '(', '/', 'S', '[', ']']
    while len(strs) < 200:
        strs.append(''.join(rng.choice(alphabet) for _ in range(rng.randint(0, 12))))
    inv = sorted(set(gen.inventory('en'))) + sorted(set(gen.inventory('ja')))
    strs += [str(Category.parse(s)) for s in rng.sample(inv, min(100, len(inv)))]
    nscan = 0
    for s in strs:
        add(scan_case(s), ('scan', s))
        nscan += 1
    for s in ['', '&', '&amp;', '&amp;amp;', '<>"\'&', "it's", '&lt', '&#x27;', '&#x27', 'a&quot;b', '猫<\U0001F600>'] + \
             [''.join(rng.choice('&<>"\'ampltgquo;#x27') for _ in range(rng.randint(0, 10))) for _ in range(40)]:
        add(escape_case(s), ('escape', s))

    work = os.path.join(env.WORK, 'C07html')
    for f in os.listdir(work) if os.path.isdir(work) else []:
        if f.startswith('Cases_'):
            os.unlink(os.path.join(work, f))
    bad, broken = coq_eval(work, 'selftest', PRE_HTML, cases, chunk=40)
    print(f'cases={len(cases)} (trees={ntree} of which readable={nread[0]} batches={nbatch} scanner={nscan} escape={len(cases) - n_tb - nscan}) '
          f'mismatches={bad} broken_files={len(broken)} seconds={time.time() - t0:.1f}')
    for fn, out in broken[:2]:
        print('BROKEN', fn, out)
    for i in bad[:10]:
        print('MISMATCH', i, descr[i])
    return 1 if (bad or broken) else 0


if __name__ == '__main__':
    sys.exit(_selftest())
