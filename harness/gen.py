"""Input generators shared by the checks: categories (both feature systems), inventories of the shipped
model files, texts with redundant brackets, malformed token soups, trees, tokens."""
import os, itertools, functools
import env
import jsonnet
from depccg.cat import Category, Atom, Functor, UnaryFeature, TernaryFeature

MODELS = os.path.join(env.REPO, 'depccg', 'models')
PUNCTS = None


def puncts():
    from depccg import cat
    return list(cat.punctuations)


@functools.lru_cache(None)
def model_file(name):
    d = jsonnet.load(os.path.join(MODELS, name))
    return d[list(d)[0]]


@functools.lru_cache(None)
def inventory(lang):
    """distinct category strings of targets.<lang>"""
    return list(model_file(f'targets.{lang}.jsonnet'))


@functools.lru_cache(None)
def all_shipped_category_strings():
    out = []
    for lang in ('en', 'en_rebank', 'ja'):
        out += inventory(lang)
        out += [c for pair in model_file(f'seen_rules.{lang}.jsonnet') for c in pair]
    for lang in ('en', 'ja'):
        out += [c for pair in model_file(f'unary_rules.{lang}.jsonnet') for c in pair]
    for cats in model_file('cat_dict.en.jsonnet').values():
        out += cats
    for fn in ('cats.txt', 'cats.ja.txt'):
        p = os.path.join(env.REPO, 'tests', fn)
        if os.path.exists(p):
            out += [l.strip() for l in open(p, encoding='utf-8') if l.strip()]
    seen, res = set(), []
    for s in out:
        if s not in seen:
            seen.add(s); res.append(s)
    return res


# ---------------------------------------------------------------------------------------------
EN_BASES = ['S', 'N', 'NP', 'PP', ',', 'conj', '.', 'LRB']
EN_FEATS = [None, 'X', 'nb', 'dcl', 'b', 'em', 'ng']
JA_BASES = ['S', 'NP']
JA_FEATS = [
    (('mod', 'nm'), ('form', 'base'), ('fin', 't')), (('mod', 'X1'), ('form', 'X2'), ('fin', 'X3')),
    (('mod', 'adn'), ('form', 'base'), ('fin', 'f')), (('case', 'nc'), ('mod', 'nm'), ('fin', 'f')),
    (('case', 'ga'), ('mod', 'nm'), ('fin', 'f')), (('case', 'X1'), ('mod', 'X2'), ('fin', 'f')),
    (('mod', 'adv'), ('form', 'cont'), ('fin', 'f')), (('case', 'nc'), ('mod', 'X1'), ('fin', 'X2')),
]
SLASHES = ['/', '\\', '|']


def mk_atom(base, feat):
    if feat is None:
        return Atom(base)
    if isinstance(feat, str):
        return Atom(base, UnaryFeature(feat))
    return Atom(base, TernaryFeature(*feat))


def rand_atom(rng, system='en', exotic=False):
    ps = puncts()
    if system == 'en':
        b = rng.choice(EN_BASES)
        if exotic and rng.random() < 0.3:
            b = rng.choice(['Sx', 'N1', 'nP', 'ü', 'カ', 'a=b', 'a,b', 'X', 'IP-MS', "N'", 'a+b', 'x#', 'q!', '@', 'CP-THT', '%', 'a.b', '~', 'x?y', '$', 'a&b', '"q"', '^',
                            # names that Unicode normalisation (NFC / NFKC) would rewrite: half-width kana, full-width letters, a decomposed accent,
                            # a ligature, a superscript - a name is the code points it is written with
                            'ｶﾞ', 'ＮＰ', 'de\u0301', 'ﬁn', 'N²', '\u212b'])
        f = None if b in ps else rng.choice(EN_FEATS)
        if exotic and f is not None and rng.random() < 0.2:
            f = rng.choice(['a=b', 'a,b', 'x1', 'カ', 'q.r', '+wh', '-wh', "a'", 'x#1', '!', 'a&b', '%', 'a:b', '@x', 'ｶﾞ', 'de\u0301cl', 'ｘ', '²'])
        return mk_atom(b, f)
    b = rng.choice(JA_BASES)
    f = rng.choice(JA_FEATS)
    if exotic and rng.random() < 0.2:
        f = tuple((k, rng.choice([v, 'X9', 'z', ''])) for k, v in f)
    return mk_atom(b, f)


def rand_cat(rng, system='en', depth=3, exotic=False, slashes=SLASHES[:2]):
    if depth == 0 or rng.random() < 0.3:
        return rand_atom(rng, system, exotic)
    return Functor(rand_cat(rng, system, depth - 1, exotic, slashes), rng.choice(slashes), rand_cat(rng, system, depth - 1, exotic, slashes))


def enum_cats(atoms, slashes, natoms):
    """all categories with at most natoms atoms"""
    by = {1: list(atoms)}
    for n in range(2, natoms + 1):
        cur = []
        for k in range(1, n):
            for l in by[k]:
                for r in by[n - k]:
                    for s in slashes:
                        cur.append(Functor(l, s, r))
        by[n] = cur
    return [c for n in range(1, natoms + 1) for c in by[n]]


def size(c):
    return 1 if isinstance(c, Atom) else size(c.left) + size(c.right)


# ---- texts with redundant brackets ------------------------------------------------------------
def bracket_text(rng, c, blanks=True, top=True):
    """a text of c with random redundant round/angle brackets and blanks; token list"""
    def wrap(ts):
        o, cl = rng.choice([('(', ')'), ('<', '>')])
        return [o] + ts + [cl]

    def atom_toks(a):
        f = str(a.feature)
        return [a.base] + (['[', f, ']'] if f else [])

    def op(x):
        if isinstance(x, Atom):
            ts = atom_toks(x)
        else:
            ts = wrap(text(x))
        while rng.random() < 0.25:
            ts = wrap(ts)
        return ts

    def text(x):
        if isinstance(x, Atom):
            return op(x)
        ts = op(x.left) + [x.slash] + op(x.right)
        return ts
    ts = text(c)
    while top and rng.random() < 0.25:
        ts = wrap(ts)
    return ts


def join_blanks(rng, ts, p=0.3):
    out = []
    for i, t in enumerate(ts):
        if rng.random() < p:
            out.append(' ' * rng.randint(1, 3))
        out.append(t)
    if rng.random() < p:
        out.append(' ')
    return ''.join(out)


SOUP = ['S', 'NP', 'N', 'conj', ',', '(', ')', '<', '>', '/', '\\', '|', '[', ']', 'dcl', 'X', 'a=b,c=d,e=f', 'a=b,c', ' ', 'x=y', '*START*', 'a,b=c']


def token_soup(rng, n=8):
    return ''.join(rng.choice(SOUP) for _ in range(rng.randint(0, n)))


# ---- well-typedness of a value returned by Category.parse (Junk detection) -----------------------
def well_typed(x):
    if isinstance(x, Atom):
        if not isinstance(x.base, str):
            return False
        f = x.feature
        if isinstance(f, UnaryFeature):
            return f.value is None or isinstance(f.value, str)
        if isinstance(f, TernaryFeature):
            return all(isinstance(kv, tuple) and len(kv) == 2 and all(isinstance(s, str) for s in kv) for kv in (f.kv1, f.kv2, f.kv3))
        return False
    if isinstance(x, Functor):
        return isinstance(x.slash, str) and x.slash in ('/', '\\', '|') and well_typed(x.left) and well_typed(x.right)
    return False


# ---- the well-formedness predicate of the Coq development (CatFacts.wf), on Python values --------
SPECIAL9 = set('[]()/\\|<>')


def _allplain(t):
    return all(ch not in SPECIAL9 and ch != ' ' for ch in t)


def wf_py(c):
    if isinstance(c, Atom):
        b = c.base
        if not (isinstance(b, str) and b and _allplain(b)):
            return False
        f = c.feature
        if isinstance(f, UnaryFeature):
            if f.value is None:
                return True
            v = f.value
            return bool(v) and _allplain(v) and not ('=' in v and ',' in v) and b not in puncts()
        if isinstance(f, TernaryFeature):
            return b not in puncts() and all(_allplain(t) and '=' not in t and ',' not in t for kv in f.items() for t in kv)
        return False
    return c.slash in ('/', '\\', '|') and wf_py(c.left) and wf_py(c.right)


# ---- tokens and trees ---------------------------------------------------------------------------
WORD_POOL = ['He', 'runs', 'the', 'a', 'dog', '(', ')', '[', ']', '{', '}', '<', '>', '&', '"', "'", 'a/b', 'x<y', 'a>b', '<>', 'it\'s',
             '-LRB-', 'R&D', 'ü', '猫', 'カタカナ', 'é', 'a.b', ',', '.', ';', ':', '!', '?', '--', 'U.S.', '1,000', '50%', '=', 'x=y', '_', '*', '#1',
             'a(b', 'b)c', '((', '))', '&amp;', '<b>', 'é', 'naïve', 'Ω', '≤', 'a|b', '|', 'a_b', 'あ', 'word',
             # words that are not in Unicode normal form (decomposed kana / accents, compatibility ideograph, Angstrom sign, half-width kana)
             'か\u3099', 'cafe\u0301', '\ufa10', '\u212b', 'ｶﾞ', 'ｘ']


def rand_word(rng, plain=False):
    if plain or rng.random() < 0.5:
        return rng.choice(['He', 'runs', 'the', 'dog', 'cat', 'sees', 'big', 'and', 'Mary', 'quickly', 'of', 'in', '猫', 'が', '走る', 'naïve'])
    if rng.random() < 0.8:
        return rng.choice(WORD_POOL)
    alphabet = 'abcXYZ019()[]{}<>&"\'/|=,.;:!?-_*#%+~^`$@äßΩ猫あ'
    return ''.join(rng.choice(alphabet) for _ in range(rng.randint(1, 6)))


def rand_token(rng, lang='en', full=True, plain=False):
    from depccg.types import Token
    w = rand_word(rng, plain)
    if lang == 'en':
        if not full:
            return Token(word=w)
        return Token(word=w, lemma=rand_word(rng, plain).lower(), pos=rng.choice(['NN', 'VBZ', 'DT', 'JJ', ',', '.', '-LRB-', 'PRP$', 'X&Y']),
                     entity=rng.choice(['O', 'I-PER', 'B-ORG']), chunk=rng.choice(['I-NP', 'B-VP', 'O']))
    t = Token(word=w)
    if full:
        t['pos'] = rng.choice(['名詞', '動詞', '助詞', '*'])
        t['pos1'] = rng.choice(['一般', '自立', '*', '格助詞'])
        t['pos2'] = rng.choice(['*', '一般'])
        t['pos3'] = '*'
        t['inflectionType'] = rng.choice(['*', '五段・ラ行'])
        t['inflectionForm'] = rng.choice(['*', '基本形'])
        t['base'] = rand_word(rng, plain)
    return t


EN_LABELS = [('fa', '>'), ('ba', '<'), ('fc', '>B'), ('bx', '<B'), ('gfc', '>B'), ('gbx', '<B'), ('conj', '<Φ>'), ('lp', '<lp>'), ('rp', '<rp>'), ('lp', '<*>')]
JA_LABELS = [('fa', '>'), ('ba', '<'), ('fc', '>B'), ('bx', '<B1'), ('bx', '<B2'), ('bx', '<B3'), ('bx', '<B4'), ('fx', '>Bx1'), ('fx', '>Bx2'), ('fx', '>Bx3'), ('other', 'SSEQ')]
JA_UNARY = ['ADNext', 'ADNint', 'ADV0', 'ADV1', 'ADV2']


def rand_tree(rng, lang='en', nleaves=None, full_tokens=True, plain_words=False, cats=None, head=None):
    """an arbitrary well-formed tree (not necessarily grammar-licensed)"""
    from depccg.tree import Tree
    n = nleaves or rng.randint(1, 6)
    pool = cats or [Category.parse(s) for s in rng.sample(inventory('ja' if lang == 'ja' else 'en'), 12)]

    def leaf():
        return Tree.make_terminal(rand_token(rng, lang, full_tokens, plain_words), rng.choice(pool))

    def build(k):
        if k == 1:
            t = leaf()
        else:
            i = rng.randint(1, k - 1)
            l, r = build(i), build(k - i)
            ops, sym = rng.choice(JA_LABELS if lang == 'ja' else EN_LABELS)
            hl = (rng.random() < 0.5) if head is None else head
            t = Tree.make_binary(rng.choice(pool), l, r, ops, sym, hl)
        while rng.random() < 0.2:
            if lang == 'ja':
                u = rng.choice(JA_UNARY)
                t = Tree.make_unary(rng.choice(pool), t, u, u)
            else:
                t = Tree.make_unary(rng.choice(pool), t, rng.choice(['lex', 'tr']), '<un>')
        return t
    return build(n)


@functools.lru_cache(None)
def grammar(lang):
    """(binary, unary) rule functions of the real grammar with the shipped unary table, no seen-rule filter"""
    from depccg.grammar import en, ja
    g = ja if lang == 'ja' else en
    table = {}
    for k, v in model_file(f'unary_rules.{lang}.jsonnet'):
        table.setdefault(Category.parse(k), []).append(Category.parse(v))
    return g.apply_binary_rules, functools.partial(g.apply_unary_rules, unary_rules=table), table


def licensed_tree(rng, lang='en', nleaves=None, full_tokens=True, plain_words=False, tries=60):
    """a derivation built bottom-up with the real rule functions over the shipped lexicon; falls back to a smaller tree"""
    from depccg.tree import Tree
    binary, unary, table = grammar(lang)
    inv = [Category.parse(s) for s in inventory(lang)]
    n = nleaves or rng.randint(1, 6)

    def leaf(c):
        return Tree.make_terminal(rand_token(rng, lang, full_tokens, plain_words), c)

    def maybe_unary(t):
        if rng.random() < 0.4:
            rs = unary(t.cat)
            if rs:
                r = rng.choice(rs)
                return Tree.make_unary(r.cat, t, r.op_string, r.op_symbol)
        return t
    t = maybe_unary(leaf(rng.choice(inv)))
    k = 1
    while k < n:
        done = False
        for _ in range(tries):
            o = maybe_unary(leaf(rng.choice(inv)))
            left = rng.random() < 0.5
            l, r = (o, t) if left else (t, o)
            rs = binary(l.cat, r.cat)
            if rs:
                x = rng.choice(rs)
                t = maybe_unary(Tree.make_binary(x.cat, l, r, x.op_string, x.op_symbol, x.head_is_left))
                k += 1
                done = True
                break
        if not done:
            break
    return t


_CHAIN_MEMO = {}


def deep_chain(rng, lang='en', depth=200, full_tokens=True, plain_words=False):
    """a licensed derivation of `depth` binary steps in which every step adds ONE leaf to the tree built so far (right- or
    left-branching chain: the deepest derivations a sentence of depth+1 tokens can have)"""
    from depccg.tree import Tree
    binary, unary, table = grammar(lang)
    inv = [Category.parse(s) for s in inventory(lang)]

    def partners(c):
        k = (lang, str(c))
        if k not in _CHAIN_MEMO:
            out = []
            for m in inv:
                if len(str(m)) > 40:
                    continue
                for left in (True, False):
                    for r in (binary(m, c) if left else binary(c, m)):
                        if len(str(r.cat)) <= len(str(c)) + 2:      # keep the category from growing along the chain
                            out.append((m, left, r))
            _CHAIN_MEMO[k] = out
        return _CHAIN_MEMO[k]
    for _ in range(50):
        t = Tree.make_terminal(rand_token(rng, lang, full_tokens, plain_words), rng.choice(inv))
        k = 0
        while k < depth:
            ps = partners(t.cat)
            if not ps:
                break
            m, left, r = rng.choice(ps)
            o = Tree.make_terminal(rand_token(rng, lang, full_tokens, plain_words), m)
            l, rr = (o, t) if left else (t, o)
            t = Tree.make_binary(r.cat, l, rr, r.op_string, r.op_symbol, r.head_is_left)
            k += 1
        if k == depth:
            return t
    raise RuntimeError(f'no chain of depth {depth} over the {lang} lexicon')


def tree_sig(t):
    """structural signature used for distinctness counts"""
    if t.is_leaf:
        return ('L', str(t.cat), tuple(sorted(t.token.items())))
    return (len(t.children), str(t.cat), t.op_string, t.head_is_left) + tuple(tree_sig(c) for c in t.children)
