"""ctypes bridge to libdrv.so (the repository's real parsing.h compiled with harness/driver.cpp).

Used two ways: (1) as the runtime of the de-cythonized depccg/parsing.pyx (classes pair, cache_type, ...,
parse_sentence), so that depccg.parsing.run executes for real; (2) directly by the A* checks: `search()` runs
parse_sentence with Python rule callbacks, records every pop through the DEPCCG_VERIF hook and returns the goal items
as plain derivation structures."""
import ctypes as C, os, subprocess, numpy

_HERE = os.path.dirname(os.path.abspath(__file__))
_SO = os.environ.get('DEPCCG_DRV_OUT', os.path.join(_HERE, 'libdrv.so'))
subprocess.run(['bash', os.path.join(_HERE, 'build_driver.sh')], check=True)
_lib = C.CDLL(_SO)
UINT_MAX = 2**32 - 1
for n, r in [('item_fin', C.c_int), ('item_cat', C.c_uint), ('item_left', C.c_void_p), ('item_right', C.c_void_p), ('item_in', C.c_float), ('item_out', C.c_float),
             ('item_score', C.c_float), ('item_start', C.c_uint), ('item_len', C.c_uint), ('item_head', C.c_uint), ('item_rule', C.c_uint)]:
    f = getattr(_lib, n); f.restype = r; f.argtypes = [C.c_void_p]
_lib.cache_new.restype = C.c_void_p; _lib.cache_free.argtypes = [C.c_void_p]
_lib.cache_size.restype = C.c_uint; _lib.cache_size.argtypes = [C.c_void_p]
for n, r in [('cache_len', C.c_uint)]:
    getattr(_lib, n).restype = r; getattr(_lib, n).argtypes = [C.c_void_p, C.c_uint, C.c_uint]
for n, r in [('cache_op_string', C.c_char_p), ('cache_op_symbol', C.c_char_p), ('cache_head_is_left', C.c_int), ('cache_cat_id', C.c_uint)]:
    getattr(_lib, n).restype = r; getattr(_lib, n).argtypes = [C.c_void_p, C.c_uint, C.c_uint, C.c_uint]
_lib.results_push.argtypes = [C.c_void_p, C.c_uint, C.c_uint, C.c_int, C.c_char_p, C.c_char_p]
SCAF = C.CFUNCTYPE(C.c_int, C.c_void_p, C.c_uint, C.c_uint, C.c_void_p)
FINAL = C.CFUNCTYPE(C.c_uint, C.c_void_p, C.POINTER(C.c_uint), C.c_void_p, C.c_void_p)
_lib.run_parse.restype = C.c_int
_lib.run_parse.argtypes = [C.c_void_p, C.c_void_p, C.c_uint, C.POINTER(C.c_uint), C.c_uint, C.c_void_p, C.c_void_p, FINAL, SCAF, C.c_void_p, C.c_void_p,
                           C.c_uint, C.c_float, C.c_float, C.c_int, C.c_uint, C.c_uint, C.c_uint, C.POINTER(C.c_float), C.POINTER(C.c_uint)]
_lib.trace_enable.argtypes = [C.c_int]
_lib.trace_len.restype = C.c_uint
_lib.trace_get.argtypes = [C.c_uint, C.POINTER(C.c_int), C.POINTER(C.c_uint), C.POINTER(C.c_ulonglong), C.POINTER(C.c_ulonglong), C.POINTER(C.c_float), C.POINTER(C.c_float),
                           C.POINTER(C.c_uint), C.POINTER(C.c_uint), C.POINTER(C.c_uint), C.POINTER(C.c_uint), C.POINTER(C.c_ulonglong)]


def _u32(v): return int(v) % (1 << 32)


RECORD = None      # set to a list to record every item handed to the finalizer (glue-level checks)


class combinator_result:
    cat_id = 0; rule_id = 0; head_is_left = False; op_string = b''; op_symbol = b''


class pair:
    def __init__(self): object.__setattr__(self, '_d', {'first': 0, 'second': 0})
    def __setattr__(self, k, v): self._d[k] = _u32(v)
    def __getattr__(self, k): return self._d[k]


class unordered_set(set):
    def insert(self, v): self.add(_u32(v))


class config:
    """the C struct `config`: assigning a Python int to one of its `unsigned` fields goes through Cython's checked conversion, which raises
    OverflowError for a negative value and for a value that does not fit into 32 bits (it does not wrap)"""
    _UNSIGNED = ('num_tags', 'pruning_size', 'nbest', 'max_step')

    def __setattr__(self, k, v):
        if k in self._UNSIGNED and isinstance(v, int) and not isinstance(v, bool):
            if v < 0:
                raise OverflowError("can't convert negative value to unsigned int")
            if v >= (1 << 32):
                raise OverflowError('Python int too large to convert to C unsigned int')
        object.__setattr__(self, k, v)


class _Vec:            # vector[combinator_result]* handed to scaffold
    def __init__(self, p): self.p = p
    def push_back(self, c): _lib.results_push(self.p, _u32(c.cat_id), _u32(c.rule_id), int(bool(c.head_is_left)), bytes(c.op_string), bytes(c.op_symbol))


class _CR:
    def __init__(self, c, a, b, i):
        self.op_string = _lib.cache_op_string(c, a, b, i); self.op_symbol = _lib.cache_op_symbol(c, a, b, i)
        self.head_is_left = bool(_lib.cache_head_is_left(c, a, b, i)); self.cat_id = _lib.cache_cat_id(c, a, b, i)


class _CVec:
    def __init__(self, c, key): self.c, self.key = c, key
    def __len__(self): return _lib.cache_len(self.c, self.key.first, self.key.second)
    def __getitem__(self, i):
        n = _lib.cache_len(self.c, self.key.first, self.key.second)
        if not 0 <= i < n:
            raise IndexError(f'verif-rt: vector index {i} out of range {n} (undefined behaviour in C++)')
        return _CR(self.c, self.key.first, self.key.second, i)


class _CMap:
    def __init__(self, c): self.c = c
    def __getitem__(self, key): return _CVec(self.c, key)


class cache_type:
    def __init__(self, p=None): self.p = p if p is not None else _lib.cache_new(); self.own = p is None
    def __getitem__(self, i): assert i == 0; return _CMap(self.p)
    def __len__(self): return _lib.cache_size(self.p)
    def __del__(self):
        if self.own:
            _lib.cache_free(self.p)


class _Item:
    def __init__(self, p): self.p = p
    fin = property(lambda s: bool(_lib.item_fin(s.p))); cat = property(lambda s: _lib.item_cat(s.p))
    left = property(lambda s: (lambda q: _Item(q) if q else None)(_lib.item_left(s.p)))
    right = property(lambda s: (lambda q: _Item(q) if q else None)(_lib.item_right(s.p)))
    in_score = property(lambda s: _lib.item_in(s.p)); out_score = property(lambda s: _lib.item_out(s.p))
    start_of_span = property(lambda s: _lib.item_start(s.p)); span_length = property(lambda s: _lib.item_len(s.p))
    head_id = property(lambda s: _lib.item_head(s.p)); rule_id = property(lambda s: _lib.item_rule(s.p))
    def score(self): return _lib.item_score(self.p)


def _buf(mv):
    mv = memoryview(mv)
    if mv.format != 'f' or mv.ndim != 2 or not mv.c_contiguous:
        raise ValueError('Buffer dtype mismatch / not C-contiguous float32 2-D (Cython typed buffer check)')
    return numpy.frombuffer(mv, dtype=numpy.float32).ctypes.data


def parse_sentence(tag, dep, length, roots, bcb, ucb, finalizer, scaffold, fargs, cache, cfg):
    err = []

    def sc(cb, x, y, res):
        try:
            return scaffold(bcb if y != UINT_MAX else ucb, x, y, _Vec(res))
        except BaseException as e:
            err.append(e); return -1

    def fin(item, tok, c, a):
        try:
            if RECORD is not None:
                nd = _node(_Item(item))
                RECORD.append({'node': nd, 'cached': _cached_for(nd, c), 'fargs': fargs})
            return _u32(finalizer(_Item(item), tok, cache_type(c), fargs))
        except BaseException as e:
            err.append(e); return 0
    rs = (C.c_uint * len(roots))(*sorted(roots))
    fout, uout = (C.c_float * 2)(), (C.c_uint * 5)()
    st = _lib.run_parse(_buf(tag), _buf(dep), _u32(length), rs, len(roots), None, None, FINAL(fin), SCAF(sc), None, cache.p,
                        _u32(cfg.num_tags), cfg.unary_penalty, cfg.beta, int(bool(cfg.use_beta)), _u32(cfg.pruning_size), _u32(cfg.nbest), _u32(cfg.max_step),
                        fout, uout)
    # the config struct is shared by the sentences of one call (parsing.pyx passes &c_config): keep what the C++ left in it
    cfg.unary_penalty, cfg.beta = fout[0], fout[1]
    cfg.num_tags, cfg.use_beta, cfg.pruning_size, cfg.nbest, cfg.max_step = uout[0], bool(uout[1]), uout[2], uout[3], uout[4]
    if err:
        raise err[0]
    if st < 0:
        raise RuntimeError('some error has occurred in the callback Python function.')
    return st


# ---- direct use by the A* checks ---------------------------------------------------------------------
def _node(it):
    """plain structure of an item and everything below it"""
    return {'fin': it.fin, 'cat': it.cat, 'in': it.in_score, 'out': it.out_score, 'start': it.start_of_span, 'len': it.span_length,
            'head': it.head_id, 'rule': it.rule_id,
            'left': _node(it.left) if it.left is not None else None, 'right': _node(it.right) if it.right is not None else None}


def _cached_for(nd, c):
    """the cached rule results for every (children ids) key the item tree uses, copied out while the cache is alive"""
    out = {}

    def walk(x):
        if x is None:
            return
        if x['fin']:
            return walk(x['left'])
        if x['left'] is not None:
            key = (x['left']['cat'], x['right']['cat'] if x['right'] is not None else UINT_MAX)
            if key not in out:
                n_ = _lib.cache_len(c, key[0], key[1])
                out[key] = [(_lib.cache_cat_id(c, key[0], key[1], i), _lib.cache_op_string(c, key[0], key[1], i).decode('utf-8'),
                             _lib.cache_op_symbol(c, key[0], key[1], i).decode('utf-8'), bool(_lib.cache_head_is_left(c, key[0], key[1], i))) for i in range(n_)]
            walk(x['left']); walk(x['right'])
    walk(nd)
    return out


def read_trace():
    n = _lib.trace_len()
    out = []
    fin = C.c_int(); cat = C.c_uint(); l = C.c_ulonglong(); r = C.c_ulonglong(); i_ = C.c_float(); o_ = C.c_float()
    s = C.c_uint(); ln = C.c_uint(); h = C.c_uint(); ru = C.c_uint(); st = C.c_ulonglong()
    for k in range(n):
        _lib.trace_get(k, fin, cat, l, r, i_, o_, s, ln, h, ru, st)
        out.append({'fin': bool(fin.value), 'cat': cat.value, 'left': l.value, 'right': r.value, 'in': i_.value, 'out': o_.value,
                    'start': s.value, 'len': ln.value, 'head': h.value, 'rule': ru.value, 'stored': st.value})
    return out


def search(tag, dep, roots, binary, unary, *, unary_penalty=0.0, beta=1e-5, use_beta=False, pruning_size=50, nbest=1, max_step=10000000, trace=True):
    """run parse_sentence of the real header.  binary(x, y) / unary(x) -> list of (cat_id, head_is_left, op_string, op_symbol);
    returns {'status', 'goals': [node...] in finalizer order, 'trace': [...], 'calls': {(x, y): results}}"""
    tag = numpy.ascontiguousarray(tag, dtype=numpy.float32); dep = numpy.ascontiguousarray(dep, dtype=numpy.float32)
    n, ntags = tag.shape
    assert dep.shape == (n, n + 1)
    calls = {}
    goals = []

    def scaffold(cb, x, y, vec):
        rs = list(binary(x, y)) if y != UINT_MAX else list(unary(x))
        calls[(x, y)] = rs
        for k, (cid, hl, a, b) in enumerate(rs):
            c = combinator_result(); c.cat_id = cid; c.rule_id = k; c.head_is_left = hl; c.op_string = a.encode('utf-8'); c.op_symbol = b.encode('utf-8')
            vec.push_back(c)
        return 0

    def finalizer(item, tok, cache, args):
        goals.append(_node(item)); return 0
    cfg = config(); cfg.num_tags = ntags; cfg.unary_penalty = unary_penalty; cfg.beta = beta; cfg.use_beta = use_beta
    cfg.pruning_size = pruning_size; cfg.nbest = nbest; cfg.max_step = max_step
    cache = cache_type()
    _lib.trace_enable(1 if trace else 0)
    try:
        st = parse_sentence(tag, dep, n, set(roots), 'b', 'u', finalizer, scaffold, None, cache, cfg)
        tr = read_trace() if trace else []
    finally:
        _lib.trace_enable(0)
    return {'status': st, 'goals': goals, 'trace': tr, 'calls': calls}
