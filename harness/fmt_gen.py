"""C07 - batches of derivations: sentences x n-best, the n-best trees of a sentence over the same tokens."""
import gen
from depccg.cat import Category
from depccg.tree import Tree, ScoredTree
from depccg.types import Token

PROBE_WORDS = ['<!--', '-->', '<!--x-->', '</p>', '<math>', '</math>', '<p>', '<![CDATA[', ']]>', '&lt;', '&#60;', '&amp;amp;', "'", "''", '"', "it's",
               '(', ')', '{', '}', '[', ']', '-LRB-', '-RRB-', '-LCB-', '-RSB-', '<', '>', '<>', '><', 'a<b>c', '--', '---', '-', '_', '*', '/', '//', 'a/b/c',
               '|', '}}', '{{', '}/}', '))', '((', ')(', '(<L', '(<T', '>)', 'N>)', ')', 'ID=7,', 'ID=7:', '#', '#ID=3', 'é́', '猫', '\U0001F600', 'XX', 'POS', '_', 'lex',
               't(', "')", "',", 'ccg(1,', '.', ',', ';', ':']
PROBE_POS = ["''", '``', "'", 'PRP$', ',', '.', ':', '-LRB-', 'X&Y', '<', '"']


EXTRA_CATS = {'en': [',', '.', ';', ':', 'conj', 'LRB', 'RRB', 'S|NP', '(S[dcl]|NP)/NP', 'N|(N|N)', '(S\\NP)|(S[b]\\NP)', 'NP[nb]/N', 'S[X]/S[X]'],
              'ja': ['S[mod=nm,form=base,fin=f]|NP[case=ga,mod=nm,fin=f]', 'S', 'NP', 'S[mod=X1,form=X2,fin=X3]/S[mod=X1,form=X2,fin=X3]']}


def pool(rng, lang, k=12):
    """categories of the shipped inventory plus punctuation / '|' / variable-feature categories"""
    return [Category.parse(s) for s in rng.sample(gen.inventory(lang), k) + rng.sample(EXTRA_CATS[lang], min(3, len(EXTRA_CATS[lang])))]


def labels(lang):
    return gen.JA_LABELS if lang == 'ja' else gen.EN_LABELS


def unary_over(rng, lang, cats, t):
    while rng.random() < 0.2:
        if lang == 'ja':
            u = rng.choice(gen.JA_UNARY)
            t = Tree.make_unary(rng.choice(cats), t, u, u)
        else:
            t = Tree.make_unary(rng.choice(cats), t, rng.choice(['lex', 'tr']), '<un>')
    return t


def rand_over(rng, lang, tokens, cats):
    """an arbitrary well-formed tree over the given tokens"""
    def build(toks):
        if len(toks) == 1:
            t = Tree.make_terminal(toks[0], rng.choice(cats))
        else:
            i = rng.randint(1, len(toks) - 1)
            ops, sym = rng.choice(labels(lang))
            t = Tree.make_binary(rng.choice(cats), build(toks[:i]), build(toks[i:]), ops, sym, rng.random() < 0.5)
        return unary_over(rng, lang, cats, t)
    return build(list(tokens))


def relabel(rng, lang, t, cats, p=0.5):
    """same tokens and bracketing, some categories / labels / head flags changed, unary steps added or removed"""
    def rec(n):
        c = rng.choice(cats) if rng.random() < p else n.cat
        if n.is_leaf:
            return Tree.make_terminal(n.token, c)
        if len(n.children) == 1:
            if rng.random() < 0.2:
                return rec(n.children[0])
            return Tree.make_unary(c, rec(n.children[0]), n.op_string, n.op_symbol)
        ops, sym = rng.choice(labels(lang)) if rng.random() < p else (n.op_string, n.op_symbol)
        hl = (not n.head_is_left) if rng.random() < p else n.head_is_left
        return unary_over(rng, lang, cats, Tree.make_binary(c, rec(n.children[0]), rec(n.children[1]), ops, sym, hl)) if rng.random() < 0.3 \
            else Tree.make_binary(c, rec(n.children[0]), rec(n.children[1]), ops, sym, hl)
    return rec(t)


def rand_score(rng):
    return -rng.randint(0, 4000) / 64.0


def make_sentence(rng, lang, nbest, full=None, kind=None, nleaves=None):
    full = (rng.random() < 0.6) if full is None else full
    kind = kind or rng.choice(['licensed', 'licensed', 'random'])
    n = nleaves or rng.choice([1, 1, 2, 2, 3, 3, 4, 5, 6, 7])
    cats = pool(rng, lang)
    if kind == 'licensed':
        first = gen.licensed_tree(rng, lang, nleaves=n, full_tokens=full)
    else:
        first = gen.rand_tree(rng, lang, nleaves=n, full_tokens=full, cats=cats)
    toks = first.tokens
    trees = [first]
    while len(trees) < nbest:
        if rng.random() < 0.5:
            trees.append(rand_over(rng, lang, toks, cats))
        else:
            trees.append(relabel(rng, lang, rng.choice(trees), cats))
    return [ScoredTree(t, rand_score(rng)) for t in trees], kind


def make_batch(rng, lang, nsent=None, nbest=None):
    nsent = nsent or rng.randint(1, 4)
    out, kinds = [], []
    for _ in range(nsent):
        s, kind = make_sentence(rng, lang, nbest or rng.randint(1, 3))
        out.append(s)
        kinds.append(kind)
    return out, kinds


def probe_batches(rng, lang):
    """sentences built around words / tags that are awkward for one of the formats"""
    cats = pool(rng, lang)
    out = []
    for w in PROBE_WORDS:
        for full in (False, True):
            toks = []
            for x in rng.sample([w, gen.rand_word(rng), w], rng.randint(1, 3)):
                t = gen.rand_token(rng, lang, full)
                t['word'] = x
                toks.append(t)
            trees = [rand_over(rng, lang, toks, cats) for _ in range(rng.randint(1, 2))]
            out.append([[ScoredTree(t, rand_score(rng)) for t in trees]])
    if lang == 'en':
        for p in PROBE_POS:
            toks = [Token(word=gen.rand_word(rng), lemma=rng.choice(["o'clock", "'s", 'x']), pos=p, entity=rng.choice(["O'Neil", 'O']), chunk=rng.choice(["I-'", 'O']))
                    for _ in range(rng.randint(1, 3))]
            out.append([[ScoredTree(rand_over(rng, lang, toks, cats), rand_score(rng))]])
    return out
