"""C07 - correspondence cases for the Prolog printers (coq/FmtProlog.v against depccg/printer/prolog.py), used by props/c07.py.

Every case is one Gallina term of type bool:
  tree level   the model's text == what the real printer wrote (exactly; exceptions -> None), and - inside the domain of the round-trip
               theorems (pl_okb_en / pl_okb_ja) - the model's token-level READER run on the REAL text gives the expected view;
  batch level  prolog_en_doc / prolog_ja_doc == depccg.printer.to_string(batch, format='prolog'), header lines included (the model's header is the
               generated GenFmt.prolog_header_src), and both document readers on the REAL text: dec_prolog_doc (header stripped as a text) and
               FmtPrologHeader.dec_prolog_doc_h (header read: its declarations must be those of the format).
Domain of the model (stated in FmtProlog.v): str.lower() one character at a time from the interpreter's own table (GenFmt.py_lower_table), i.e.
everything but context-dependent lower-casing (U+03A3, final sigma).  `in_lower_domain` tests with the real str.lower() that the category names
of a tree are lower-cased character by character; trees outside are not compared (counted by the caller).
"""
import os
import sys
sys.path.insert(0, os.path.join(os.path.dirname(os.path.dirname(os.path.abspath(__file__))), 'translate'))
import env
from gallina import lit, gtree, gopt, glist, gnat

PRE_PROLOG = '''From Coq Require Import List NArith ZArith Bool Arith.
Import ListNotations.
Require Import Cat CatFacts Tree Fmt FmtProlog FmtPrologHeader.
Open Scope N_scope.
Definition otext_eqb_p (a b : option text) : bool := match a, b with Some x, Some y => text_eqb x y | None, None => true | _, _ => false end.
Fixpoint view_eqb_p {L : Type} (e : L -> L -> bool) (a b : view L) : bool :=
  match a, b with
  | VLeaf c x, VLeaf d y => cat_eqb c d && e x y
  | VUn c l v, VUn d m w => cat_eqb c d && text_eqb l m && view_eqb_p e v w
  | VBin c l h v1 v2, VBin d m k w1 w2 => cat_eqb c d && text_eqb l m && Bool.eqb h k && view_eqb_p e v1 w1 && view_eqb_p e v2 w2
  | _, _ => false
  end.
Definition tok5_eqb_p (a b : tok5) : bool :=
  let '(a1, a2, a3, a4, a5) := a in let '(b1, b2, b3, b4, b5) := b in
  text_eqb a1 b1 && text_eqb a2 b2 && text_eqb a3 b3 && text_eqb a4 b4 && text_eqb a5 b5.
Definition clause_eqb (a b : option (text * view tok5)) : bool :=
  match a, b with
  | Some (k, v), Some (k', v') => text_eqb k k' && view_eqb_p tok5_eqb_p v v'
  | None, None => true
  | _, _ => false
  end.
(* e = the real printer's text for the tree under sentence number k *)
Definition ChkPlEn (k : nat) (t : tree) (e : option text) : bool :=
  otext_eqb_p (print_prolog_en k t) e &&
  match e with
  | Some txt => if pl_okb_en t then clause_eqb (dec_prolog_en txt) (option_map (fun v => (show_nat k, v)) (view_prolog_en t)) && en_table_ok else true
  | None => true
  end.
Definition ChkPlJa (k : nat) (t : tree) (e : option text) : bool :=
  otext_eqb_p (print_prolog_ja k t) e &&
  match e with
  | Some txt => if pl_okb_ja t then clause_eqb (dec_prolog_ja txt) (option_map (fun v => (show_nat k, v)) (view_prolog_ja t)) && ja_table_ok else true
  | None => true
  end.
Fixpoint list_eqb_p {A : Type} (e : A -> A -> bool) (a b : list A) : bool :=
  match a, b with [], [] => true | x :: a', y :: b' => e x y && list_eqb_p e a' b' | _, _ => false end.
Definition doc_eqb (a b : option (list (text * view tok5))) : bool :=
  match a, b with
  | Some x, Some y => list_eqb_p (fun p q => text_eqb (fst p) (fst q) && view_eqb_p tok5_eqb_p (snd p) (snd q)) x y
  | None, None => true
  | _, _ => false
  end.
(* the model's document == the real one; the header of the REAL text reads as the declarations of the format (whatever the trees are); and - when
   every tree is inside pl_okb_* - both document readers on the REAL text give the records *)
Definition hdr_okb (txt : text) : bool :=
  match dec_prolog_header txt with Some (ds, _) => decls_eqb ds prolog_decls | None => false end.
Definition ChkPlDocEnL (b : list (list tree)) (e : option text) : list bool :=
  [otext_eqb_p (prolog_en_doc b) e;
   match e with Some txt => if forallb (forallb pl_okb_en) b then doc_eqb (dec_prolog_doc dec_en txt) (doc_views view_prolog_en b) else true | None => true end;
   match e with Some txt => hdr_okb txt | None => true end;
   match e with Some txt => if forallb (forallb pl_okb_en) b then doc_eqb (dec_prolog_doc_h dec_en txt) (doc_views view_prolog_en b) else true | None => true end].
Definition ChkPlDocJaL (b : list (list tree)) (e : option text) : list bool :=
  [otext_eqb_p (prolog_ja_doc b) e;
   match e with Some txt => if forallb (forallb pl_okb_ja) b then doc_eqb (dec_prolog_doc dec_ja txt) (doc_views view_prolog_ja b) else true | None => true end;
   match e with Some txt => hdr_okb txt | None => true end;
   match e with Some txt => if forallb (forallb pl_okb_ja) b then doc_eqb (dec_prolog_doc_h dec_ja txt) (doc_views view_prolog_ja b) else true | None => true end].
Definition ChkPlDocEn (b : list (list tree)) (e : option text) : bool := forallb (fun x => x) (ChkPlDocEnL b e).
Definition ChkPlDocJa (b : list (list tree)) (e : option text) : bool := forallb (fun x => x) (ChkPlDocJaL b e).
'''

ERRORS = (KeyError, IndexError, AssertionError, AttributeError)


def attempt(f, *a, **k):
    try:
        return f(*a, **k)
    except ERRORS:
        return None


def ascii_lower(s):
    return ''.join(chr(ord(c) + 32) if 'A' <= c <= 'Z' else c for c in s)


def _atoms(c):
    if c.is_functor:
        yield from _atoms(c.left)
        yield from _atoms(c.right)
    else:
        yield c


def _nodes(t):
    yield t
    if not t.is_leaf:
        for c in t.children:
            yield from _nodes(c)


CONTEXTUAL = '\u03a3'      # the code point whose lower-casing depends on its neighbours (GenFmt.py_lower_contextual, found by probing the interpreter)


def charwise_lower(x):
    return ''.join(ch.lower() for ch in x)


def in_lower_domain(t):
    """str.lower() works one character at a time on every text the printers lower-case (category base names, Japanese `case` values):
    no context-dependent character, and the real result is the character-wise one"""
    from depccg.cat import TernaryFeature
    for n in _nodes(t):
        for a in _atoms(n.cat):
            texts = [a.base]
            if isinstance(a.feature, TernaryFeature):
                texts += [v for _, v in a.feature.items()]
            for x in texts:
                if any(c in x for c in CONTEXTUAL) or x.lower() != charwise_lower(x):
                    return False
    return True


def real_en(t, k):
    from depccg.printer.prolog import _prolog_string
    return attempt(_prolog_string, t, k)


def real_ja(t, k):
    """to_prolog_ja has no per-tree function: print a batch whose k-th sentence holds the tree and strip the header
    (the header is compared by the batch-level cases)"""
    from depccg.printer.prolog import to_prolog_ja, _prolog_header
    from depccg.tree import ScoredTree
    out = attempt(to_prolog_ja, [[]] * (k - 1) + [[ScoredTree(t, 0.0)]])
    if out is None:
        return None
    assert out.startswith(_prolog_header + '\n')
    return out[len(_prolog_header) + 1:]


def tree_case(t, lang, k=1):
    """-> Gallina bool term, or None when the tree is outside the model's lower-casing domain"""
    if not in_lower_domain(t):
        return None
    if lang == 'en':
        return f'ChkPlEn {gnat(k)} {gtree(t)} {gopt(real_en(t, k), lit)}'
    return f'ChkPlJa {gnat(k)} {gtree(t)} {gopt(real_ja(t, k), lit)}'


def batch_case(batch, lang):
    """batch: [[ScoredTree,...],...] (may be empty / hold empty sentences); the global language must be `lang`"""
    from depccg.printer import to_string
    if any(not in_lower_domain(st.tree) for trees in batch for st in trees):
        return None
    out = attempt(to_string, batch, format='prolog')
    gb = glist(batch, lambda trees: glist(trees, lambda st: gtree(st.tree)))
    return f'{"ChkPlDocEn" if lang == "en" else "ChkPlDocJa"} {gb} {gopt(out, lit)}'


# ---- extra inputs aimed at the printers' branches --------------------------------------------------
def special_trees(rng, lang, n):
    """trees exercising: the conj / conj2 / lp wrappers over functor and atomic categories, labels outside the tables, quotes in every
    quoted field, punctuation categories, Japanese `case` features in every position, tokens without a word"""
    import gen
    import fmt_gen
    from depccg.cat import Category
    from depccg.tree import Tree
    from depccg.types import Token
    out = []
    if lang == 'en':
        cats = [Category.parse(s) for s in ['NP', 'N', 'S[dcl]\\NP', '(S[dcl]\\NP)/NP', 'conj', ',', '.', ':', ';', 'NP\\NP', '(NP\\NP)/(NP\\NP)', 'S[X]/S[X]', 'LRB', 'N|N', 'PP']]
        labels = [('fa', '>'), ('ba', '<'), ('fx', '>Bx'), ('fc', '>B'), ('bx', '<Bx'), ('gfc', '>B2'), ('gbx', '<Bx2'), ('rp', '<rp>'), ('lp', '<lp>'),
                  ('conj', '<Φ>'), ('conj2', '<Φ>'), ('conj', '<Φ>'), ('conj2', '<Φ>'), ('lp', '<lp>'), ('tr', '>T'), ('other', 'x'), ('', '')]
        words = ["it's", "'", "''", "a'b'", 'dog', ',', 'U.S.', '(', "')", "',", 'ccg(1,', 't(', 'x y', 'a\\b', '\\', "\\'"]
    else:
        cats = [Category.parse(s) for s in ['S[mod=nm,form=base,fin=f]', 'NP[case=ga,mod=nm,fin=f]', 'NP[case=nc,mod=nm,fin=f]', 'S[mod=nm,form=base,fin=t]\\NP[case=ga,mod=nm,fin=f]',
                                            'NP[mod=nm,case=o,fin=f]', 'NP[mod=nm,fin=f,case=ni]', 'NP[case=GA,mod=nm,case=To]', 'S', 'NP', 'NP[x]', 'S[mod=X1,form=X2,fin=X3]/S[mod=X1,form=X2,fin=X3]', 'NP[case=X1,mod=X2,fin=f]']]
        labels = gen.JA_LABELS + [('x', 'OTHER'), ('x', '<B'), ('x', 'lex'), ('x', '')]
        words = ["it's", "'", '猫', 'が', '*', "a'b", '/', 'a/b', 'a\\b', '\\']
    for _ in range(n):
        nl = rng.randint(1, 4)
        toks = []
        for _ in range(nl):
            tk = gen.rand_token(rng, lang, rng.random() < 0.6)
            if rng.random() < 0.5:
                tk['word'] = rng.choice(words)
            if rng.random() < 0.3:
                key = rng.choice(['lemma', 'pos', 'chunk', 'entity'] if lang == 'en' else ['surf', 'base', 'pos', 'pos1', 'pos2', 'pos3', 'inflectionForm', 'inflectionType'])
                tk[key] = rng.choice(words)
            if rng.random() < 0.04:
                del tk['word']
            toks.append(tk)

        def build(ts):
            if len(ts) == 1:
                t = Tree.make_terminal(ts[0], rng.choice(cats))
            else:
                i = rng.randint(1, len(ts) - 1)
                ops, sym = rng.choice(labels)
                t = Tree.make_binary(rng.choice(cats), build(ts[:i]), build(ts[i:]), ops, sym, rng.random() < 0.5)
            while rng.random() < 0.2:
                if lang == 'ja':
                    u = rng.choice(gen.JA_UNARY + ['<un>'])
                    t = Tree.make_unary(rng.choice(cats), t, u, u)
                else:
                    t = Tree.make_unary(rng.choice(cats), t, rng.choice(['lex', 'tr']), '<un>')
            return t
        out.append(build(toks))
    # category names beyond ASCII: caseless scripts, cased non-ASCII letters (Latin-1, Greek, Cyrillic, a titlecase digraph, U+0130 whose lower
    # case has two code points, U+1E9E -> U+00DF, a Deseret capital beyond the BMP); names with U+03A3 are outside the model (tree_case returns
    # None for them; the caller counts them)
    for name in ('\u30ab', '\u732bx', '\u00c9a', 'S\u00c9', '\u0130x', 'N\u01c5', '\u03a9\u0416z', '\u1e9ePP', '\U00010400q', 'A\u03a3', '\u03a3b'):
        c = Category.parse(name)
        out.append(Tree.make_unary(rng.choice(cats), Tree.make_terminal(gen.rand_token(rng, lang, False), c), 'lex' if lang == 'en' else 'ADNint', '<un>' if lang == 'en' else 'ADNint'))
    return out


if __name__ == '__main__':
    # self-test: cd /verif/harness && PYTHONHASHSEED=0 /venv/bin/python -B fmt_prolog_cases.py
    import os, random, re, subprocess, sys, time
    import env
    import gen
    import fmt_gen
    from depccg.lang import set_global_language_to
    from depccg.tree import ScoredTree
    rng = random.Random(int(sys.argv[1]) if len(sys.argv) > 1 else 7)
    cases, descr, skipped = [], [], 0
    for lang in ('en', 'ja'):
        set_global_language_to(lang)
        trees = special_trees(rng, lang, 150)
        batches = []
        for _ in range(40):
            b, _k = fmt_gen.make_batch(rng, lang)
            batches.append(b)
            trees += [st.tree for ts in b for st in ts]
        for t in trees:
            c = tree_case(t, lang, rng.randint(1, 12))
            if c is None:
                skipped += 1
                continue
            cases.append(c)
            descr.append((lang, repr(gen.tree_sig(t))[:300]))
        for b in batches + [[], [[]], [[ScoredTree(trees[0], -1.0)], []]]:
            c = batch_case(b, lang)
            if c is not None:
                cases.append(c)
                descr.append((lang, 'batch', [len(x) for x in b]))
    work = os.path.join(env.WORK, 'C07prolog')
    os.makedirs(work, exist_ok=True)
    fn = os.path.join(work, 'Cases_selftest.v')
    with open(fn, 'w') as f:
        f.write(PRE_PROLOG + '\nDefinition cases_ : list bool := [\n' + ';\n'.join(cases) + '].\n')
        f.write('Fixpoint mism_ (k : nat) (cs : list bool) : list nat := match cs with nil => nil | c :: r => if c then mism_ (S k) r else k :: mism_ (S k) r end.\n')
        f.write('Eval vm_compute in (mism_ 0%nat cases_).\n')
    t0 = time.time()
    p = subprocess.run(['timeout', '900', env.COQC, '-R', env.COQ, 'Depccg', '-Q', work, 'WC07prolog', fn], capture_output=True, text=True)
    m = re.search(r'=\s*(\[[^\]]*\]|nil)\s*:\s*list nat', p.stdout.replace('\n', ' '))
    print(f'{len(cases)} cases, {skipped} outside the lower-casing domain, {time.time() - t0:.1f}s, rc={p.returncode}')
    print('mismatches:', m.group(1) if m else (p.stdout + p.stderr)[-3000:])
    if m and m.group(1) not in ('nil', '[]'):
        for i in [int(x) for x in re.findall(r'\d+', m.group(1))][:5]:
            print(i, descr[i])
            print('   ', cases[i][:1500])
