"""C20 - PTB and Japanese-bank text written by depccg reads back to the same tree."""
import locale, os, re, shutil, signal, sys, tempfile
import gen
from c20_ser import lit, gcat, gopt, gtree, gtoken, gtokens, gbool, PREAMBLE_T
import depccg.lang
from depccg.cat import Category
from depccg.tree import Tree
from depccg.types import Token
from depccg.utils import normalize
from depccg.printer.ptb import ptb_of
from depccg.printer.ja import ja_of
from depccg.tools import reader as en_reader
from depccg.tools.ja import reader as ja_reader
from depccg.grammar import guess_combinator_by_triplet, en as en_grammar

PRE = '''From Coq Require Import List NArith Bool.
Import ListNotations.
Require Import Cat CatFacts Tree Ptb JaBank P_C20.
''' + PREAMBLE_T + '''Open Scope N_scope.
Definition PP (t : tree) (e : option text) : bool := otext_eqb (print_ptb t) e.
Definition PJ (t : tree) (e : option text) : bool := otext_eqb (P_C20.print_ja t) e.
Definition RP (tb : guess_table) (l : text) (e : option tree) : bool := otree_eqb (P_C20.read_ptb (guess_of tb) l) e.
Definition RJ (l : text) (e : option (tree * list token)) : bool := ojares_eqb (P_C20.read_ja l) e.
Definition CP (tb : guess_table) (t r : tree) : bool := tree_eqb (canon_ptb (guess_of tb) t) r.
Definition CJ (t r : tree) (ts : list token) : bool := tree_eqb (P_C20.canon_ja t) r && tokens_eqb (P_C20.tokens_ja t) ts.
(* one printed tree inside the oracle's domain: it satisfies the hypothesis of the theorems; printer string, reader result,
   canonical form (each large term is written once) *)
Definition P3 (tb : guess_table) (t : tree) (l : text) (r : tree) : bool := P_C20.wf_ptbb t && PP t (Some l) && RP tb l (Some r) && CP tb t r.
Definition J5 (t : tree) (l : text) (r : tree) (ts : list token) (a1 a2 : text) : bool :=
  P_C20.wf_jab t && PJ t (Some l) && RJ l (Some (r, ts)) && CJ t r ts && RJ a1 (Some (r, ts)) && RJ a2 (Some (r, ts)).
'''

# the one symbol grammar/ja.py can emit (_unary_rule_symbol, for a unary rule whose argument is neither mod=adn nor mod=adv) that the
# reader's `combinators` set lacks: such a node is read as a leaf (theorem C20_ja_symbol_OTHER_refuted); outside the domain, reported
JA_SYMBOL_OUTSIDE = 'OTHER'
PTB_COLLISION = re.compile(r'[-()](LRB|RRB)[-()]')    # spellings that collide with the -LRB-/-RRB- escape convention
JA_FIELD_KEYS = ('pos', 'pos1', 'pos2', 'pos3', 'inflectionForm', 'inflectionType')


class Hang(BaseException):
    pass


def _alarm(signum, frame):
    raise Hang()


def guarded(f, *a, limit=0.5):
    """run f; ('ok', value) | ('err', exception name); a run that burns more than `limit` seconds of CPU time counts as an error
    (hang).  CPU time, not wall time: a heavily loaded machine must not turn a correct read into a 'hang'."""
    old = signal.signal(signal.SIGPROF, _alarm)
    signal.setitimer(signal.ITIMER_PROF, limit)
    try:
        return 'ok', f(*a)
    except Hang:
        return 'err', 'Hang'
    except Exception as e:      # noqa
        return 'err', type(e).__name__
    finally:
        signal.setitimer(signal.ITIMER_PROF, 0)
        signal.signal(signal.SIGPROF, old)


class _CachedCategory:
    """Category with a memoised parse (gen.licensed_tree re-parses the whole inventory on every call)"""
    _memo = {}

    @staticmethod
    def parse(text):
        c = _CachedCategory._memo.get(text)
        if c is None:
            c = _CachedCategory._memo[text] = Category.parse(text)
        return c


def cached_generator(f):
    def g(*a, **k):
        old = gen.Category
        gen.Category = _CachedCategory
        try:
            return f(*a, **k)
        finally:
            gen.Category = old
    return g


def tree_well_typed(t):
    if not isinstance(t, Tree) or not gen.well_typed(t.cat) or not isinstance(t.op_string, str) or not isinstance(t.op_symbol, str):
        return False
    ch = t.children
    if len(ch) == 1 and isinstance(ch[0], Token):
        return all(isinstance(k, str) and isinstance(v, str) for k, v in ch[0].items())
    return len(ch) in (1, 2) and all(tree_well_typed(c) for c in ch)


def set_lang(lang):
    if depccg.lang.get_global_language() != lang:
        depccg.lang.set_global_language_to(lang)


# ---- words of the property's quantifier ---------------------------------------------------------
BRACKET_WORDS = ['(', ')', '((', '))', '()', ')(', 'a(b', 'b)c', '(x)', 'f(x)', ')x(', '-(', ')-', 'LRB', 'RRB', '-LRB', 'RRB-', 'L(R)B',
                 '[', ']', '<', '>', '&', '"', "'", '*', '--', 'U.S.', '1,000', 'x=y', 'a_b', '_', 'a|b', '-LCB-', '-LSB-', '-RSB-']


def rand_printable(rng, n):
    out = []
    while len(out) < n:
        r = rng.random()
        cp = rng.randint(0x21, 0x7e) if r < 0.5 else rng.randint(0xa1, 0x24ff) if r < 0.8 else rng.randint(0x3000, 0x9fff) if r < 0.95 else rng.randint(0x1f300, 0x1f6ff)
        ch = chr(cp)
        if ch.isprintable() and not ch.isspace():
            out.append(ch)
    return ''.join(out)


ENC = locale.getpreferredencoding(False)      # read_ptb / read_ccgbank open their file with the platform default encoding


def encodable(w):
    try:
        w.encode(ENC)
        return True
    except UnicodeError:
        return False


def in_domain_word(w, fmt):
    if not encodable(w):
        return False                                # cannot be written to a file the readers can open on this platform
    if not w or not all(ch.isprintable() and not ch.isspace() for ch in w) or '\\' in w:
        return False
    if fmt == 'ptb':
        return not PTB_COLLISION.search(w)          # the convention cannot represent these (reported as a finding)
    return not any(ch in w for ch in '/{}') and w != '-RCB-'     # '-RCB-' is printed as '}' by normalize (reported as a finding)


def rand_word(rng, fmt):
    while True:
        r = rng.random()
        if r < 0.3:
            w = gen.rand_word(rng, plain=True)
        elif r < 0.55:
            w = rng.choice(BRACKET_WORDS)
        elif r < 0.75:
            w = gen.rand_word(rng)
        elif r < 0.9:
            w = rand_printable(rng, rng.randint(1, 5))
        else:
            w = ''.join(rng.choice('()-LRBab') for _ in range(rng.randint(1, 7)))
        if in_domain_word(w, fmt):
            return w


def sanitize(rng, t, fmt):
    """put every leaf token inside the quantifier of the property (the tree generators of gen.py draw from a wider pool)"""
    for leaf in t.leaves:
        tok = leaf.children[0]
        tok['word'] = rand_word(rng, fmt)
        for k in list(tok):
            if k != 'word' and not in_domain_word(tok[k], fmt):
                tok[k] = rand_word(rng, fmt)
    return t


def tree_json(t):
    if t.is_leaf:
        return ['L', str(t.cat), dict(t.token)]
    return ['N', str(t.cat), t.op_string, t.op_symbol, bool(t.head_is_left)] + [tree_json(c) for c in t.children]


def tree_of_json(j):
    if j[0] == 'L':
        return Tree.make_terminal(Token(**j[2]), Category.parse(j[1]))
    kids = [tree_of_json(x) for x in j[5:]]
    if len(kids) == 1:
        return Tree.make_unary(Category.parse(j[1]), kids[0], j[2], j[3])
    return Tree.make_binary(Category.parse(j[1]), kids[0], kids[1], j[2], j[3], j[4])


def ja_symbols_ok(t):
    return t.is_leaf or (t.op_symbol != JA_SYMBOL_OUTSIDE and all(ja_symbols_ok(c) for c in t.children))


# ---- independent statement of the property on implementation outputs ------------------------------
def same_tree(a, b, word_of, symbols):
    """None if b has the categories, shape and words of a (and its rule symbols if `symbols`), else a description"""
    if not isinstance(b, Tree):
        return f'not a tree: {b!r}'
    if not (isinstance(b.cat, Category) and b.cat == a.cat and str(b.cat) == str(a.cat)):
        return f'category {a.cat} read as {b.cat}'
    if a.is_leaf != b.is_leaf or len(a.children) != len(b.children):
        return f'node {a.cat}: {len(a.children)} child(ren){" (leaf)" if a.is_leaf else ""} read as {len(b.children)}{" (leaf)" if b.is_leaf else ""}'
    if a.is_leaf:
        w = word_of(a.word)
        if b.word != w or b.token.get('word') != w:
            return f'word {w!r} read as {b.word!r}'
        return None
    if symbols and b.op_symbol != a.op_symbol:
        return f'rule symbol {a.op_symbol!r} of node {a.cat} read as {b.op_symbol!r}'
    for x, y in zip(a.children, b.children):
        d = same_tree(x, y, word_of, symbols)
        if d:
            return d
    return None


def guess_table(trees):
    """guess_combinator_by_triplet on every binary node's categories, computed by the harness (not taken from the reader's output)"""
    seen, out = set(), []
    def walk(t):
        if isinstance(t, Tree) and not t.is_leaf:
            kids = t.children
            if len(kids) == 2 and all(isinstance(k, Tree) for k in kids) and all(gen.well_typed(x) for x in (t.cat, kids[0].cat, kids[1].cat)):
                key = (str(t.cat), str(kids[0].cat), str(kids[1].cat))
                if key not in seen:
                    seen.add(key)
                    st, r = guarded(guess_combinator_by_triplet, en_grammar.apply_binary_rules, t.cat, kids[0].cat, kids[1].cat)
                    if st == 'ok':
                        out.append(f'({gcat(t.cat)},{gcat(kids[0].cat)},{gcat(kids[1].cat)},({lit(r.op_string)},{lit(r.op_symbol)},{gbool(r.head_is_left)}))')
            for k in kids:
                walk(k)
    for t in trees:
        walk(t)
    return '[' + ';'.join(out) + ']'


# ---- annotated bank lines ---------------------------------------------------------------------------
def annotate_cat(rng, text, leaf, realistic=True):
    """insert {I1}-style blocks into a category text; a leaf category also gets a _suffix"""
    out, n = [], 0
    for i, ch in enumerate(text):
        out.append(ch)
        nxt = text[i + 1] if i + 1 < len(text) else ''
        at_operand_end = ch in '])' or (ch not in '[(/\\|' and nxt in '/\\|)' ) or (nxt == '' and ch != ']' and ch != ')')
        if (at_operand_end and rng.random() < 0.5) if realistic else rng.random() < 0.15:
            n += 1
            out.append('{' + rng.choice(['I', 'X', 'I', 'Ｉ', 'a.b']) + str(rng.randint(1, 12)) + '}')
    if not realistic and rng.random() < 0.3:
        out.insert(0, '{I0}')
    s = ''.join(out)
    if leaf and rng.random() < 0.7:
        s += rng.choice(['_none', '_I1(unk,I2,I1)', '_', '__', '_{x}_y', '_I1(I2)_I3(I4)', '_}', '_/'])
    return s


def bank_line(t, rng=None, realistic=True):
    """the bank line of t assembled from ja_of on the leaves; with rng: annotations injected into the category texts"""
    def cat_text(c, leaf):
        s = str(c)
        return annotate_cat(rng, s, leaf, realistic) if rng is not None else s
    def rec(n):
        if n.is_leaf:
            s = ja_of(n)
            pre = '{' + str(n.cat)
            assert s.startswith(pre + ' ')
            return '{' + cat_text(n.cat, True) + s[len(pre):]
        return '{' + n.op_symbol + ' ' + cat_text(n.cat, False) + ' ' + ' '.join(rec(c) for c in n.children) + '}'
    return rec(t)


# ---- malformed streams --------------------------------------------------------------------------------
def mutate(rng, s, alphabet):
    r = rng.random()
    if not s:
        return rng.choice(alphabet)
    i = rng.randrange(len(s))
    if r < 0.3:
        return s[:i]                                        # truncated
    if r < 0.5:
        return s[:i] + s[i + 1:]                            # a character lost
    if r < 0.7:
        return s[:i] + rng.choice(alphabet) + s[i:]         # a character inserted
    if r < 0.8:
        j = rng.randrange(len(s))
        i, j = min(i, j), max(i, j)
        return s[:i] + s[j:]                                # a span lost
    if r < 0.9:
        return s[:i] + rng.choice(alphabet) + s[i + 1:]     # a character replaced
    return s + rng.choice(alphabet) * rng.randint(1, 3)


PTB_SOUP = ['(N', '(S', '(NP', '(S\\NP', '((S\\NP)/NP', '(S/(S\\NP)', 'a)', 'b))', 'c)))', ')', '(', '(/', 'x', '', '(N)', '-LRB-)', '-RRB-))', 'a-LRB-b)',
            '(()', '(S[dcl]', '(S[', 'He)', 'runs))', '(conj', '(,', ',)', '(S/NP/NP', '(<', 'w', ')))']
JA_SOUP = ['{', '}', ' ', '/', '_', '{<', '{>', '{<B1', '{ADV0', '{SSEQ', 'S', 'NP[case=nc,mod=nm,fin=f]', 'S[mod=nm,form=base,fin=t]', '{I1}', '_none', 'a/a/b/c', 'a/a/b', 'x/x/_/_}',
           '{NP a/a/_/_}', '{S', '{OTHER', '\\', '(', ')', '{NP', 'w/w/p/i}', '}}', '{>B']


def run(ctx):
    rng = ctx.rng
    q = ctx.quick
    ctx.build(['P_C20.vo'], gens=('tables', 'c20'))
    ctx.theorems('P_C20')
    # one-line files for the public readers: RAM-backed scratch directory when there is one (thousands of tiny files), else work/C20
    tmp = tempfile.mkdtemp(prefix='c20_', dir='/dev/shm' if os.path.isdir('/dev/shm') and os.access('/dev/shm', os.W_OK) else ctx.work)
    licensed_tree = cached_generator(gen.licensed_tree)
    counter = [0]

    def via_file(read, text):
        """the public reader on a one-line file: ('ok', [ReaderResult...]) | ('err', name)"""
        counter[0] += 1
        fn = os.path.join(tmp, f'l{counter[0] % 64}.txt')
        with open(fn, 'w', encoding=ENC, errors='replace') as f:
            f.write(text + '\n')
        return guarded(lambda: list(read(fn)))

    cases, descr = [], []

    def add(term, d):
        cases.append(term)
        descr.append(d)

    # =============================== PTB (English) =====================================================
    set_lang('en')
    en_pool = [Category.parse(s) for s in gen.inventory('en')]

    def py_parse_ptb(line):
        st, r = guarded(en_reader._parse_ptb, line)
        if st == 'ok':
            tree, toks = r
            if tree_well_typed(tree) and toks == tree.tokens:
                return 'ok', tree
            return 'err', 'ill-typed'
        return 'err', r

    def ptb_reader_case(line, kind, tree_hint=None):
        st, r = py_parse_ptb(line)
        tb = guess_table([r] if st == 'ok' else ([tree_hint] if tree_hint is not None else []))
        add(f'RP {tb} {lit(line)} {gopt(r if st == "ok" else None, gtree)}', ('read_ptb', kind, line, st, r if st == 'err' else ''))
        ctx.count(f'ptb:{kind}:{st}' + (f':{r}' if st == 'err' else ''))
        return st, r

    def ptb_tree(i):
        r = rng.random()
        n = rng.randint(1, 4 if q else 7)
        if r < 0.6:
            t = licensed_tree(rng, 'en', nleaves=n, full_tokens=rng.random() < 0.5)
        elif r < 0.9:
            t = gen.rand_tree(rng, 'en', nleaves=n, full_tokens=rng.random() < 0.5)
        else:
            cats = [c for c in (gen.rand_cat(rng, 'en', depth=rng.randint(0, 3), exotic=True, slashes=gen.SLASHES) for _ in range(8)) if gen.wf_py(c)] or en_pool[:5]
            t = gen.rand_tree(rng, 'en', nleaves=n, cats=cats)
        return sanitize(rng, t, 'ptb')

    n_ptb = 260 if q else 2000
    for i in range(n_ptb):
        t = ptb_tree(i)
        line = ptb_of(t)
        words = [l.word for l in t.leaves]
        nontriv = len(t.leaves) > 1 or any(ch in w for w in words for ch in '()')
        ctx.case(('ptb', line), nontrivial=nontriv)
        ctx.count('ptb:trees')
        ctx.count('ptb:bracket_words', sum(1 for w in words if '(' in w or ')' in w))
        ctx.count('ptb:unary_nodes', sum(1 for n_ in all_nodes(t) if not n_.is_leaf and len(n_.children) == 1))
        ctx.count('ptb:binary_nodes', sum(1 for n_ in all_nodes(t) if len(n_.children) == 2))
        # -- correspondence: printer (exact string), reader (field by field), canonical form used by the theorem
        st, res = via_file(en_reader.read_ptb, line)
        if st == 'ok' and len(res) == 1 and tree_well_typed(res[0].tree):
            back = res[0].tree
            if res[0].tokens != back.tokens:
                ctx.count('ptb:token_list_differs_from_tree_tokens')
            add(f'P3 {guess_table([back, t])} {gtree(t)} {lit(line)} {gtree(back)}', ('wf_ptb + ptb_of + read_ptb + canon_ptb', line))
        else:
            back = None
            add(f'PP {gtree(t)} (Some {lit(line)})', ('ptb_of', line))
            add(f'RP {guess_table([t])} {lit(line)} None', ('read_ptb', 'printed-unreadable', line, st, str(res)[:80]))
        # -- oracle (A): the line reads back to the same categories, shape and words
        if back is None:
            ctx.fail('ptb_unreadable', f'read_ptb fails on the line ptb_of printed: {line!r} ({st}: {str(res)[:100]})', {'format': 'ptb', 'line': line, 'tree': tree_json(t)})
        else:
            d = same_tree(t, back, lambda w: w, symbols=False)
            if d is None and [tk.get('word') for tk in res[0].tokens] != words:
                d = f'token list {[tk.get("word") for tk in res[0].tokens]!r} is not the word list {words!r}'
            if d:
                ctx.fail('ptb_roundtrip', f'read_ptb(ptb_of(t)) differs from t: {d}; line {line!r}', {'format': 'ptb', 'line': line, 'tree': tree_json(t)})
        # -- oracle (B): every truncated line is rejected with an error
        cuts = set(range(len(line))) if (not q or i % 8 == 0) else set(rng.sample(range(len(line)), min(len(line), 12)))
        cuts |= {k for k, ch in enumerate(line) if ch == ' '} | {k + 1 for k, ch in enumerate(line) if ch == ' '} | {len(line) - 1, len(line) - 2}
        for k in sorted(c for c in cuts if 0 <= c < len(line)):
            p = line[:k]
            st1, r1 = guarded(en_reader._parse_ptb, p)
            ctx.count('ptb:truncated_lines')
            if st1 == 'ok':
                ctx.fail('ptb_truncated_accepted', f'_parse_ptb accepted the truncated line {p!r} (a proper prefix of {line!r})', {'format': 'ptb', 'line': line, 'cut': k, 'tree': tree_json(t)})
            if k % 7 == 0 or k >= len(line) - 2:
                st2, r2 = via_file(en_reader.read_ptb, p)
                if st2 == 'ok' and r2:
                    ctx.fail('ptb_truncated_accepted', f'read_ptb yielded a tree for the truncated line {p!r} (a proper prefix of {line!r})', {'format': 'ptb', 'line': line, 'cut': k, 'file': True, 'tree': tree_json(t)})
            if rng.random() < (0.04 if q else 0.005):
                ptb_reader_case(p, 'truncated', t)
        if i < 3:
            ctx.sample({'ptb_line': line, 'words': words})

    # trees whose leaf has no 'word': the printer raises
    for _ in range(5):
        t = gen.rand_tree(rng, 'en', nleaves=2, plain_words=True)
        del t.leaves[rng.randrange(2)].children[0]['word']
        st, r = guarded(ptb_of, t)
        add(f'PP {gtree(t)} {gopt(r if st == "ok" else None, lit)}', ('ptb_of', 'no-word', st))

    # malformed stream: model and implementation agree on ok(tree) / error
    for i in range(250 if q else 3000):
        if rng.random() < 0.6:
            t = sanitize(rng, gen.rand_tree(rng, 'en', nleaves=rng.randint(1, 3), full_tokens=False, cats=en_pool[:40]), 'ptb')
            s = ptb_of(t)
            for _ in range(rng.randint(1, 2)):
                s = mutate(rng, s, '() -LRB)x\\/')
        else:
            s = rng.choice(['(ROOT ', '(ROOT', '(ROOT  ', '']) + ' '.join(rng.choice(PTB_SOUP) for _ in range(rng.randint(0, 6))) + rng.choice([')', '', ')', 'X'])
            t = None
        ptb_reader_case(s, 'malformed', t)
        ctx.case(('ptbm', s), nontrivial=False)
    for s in ['', '(ROOT )', '(ROOT', '(ROOT (N a))', '(ROOT (N a)X', '(ROOT (N a)', '(ROOT (N a) (N b))', '(ROOT (N a) b))', '(ROOT (/ a))', '(ROOT (N  a))',
              '(ROOT (N a)))', '(ROOT ((N a))', '(ROOT (N (N a) (N b) (N c)))', '(ROOT (S (NP He) (S\\NP runs)))', '(ROOT (S (NP He) (S\\NP runs))', '(ROOT (N -LRB-LRB-))',
              '(ROOT (N -LRB--RRB-))', '(ROOT (N -LRB-RRB-))', '(ROOT (N ())))', '(ROOT (S/(S\\NP) x))', '(ROOT (NP (N )))', ' (ROOT (N a))', '(ROOT (N a)) ']:
        ptb_reader_case(s, 'corpus')

    # the collisions inherent to the escape convention: observed and recorded, outside the domain (no alarm)
    for w in ['-LRB-', '-RRB-', 'x-LRB-y', '-LRB(', '(LRB-', ')RRB)']:
        t = Tree.make_terminal(Token(word=w), Category.parse('N'))
        st, r = py_parse_ptb(ptb_of(t))
        ctx.stats[f'ptb:collision:{w}'] = (r.word if st == 'ok' else f'error {r}')

    # =============================== Japanese bank =========================================================
    set_lang('ja')
    try:
        ja_pool = [Category.parse(s) for s in gen.inventory('ja')]

        def py_parse_ja(line):
            st, r = guarded(lambda: ja_reader._JaCCGLineReader(line).parse())
            if st == 'ok':
                tree, toks = r
                if tree_well_typed(tree) and all(isinstance(tk, Token) and list(tk) == ['surf', 'base', 'pos1', 'pos2'] for tk in toks):
                    return 'ok', (tree, toks)
                return 'err', 'ill-typed'
            return 'err', r

        def gjares(r):
            return f'({gtree(r[0])}, {gtokens(r[1])})'

        def ja_reader_case(line, kind):
            st, r = py_parse_ja(line)
            add(f'RJ {lit(line)} {gopt(r if st == "ok" else None, gjares)}', ('read_ja', kind, line, st, r if st == 'err' else ''))
            ctx.count(f'ja:{kind}:{st}' + (f':{r}' if st == 'err' else ''))
            return st, r

        n_ja = 260 if q else 2000
        made = 0
        while made < n_ja:
            n = rng.randint(1, 4 if q else 7)
            if rng.random() < 0.65:
                t = licensed_tree(rng, 'ja', nleaves=n, full_tokens=rng.random() < 0.7)
            else:
                t = gen.rand_tree(rng, 'ja', nleaves=n, full_tokens=rng.random() < 0.7)
            if not ja_symbols_ok(t):
                ctx.count('ja:skipped_symbol_outside_reader_set')
                continue
            made += 1
            t = sanitize(rng, t, 'ja')
            if rng.random() < 0.15:      # empty inflection fields are outside the quantifier (non-blank text is non-empty); '*' and absent are inside
                for leaf in t.leaves:
                    leaf.children[0].pop('inflectionForm', None)
            line = ja_of(t)
            words = [normalize(l.word) for l in t.leaves]
            ctx.case(('ja', line), nontrivial=len(t.leaves) > 1)
            ctx.count('ja:trees')
            plain = bank_line(t)
            if plain != line:
                ctx.obligation('harness: bank_line(t) without annotations is ja_of(t)', False, f'{plain!r} vs {line!r}')
            variants = [('printed', line), ('annotated', bank_line(t, rng, True)), ('annotated-anywhere', bank_line(t, rng, False))]
            outcomes = []
            for kind, text in variants:
                ctx.count(f'ja:lines:{kind}')
                ctx.count('ja:annotation_blocks', text.count('{I') + text.count('{X'))
                st, res = via_file(ja_reader.read_ccgbank, text)
                ok = st == 'ok' and len(res) == 1 and tree_well_typed(res[0].tree)
                if ok:
                    back, toks = res[0].tree, res[0].tokens
                    outcomes.append((kind, text, gtree(back), gtokens(toks)))
                    d = same_tree(t, back, normalize, symbols=True)
                    if d is None and [tk.get('surf') for tk in toks] != words:
                        d = f'token list {[tk.get("surf") for tk in toks]!r} is not the word list {words!r}'
                    if d:
                        ctx.fail('ja_roundtrip', f'read_ccgbank on the {kind} line of t differs from t: {d}; line {text!r}', {'format': 'ja', 'line': text, 'kind': kind, 'tree': tree_json(t)})
                else:
                    outcomes.append((kind, text, None, None))
                    ctx.fail('ja_unreadable', f'read_ccgbank fails on the {kind} bank line {text!r} ({st}: {str(res)[:100]})', {'format': 'ja', 'line': text, 'kind': kind, 'tree': tree_json(t)})
            if all(o[2] is not None for o in outcomes) and len({(o[2], o[3]) for o in outcomes}) == 1:
                add(f'J5 {gtree(t)} {lit(line)} {outcomes[0][2]} {outcomes[0][3]} {lit(outcomes[1][1])} {lit(outcomes[2][1])}',
                    ('wf_ja + ja_of + read_ccgbank (printed, annotated, annotated-anywhere) + canon_ja', line, outcomes[1][1], outcomes[2][1]))
            else:
                add(f'PJ {gtree(t)} (Some {lit(line)})', ('ja_of', line))
                for kind, text, gt, gk in outcomes:
                    add(f'RJ {lit(text)} ' + (f'(Some ({gt}, {gk}))' if gt is not None else 'None'), ('read_ja', kind, text))
                if outcomes[0][2] is not None:
                    add(f'CJ {gtree(t)} {outcomes[0][2]} {outcomes[0][3]}', ('canon_ja', line))
            if made <= 3:
                ctx.sample({'ja_line': line, 'annotated': variants[1][1]})

        for _ in range(5):
            t = gen.rand_tree(rng, 'ja', nleaves=2, plain_words=True)
            del t.leaves[rng.randrange(2)].children[0]['word']
            st, r = guarded(ja_of, t)
            add(f'PJ {gtree(t)} {gopt(r if st == "ok" else None, lit)}', ('ja_of', 'no-word', st))

        # malformed stream (error-vs-ok agreement; a non-terminating reader counts as an error)
        for i in range(250 if q else 3000):
            if rng.random() < 0.65:
                t = sanitize(rng, gen.rand_tree(rng, 'ja', nleaves=rng.randint(1, 3), full_tokens=rng.random() < 0.5, cats=ja_pool[:30]), 'ja')
                s = bank_line(t, rng, True) if rng.random() < 0.3 else ja_of(t)
                for _ in range(rng.randint(1, 2)):
                    s = mutate(rng, s, '{} /_-x')
            else:
                s = ''.join(rng.choice(JA_SOUP) + rng.choice(['', ' ', ' ']) for _ in range(rng.randint(0, 7)))
            ja_reader_case(s, 'malformed')
            ctx.case(('jam', s), nontrivial=False)
        for s in ['', '{', '}', '{S a/a/_/_}', '{S a/a/_/_', '{S a/a/b/cX', '{S a/a/b/}', '{S a/a/_}', '{> S {S a/a/_/_}}', '{> S {S a/a/_/_} {S b/b/_/_}}', '{> S {S a/a/_/_} {S b/b/_/_} {S c/c/_/_}}',
                  '{> S {A a/b/c/d} {BX', '{OTHER S {S a/a/_/_}}', '{ADV0 S{I1} {S{I2}_none a/a/_/_}}', '{> S}', '{> S }', '{S{x} a/a/_/_}', '{S{} a/a/_/_}', '{S_{x a/a/_/_}', '{{I1}S a/a/_/_}',
                  '{< S {S a/a/_/_}  {S b/b/_/_}}', '{S }/}/_/_}', '{ADV0 a/a/_/_}', '{S a/a/_/_} trailing', 'S a/a/_/_}']:
            ja_reader_case(s, 'corpus')

        for w in ['-RCB-', '-LCB-', '-LRB-', 'a/b', 'a}b']:
            t = Tree.make_terminal(Token(word=w), ja_pool[0])
            st, r = py_parse_ja(ja_of(t))
            ctx.stats[f'ja:collision:{w}'] = (r[0].word if st == 'ok' else f'error {r}')
        st, r = py_parse_ja('{OTHER ' + str(ja_pool[0]) + ' ' + ja_of(Tree.make_terminal(Token(word='a'), ja_pool[0])) + '}')
        ctx.stats['ja:unary_node_labelled_OTHER'] = ('read as ' + ('a leaf' if r[0].is_leaf else 'an inner node')) if st == 'ok' else f'error {r}'
    finally:
        set_lang('en')

    shutil.rmtree(tmp, ignore_errors=True)
    bad = ctx.coq_cases('c20', PRE, cases, chunk=80, describe=lambda i: descr[i])
    for i in (bad or [])[:10]:
        ctx.notes.append(f'model/implementation disagreement on {descr[i]!r}')
    ctx.trusted += ['hand-written models coq/Ptb.v (ptb_of, _parse_ptb) and coq/JaBank.v (ja_of, normalize, _JaCCGLineReader), tied by the correspondence cases of this run',
                    'Category.parse = the model of C05 (coq/Cat.v, tied by check C05)',
                    'translators translate/gen_tables.py (normalize table, ja reader `combinators`, punctuations, cat_split class) and translate/gen_c20.py (rule symbols of grammar/ja.py)',
                    'file iteration / line.strip() / "ID" lines of read_ptb and read_ccgbank are outside the models (exercised through temp files by correspondence and oracle)',
                    'harness: tree_well_typed() classifies a returned Tree with an ill-typed category slot as an error; a reader run longer than 0.5 s counts as an error (hang)']
    return ctx.finish(
        level='proof',
        rule='trees from gen.licensed_tree / gen.rand_tree over the shipped en (PTB) and ja (bank) lexicons with words redrawn inside the quantifier '
             '(bracket tokens, random printable Unicode); per tree: printer string, read-back through a temp file, canonical form, all/sampled truncated '
             'prefixes (PTB), annotated bank lines ({I1} blocks at operand ends / anywhere, _suffix on leaf categories); plus mutated and soup lines as the '
             'malformed stream; non-trivial = more than one leaf or a bracket word; distinct by printed line',
        assumptions=['PTB domain: categories wf (C05), words non-empty, printable, non-blank, no backslash, and no occurrence of [-()](LRB|RRB)[-()] (the -LRB-/-RRB- escape '
                     'convention cannot represent those: a literal "-LRB-" reads back as "(", and "-LRB(" is printed as "-LRB-LRB-" which reads back as "(LRB-")',
                     'bank domain: words/token fields printable non-blank without backslash, "/", "{", "}", and the word is not "-RCB-" (normalize prints it as "}" which ends '
                     'the leaf); inner-node symbols are those of grammar/ja.py except OTHER (not in the reader\'s `combinators`: such a node is read as a leaf); token fields non-empty',
                     'the reader models return None both for a Python exception and for a returned value that is not a well-typed tree',
                     'binary labels after read_ptb are those of guess_combinator_by_triplet (recomputed by the harness), not those of the printed tree: PTB text does not carry them'])


def all_nodes(t):
    out = [t]
    if not t.is_leaf:
        for c in t.children:
            out += all_nodes(c)
    return out


def replay(data):
    """./check C20 --replay f : re-execute the recorded failures on the implementation"""
    still = 0
    for f in data.get('failures', []):
        d = f.get('data', {})
        fmt, line = d.get('format'), d.get('line')
        print(f"[{f.get('kind')}] {f.get('desc', '')[:300]}")
        if fmt == 'ptb':
            set_lang('en')
            if 'cut' in d:
                st, r = guarded(en_reader._parse_ptb, line[:d['cut']])
                print(f"  _parse_ptb({line[:d['cut']]!r}) -> {st} {r if st == 'err' else '(a tree)'}")
                still += st == 'ok'
            elif 'tree' in d:
                t = tree_of_json(d['tree'])
                st, r = guarded(lambda: en_reader._parse_ptb(ptb_of(t)))
                diff = same_tree(t, r[0], lambda w: w, symbols=False) if st == 'ok' else f'error {r}'
                print(f"  ptb_of(t) = {ptb_of(t)!r}\n  read back: {diff or 'same categories, shape, words'}")
                still += diff is not None
        elif fmt == 'ja':
            set_lang('ja')
            try:
                if 'tree' in d and d.get('kind') == 'printed':
                    st0, printed = guarded(ja_of, tree_of_json(d['tree']))
                    line = printed if st0 == 'ok' else line
                st, r = guarded(lambda: ja_reader._JaCCGLineReader(line).parse())
                if 'tree' in d and st == 'ok':
                    diff = same_tree(tree_of_json(d['tree']), r[0], normalize, symbols=True)
                else:
                    diff = f'error {r}' if st == 'err' else None
                print(f"  line {line!r}\n  read: {diff or 'same categories, shape, words, symbols'}")
                still += diff is not None
            finally:
                set_lang('en')
    for b in data.get('broken_obligations', []):
        print('broken obligation:', (b.get('name') if isinstance(b, dict) else b[0]))
    print(f'{still} recorded failure(s) still reproduce')
    return 1 if still or data.get('broken_obligations') else 0
