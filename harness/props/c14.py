"""C14 - rule application is a pure, total, reproducible function; filters only remove."""
import os, sys, json, subprocess, hashlib, functools
import env, gen, gram_corr as G
from gallina import gcat
from depccg.cat import Category

SEED_SCRIPT = r'''
import sys, json
sys.path.insert(0, %(harness)r)
import env
from depccg.cat import Category
from depccg.grammar import en, ja
pairs = json.load(open(sys.argv[1]))
order = list(range(len(pairs)))
if len(sys.argv) > 2 and sys.argv[2] == 'reversed':
    order.reverse()
if len(sys.argv) > 2 and sys.argv[2] == 'bysize':
    order.sort(key=lambda k: (-len(pairs[k][1]) - len(pairs[k][2]), k))
out = [None] * len(pairs)
for k in order:
    lang, x, y = pairs[k]
    g = en if lang.startswith('en') else ja
    try:
        if lang.endswith('-unary'):
            import gen
            rs = gen.grammar(lang[:2])[1](Category.parse(x))
        else:
            rs = g.apply_binary_rules(Category.parse(x), Category.parse(y))
        out[k] = [[str(r.cat), r.op_string, r.op_symbol, r.head_is_left] for r in rs]
    except Exception as e:
        out[k] = 'ERR:' + type(e).__name__
print(json.dumps(out))
'''


def snapshot(c):
    """deep structural snapshot of a category value (to detect mutation of arguments)"""
    from depccg.cat import Atom
    if isinstance(c, Atom):
        f = c.feature
        return ('A', c.base, type(f).__name__, tuple(sorted(vars(f).items())))
    return ('F', c.slash, snapshot(c.left), snapshot(c.right))


def one_system(c, system):
    from depccg.cat import Atom, UnaryFeature
    if isinstance(c, Atom):
        return isinstance(c.feature, UnaryFeature) == (system == 'en')
    return one_system(c.left, system) and one_system(c.right, system)


# ---- 'nb' marks (English): written here on plain Atom/Functor values, without Category.clear_features / == of the code under test -------
def erase(c, values=('nb',)):
    """c with the unary features named in `values` removed"""
    from depccg.cat import Atom, Functor
    if c.is_functor:
        return Functor(erase(c.left, values), c.slash, erase(c.right, values))
    return Atom(c.base) if c.feature.value in values else c


def nb_slots(c, path=()):
    """the positions where the category syntax allows an [nb] to be added: atoms without a feature that are not punctuation"""
    if c.is_functor:
        return nb_slots(c.left, path + (0,)) + nb_slots(c.right, path + (1,))
    return [path] if c.feature.value is None and c.base not in gen.puncts() else []


def mark_nb(c, slots, path=()):
    from depccg.cat import Atom, Functor, UnaryFeature
    if c.is_functor:
        return Functor(mark_nb(c.left, slots, path + (0,)), c.slash, mark_nb(c.right, slots, path + (1,)))
    return Atom(c.base, UnaryFeature('nb')) if path in slots else c


def how(x, y, r):
    """the observable way a result was produced: label, symbol, and how its category relates to the inputs (one of them passed through,
    y|y, or a category built anew) - the strata from which pairs are drawn, so that rules that fire on few pairs get their share"""
    import en_oracle as O
    c = r.cat
    rel = 'x' if O.ceq(c, x) else 'y' if O.ceq(c, y) else 'y|y' if (c.is_functor and O.ceq(c.left, y) and O.ceq(c.right, y)) else 'built'
    return (r.op_string, r.op_symbol, rel)


def nb_check(en, x0, y0, xs, ys, seen_all):
    """the property on one pair: x0, y0 carry no nb mark; xs, ys are sets of positions (nb_slots) that get one.  Returns
    (x_nb, y_nb, out_nb, key, problems) with problems = [(seen-label, description)]"""
    import en_oracle as O
    x, y = mark_nb(x0, xs), mark_nb(y0, ys)
    key = (erase(x0, ('X', 'nb')), erase(y0, ('X', 'nb')))
    probs = []
    out, out0 = G.call(en.apply_binary_rules, x, y), G.call(en.apply_binary_rules, x0, y0)
    for label, seen, licensed in (('none', None, True), ('pair', {key}, True), ('shipped', seen_all, key in seen_all)):
        o = out if seen is None else G.call(en.apply_binary_rules, x, y, seen)
        want = G.sig(out0) if licensed else ()
        if G.sig(o) != want:
            why = ''
            if o[0] == 'ok' and out0[0] == 'ok' and O.in_domain(x) and O.in_domain(y):
                # which side is off: the schemata of the grammar, read on the nb-erased inputs by the independent oracle of C03
                marked, plain = O.check_pair(x, y, o[1]), O.check_pair(x0, y0, out0[1])
                extra = [w for w in marked if w not in plain]
                if extra and licensed:
                    why = f'; on the marked pair: {extra[0][1]}'
            probs.append((label, f'en: ({x}, {y}) gives {G.sig(o)} but the same pair without nb marks ({x0}, {y0}) gives {G.sig(out0)}'
                          + ('' if seen is None else f' [with a seen-rule set ({label}) that {"licenses" if licensed else "does not license"} the erased pair]') + why))
    return x, y, out, key, probs


def run(ctx):
    rng = ctx.rng
    targets = ['GenEn.vo', 'GenJa.vo']
    for f in ('P_C14_en', 'P_C14_ja'):
        if os.path.exists(os.path.join(env.COQ, f + '.v')):
            targets.append(f + '.vo')
    ctx.build(targets, gens=('tables', 'grammar_en', 'grammar_ja', 'jaroots'))
    for f in ('P_C14_en', 'P_C14_ja'):
        if os.path.exists(os.path.join(env.COQ, f + '.v')):
            ctx.theorems(f)
        else:
            ctx.obligation(f'theorems of {f}.v present', False, f'coq/{f}.v does not exist')
    from depccg.grammar import en, ja
    cases, descr, seed_pairs = [], [], []
    nq = 1 if ctx.quick else 10
    for lang, mod in (('en', en), ('ja', ja)):
        system = lang
        inv = [Category.parse(s) for s in gen.inventory(lang)]
        if lang == 'en':
            inv += [Category.parse(s) for s in gen.inventory('en_rebank')[:200]]
        binary, unary, table = gen.grammar(lang)
        seen_all = {(Category.parse(a).clear_features('X', 'nb'), Category.parse(b).clear_features('X', 'nb')) if lang == 'en'
                    else (Category.parse(a), Category.parse(b)) for a, b in gen.model_file(f'seen_rules.{lang}.jsonnet')}
        pool = list(inv)
        seen_list = gen.model_file(f'seen_rules.{lang}.jsonnet')
        # categories with several occurrences of one feature variable bound to different values
        if lang == 'en':
            pool += [Category.parse(s) for s in ['S[X]/(NP[X]/N[X])', '(NP[conj]/N[num])/PP', '(S[X]\\NP[X])/NP[X]', 'NP[nb]/N', 'S[X]/(S[X]\\NP)', '(S[dcl]\\NP[nb])/NP[conj]',
                                                 '((S[X]\\NP)\\((S[X]\\NP)/NP))', 'N[num]', 'NP[X]', 'NP[X]/N[b]']]
        else:
            pool += [Category.parse(s) for s in ['S[mod=X1,form=X2,fin=X3]/S[mod=X1,form=X2,fin=X3]', 'NP[case=X1,mod=X2,fin=X3]/NP[case=X1,mod=X2,fin=X3]',
                                                 '(S[mod=X1,form=X2,fin=X3]\\NP[case=ga,mod=nm,fin=f])/(S[mod=X1,form=X2,fin=X3]\\NP[case=ga,mod=nm,fin=f])']]
        # twins that differ only in variable features (a result cache keyed too coarsely would confuse them)
        pool += [c.clear_features('X') for c in pool if 'X' in str(c)] if lang == 'en' else []
        n_pairs = 900 * nq
        fired = 0
        for it in range(n_pairs):
            x, y = rng.choice(pool), rng.choice(pool)
            r_ = rng.random()
            if r_ < 0.5:
                a_, b_ = rng.choice(seen_list)        # pairs observed in the treebank: these mostly fire
                x, y = Category.parse(a_), Category.parse(b_)
            elif r_ < 0.65:
                x = gen.rand_cat(rng, lang, depth=2)
                y = gen.rand_cat(rng, lang, depth=2)
            elif r_ < 0.8 and lang == 'ja':
                # a rule schema instantiated with random sub-categories whose two occurrences of the shared part differ in feature values
                # (one variable feature meeting several different values, clashes included)
                import importlib
                c04 = importlib.import_module('props.c04')
                x, y = c04.instantiate(rng, rng.choice(c04.PATTERNS), modifier=rng.random() < 0.3)
                ctx.count('ja:instantiated_schema_pairs')
            if not (gen.wf_py(x) and gen.wf_py(y) and one_system(x, system) and one_system(y, system)):
                continue
            sx, sy = snapshot(x), snapshot(y)
            out1 = G.call(mod.apply_binary_rules, x, y)
            out2 = G.call(mod.apply_binary_rules, x, y)
            ctx.case((lang, str(x), str(y)), nontrivial=out1[0] == 'ok' and bool(out1[1]))
            data = {'lang': lang, 'x': str(x), 'y': str(y)}
            if out1[0] != 'ok':
                ctx.fail('raises', f'{lang}: apply_binary_rules({x}, {y}) raised {out1[1]} on well-formed categories of one feature system', data)
                continue
            fired += bool(out1[1])
            if G.sig(out1) != G.sig(out2):
                ctx.fail('not_repeatable', f'{lang}: two calls on ({x}, {y}) returned different lists', data)
            if snapshot(x) != sx or snapshot(y) != sy:
                ctx.fail('argument_mutated', f'{lang}: apply_binary_rules changed its argument ({x}, {y})', data)
            # seen-rule filter: exactly the unrestricted result or nothing
            key = (x.clear_features('X', 'nb'), y.clear_features('X', 'nb')) if lang == 'en' else (x, y)
            for seen in ({key}, set(), seen_all):
                outs = G.call(mod.apply_binary_rules, x, y, seen)
                want = G.sig(out1) if key in seen else ()
                if outs[0] != 'ok' or G.sig(outs) != want:
                    ctx.fail('seen_filter', f'{lang}: with a seen-rule set {"containing" if key in seen else "not containing"} the pair, ({x}, {y}) gives {G.sig(outs)}, expected {want}', data)
            if lang == 'en' and key != (x, y):
                # a set holding the pair AS GIVEN (marks not erased) does not contain the erased pair: nothing is licensed
                outs = G.call(mod.apply_binary_rules, x, y, {(x, y)})
                if outs != ('ok', []):
                    ctx.fail('seen_filter', f'en: the seen-rule set {{({x}, {y})}} does not contain the erased pair ({key[0]}, {key[1]}), yet ({x}, {y}) gives {G.sig(outs)}', data)
            if lang == 'en':
                outn = G.call(mod.apply_binary_rules, x.clear_features('nb'), y.clear_features('nb'))
                if G.sig(outn) != G.sig(out1):
                    ctx.fail('nb_dependence', f'en: result for ({x}, {y}) changes when nb marks are erased', data)
            if out1[1] or rng.random() < 0.15:
                seen_small = rng.choice([None, [key], []])
                cases.append(f'Bin{"En" if lang == "en" else "Ja"} {gcat(x)} {gcat(y)} {G.gseen(seen_small)} '
                             f'{G.gresult(G.call(mod.apply_binary_rules, x, y, None if seen_small is None else set(seen_small)))}')
                descr.append(('bin', lang, str(x), str(y)))
                if sum(1 for p_ in seed_pairs if p_[0] == lang) < (75 if ctx.quick else 750):      # both languages
                    seed_pairs.append([lang, str(x), str(y)])
        ctx.stats[f'fired:{lang}'] = fired
        # unary rules: exactly the configured targets, in order; nothing for others
        for k, targets_ in table.items():
            out = G.call(unary, k)
            again = G.call(unary, k)
            if G.sig(out) != G.sig(again):
                ctx.fail('not_repeatable', f'{lang}: two calls of apply_unary_rules({k}) returned different lists: {G.sig(out)} then {G.sig(again)}', {'lang': lang, 'x': str(k)})
            if out[0] != 'ok' or [r.cat for r in out[1]] != targets_:
                ctx.fail('unary_not_exact', f'{lang}: apply_unary_rules({k}) does not return exactly the configured targets', {'lang': lang, 'x': str(k)})
            cases.append(f'Un{"En" if lang == "en" else "Ja"} {gcat(k)} {G.gtable(table)} {G.gresult(out)}')
            descr.append(('un', lang, str(k)))
            ctx.case(('un', lang, str(k)))
        # any unary table, not only the shipped one: several targets per key come back all, in the configured order
        all_targets = [t_ for ts_ in table.values() for t_ in ts_]
        for k in list(table)[:10]:
            multi = list(table[k]) + rng.sample(all_targets, min(len(all_targets), rng.randint(1, 3)))
            t2 = {k: multi}
            out = G.call(mod.apply_unary_rules, k, t2)
            ctx.case(('un-multi', lang, str(k), len(multi)), nontrivial=True)
            if out[0] != 'ok' or [r.cat for r in out[1]] != multi:
                ctx.fail('unary_not_exact', f'{lang}: apply_unary_rules({k}) with {len(multi)} configured targets returns {[str(r.cat) for r in out[1]] if out[0] == "ok" else out}: '
                         f'not exactly the configured targets {[str(c) for c in multi]} in order', {'lang': lang, 'x': str(k), 'targets': [str(c) for c in multi]})
        # the loader (depccg/allennlp/utils.py read_params) builds the unary table as a defaultdict(list): looking a category up must not
        # change the caller's table either
        from collections import defaultdict
        dd = defaultdict(list)
        for k, v in table.items():
            dd[k].extend(v)
        before = {k: list(v) for k, v in dd.items()}
        for x in rng.sample(inv, 40) + list(table)[:5]:
            G.call(mod.apply_unary_rules, x, dd)
            if {k: list(v) for k, v in dd.items()} != before:
                ctx.fail('argument_mutated', f'{lang}: apply_unary_rules({x}, table) changed the caller\'s unary table (a defaultdict, as the loader builds it)',
                         {'lang': lang, 'x': str(x), 'table_size_before': len(before), 'table_size_after': len(dd)})
                break
        if lang == 'en':
            # exactness of the lookup: a key with an nb mark added is ANOTHER category (nothing configured), and a table entry keyed by an
            # nb-marked category is found under exactly that category
            for k, targets_ in list(table.items())[:12]:
                kn = Category.parse(str(k).replace('NP', 'NP[nb]', 1)) if 'NP' in str(k) and 'NP[' not in str(k) else None
                if kn is None or kn in table:
                    continue
                out = G.call(unary, kn)
                if out != ('ok', []):
                    ctx.fail('unary_not_exact', f'en: apply_unary_rules({kn}) returns {out}: only {k} (without the nb mark) has configured targets', {'lang': lang, 'x': str(kn)})
                t2 = {kn: list(targets_)}
                out = G.call(mod.apply_unary_rules, kn, t2)
                if out[0] != 'ok' or [r.cat for r in out[1]] != targets_:
                    ctx.fail('unary_not_exact', f'en: apply_unary_rules({kn}, {{{kn}: targets}}) does not return the targets configured for exactly that category', {'lang': lang, 'x': str(kn)})
                cases.append(f'UnEn {gcat(kn)} {G.gtable(table)} (Ok_ [])')
                descr.append(('un-nb', lang, str(kn)))
                ctx.case(('un-nb', lang, str(kn)))
        for x in rng.sample(inv, 40):
            if x not in table:
                out = G.call(unary, x)
                if out != ('ok', []):
                    ctx.fail('unary_not_exact', f'{lang}: apply_unary_rules({x}) returns {out} for a category without unary rules', {'lang': lang, 'x': str(x)})
                cases.append(f'Un{"En" if lang == "en" else "Ja"} {gcat(x)} {G.gtable(table)} (Ok_ [])')
                descr.append(('un0', lang, str(x)))
    # ---- English results do not depend on 'nb' marks: [nb] added at random positions of pairs that (mostly) combine ------------------------
    # sources: the pairs of seen_rules.en (observed in the treebank: these mostly fire), punctuation/conjunction atoms with every category of the
    # pool (rules outside the combinatory schemata), pool x pool, random categories.  Half of the draws are stratified by HOW the unmarked pair
    # produces its results (label, symbol, input passed through / y|y / built anew), so that rules firing on few pairs are reached too.
    import en_oracle as O
    P = Category.parse
    en_pool = [erase(P(s)) for s in gen.inventory('en')] + [erase(P(s)) for s in gen.inventory('en_rebank')[:200]]
    en_seen_list = gen.model_file('seen_rules.en.jsonnet')
    en_seen_all = {(erase(P(a), ('X', 'nb')), erase(P(b), ('X', 'nb'))) for a, b in en_seen_list}
    src = [(erase(P(a)), erase(P(b))) for a, b in en_seen_list]
    atoms_p = [c for c in en_pool if not c.is_functor and c.base in gen.puncts()]
    src += [(a, c) for a in atoms_p for c in en_pool] + [(c, a) for a in atoms_p for c in (en_pool if not ctx.quick else rng.sample(en_pool, 150))]
    strata = {}
    for k, (x0, y0) in enumerate(src):
        if not (nb_slots(x0) or nb_slots(y0)):
            continue
        o = G.call(en.apply_binary_rules, x0, y0)
        for r in (o[1] if o[0] == 'ok' else []):
            strata.setdefault(how(x0, y0, r), []).append(k)
    skeys = sorted(strata)
    ctx.stats['nb:strata'] = len(skeys)
    n_nb = 1200 if ctx.quick else 12000
    nb_fired = nb_tried = 0
    for it in range(n_nb):
        u = rng.random()
        if u < 0.5:
            x0, y0 = src[rng.choice(strata[rng.choice(skeys)])]
            origin = 'stratum'
        elif u < 0.75:
            x0, y0 = src[rng.randrange(len(en_seen_list))]
            origin = 'seen_rules'
        elif u < 0.9:
            x0, y0 = rng.choice(en_pool), rng.choice(en_pool)
            origin = 'pool'
        else:
            x0, y0 = erase(gen.rand_cat(rng, 'en', depth=2)), erase(gen.rand_cat(rng, 'en', depth=2))
            origin = 'random'
        if not (gen.wf_py(x0) and gen.wf_py(y0) and one_system(x0, 'en') and one_system(y0, 'en')):
            continue
        sx, sy = nb_slots(x0), nb_slots(y0)
        side = rng.choice(['x', 'y', 'both'])
        if not sx or (side == 'y' and sy):
            sx_ = []
        else:
            sx_ = [rng.choice(sx)] if rng.random() < 0.5 else [p_ for p_ in sx if rng.random() < 0.5] or [rng.choice(sx)]
        if not sy or (side == 'x' and sx_):
            sy_ = []
        else:
            sy_ = [rng.choice(sy)] if rng.random() < 0.5 else [p_ for p_ in sy if rng.random() < 0.5] or [rng.choice(sy)]
        if not (sx_ or sy_):
            continue
        x, y, out, key, probs = nb_check(en, x0, y0, set(sx_), set(sy_), en_seen_all)
        nt = out[0] == 'ok' and bool(out[1])
        nb_tried += 1
        nb_fired += nt
        ctx.case(('nb', str(x), str(y)), nontrivial=nt)
        ctx.count(f'nb:origin:{origin}')
        if not (gen.wf_py(x) and gen.wf_py(y)):
            ctx.fail('generator', f'marked category is not well-formed: ({x}, {y})', {'lang': 'en', 'x': str(x), 'y': str(y), 'stream': 'nb_marks'})
        for label, why in probs[:1]:
            ctx.fail('nb_dependence', why, {'lang': 'en', 'x': str(x), 'y': str(y), 'x0': str(x0), 'y0': str(y0), 'seen': label, 'origin': origin, 'stream': 'nb_marks'})
        if (nt or rng.random() < 0.1) and rng.random() < (0.35 if ctx.quick else 0.1):
            seen_small = rng.choice([None, [key]])
            cases.append(f'BinEn {gcat(x)} {gcat(y)} {G.gseen(seen_small)} {G.gresult(out)}')       # licensed either way: the unrestricted result
            descr.append(('bin-nb', 'en', str(x), str(y)))
    ctx.stats['nb:pairs'] = nb_tried
    ctx.stats['nb:pairs_firing'] = nb_fired
    if nb_fired * 2 < nb_tried:
        ctx.obligation('the nb stream is mostly non-trivial (at least half of the marked pairs combine)', False, f'{nb_fired} of {nb_tried}')
    ctx.coq_cases('rules', G.PRE, cases, chunk=120, describe=lambda i: descr[i])
    # reproducibility across processes and string-hash seeds
    # twins that differ only in variable features, next to each other with the same partner: the answer for one must not depend on
    # whether the other was asked before (the list is also evaluated in reverse order by one of the fresh interpreters)
    tw = [Category.parse(s_) for s_ in gen.inventory('en') if '[X]' in s_]
    tw += [t_ for ts_ in gen.grammar('en')[2].values() for t_ in ts_ if '[X]' in str(t_)]        # type-raised categories of the unary table
    tw += [Category.parse(s_) for s_ in ['S[X]/(S[X]\\NP)', '(S[X]\\NP)\\((S[X]\\NP)/PP)', '(S[X]\\NP)/NP[X]', 'S[X]/(NP[X]/N[X])', 'NP[X]/N']]
    partners = [Category.parse(s_) for s_ in gen.inventory('en')[:400]]
    n_tw = 0
    for x_ in rng.sample(tw, min(len(tw), 60)):
        x0 = x_.clear_features('X')
        for y_ in rng.sample(partners, 25):
            for a_, b_, a0 in ((x_, y_, x0), (y_, x_, None)):
                a1, b1 = (a0, b_) if a0 is not None else (a_, x0)
                r1, r0 = G.call(en.apply_binary_rules, a_, b_), G.call(en.apply_binary_rules, a1, b1)
                if r1[0] == 'ok' and r0[0] == 'ok' and (r1[1] or r0[1]) and n_tw < 60:       # chosen by shape, not by the answers compared below
                    seed_pairs += [['en', str(a_), str(b_)], ['en', str(a1), str(b1)]]
                    n_tw += 1
    ctx.stats['twin_pairs'] = n_tw
    seed_pairs += [['en', 'S[X]/(NP[X]/N[X])', '(NP[conj]/N[num])/PP'], ['en', '(S[X]\\NP[X])/NP[X]', 'NP[conj]'], ['en', 'NP[nb]/N', 'N[num]']]
    # the unary rules of both grammars over every key of the shipped tables: same answers in every process and in every order of asking
    for lang_ in ('en', 'ja'):
        seed_pairs += [[lang_ + '-unary', str(k_), ''] for k_ in gen.grammar(lang_)[2]]
    pf = os.path.join(ctx.work, 'seed_pairs.json')
    json.dump(seed_pairs, open(pf, 'w'))
    sf = os.path.join(ctx.work, 'seed_script.py')
    open(sf, 'w').write(SEED_SCRIPT % {'harness': env.HARNESS})
    outs = {}
    seeds = range(4) if ctx.quick else range(16)
    procs = []
    for s in seeds:
        e = dict(os.environ, PYTHONHASHSEED=str(s))
        procs.append((s, subprocess.Popen([sys.executable, '-B', sf, pf], env=e, stdout=subprocess.PIPE, stderr=subprocess.DEVNULL, text=True)))
    prev = subprocess.Popen([sys.executable, '-B', sf, pf, 'reversed'], env=dict(os.environ, PYTHONHASHSEED='0'), stdout=subprocess.PIPE, stderr=subprocess.DEVNULL, text=True)
    for s, p in procs:
        o, _ = p.communicate()
        outs[s] = o.strip().splitlines()[-1] if o.strip() else ''
    base = outs[list(seeds)[0]]
    o, _ = prev.communicate()
    rev = json.loads((o.strip().splitlines() or ['[]'])[-1])
    fwd = json.loads(base or '[]')
    p3 = subprocess.run([sys.executable, '-B', sf, pf, 'bysize'], env=dict(os.environ, PYTHONHASHSEED='0'), stdout=subprocess.PIPE, stderr=subprocess.DEVNULL, text=True)
    big = json.loads((p3.stdout.strip().splitlines() or ['[]'])[-1])
    for k in range(min(len(big), len(fwd))):
        if big[k] != fwd[k] and (k >= len(rev) or rev[k] == fwd[k]):
            rev = list(rev) + [None] * (k + 1 - len(rev))
            rev[k] = big[k]         # reported below as an order dependence
    for k in range(min(len(rev), len(fwd))):
        if rev[k] != fwd[k]:
            ctx.fail('history_dependence', f'{seed_pairs[k][0]}: rules applied to ({seed_pairs[k][1]}, {seed_pairs[k][2] or "-"}) return {fwd[k]} when the list of pairs is evaluated in order '
                     f'and {rev[k]} when it is evaluated in another order (reversed / longest categories first; fresh interpreter each): the answer depends on which other pairs were asked before',
                     {'lang': seed_pairs[k][0], 'x': seed_pairs[k][1], 'y': seed_pairs[k][2]})
            break
    # history independence: what this (long-running) process returns now for the same pairs, after thousands of other calls, must be
    # what a fresh interpreter returns
    def here(lang, x, y):
        try:
            if lang.endswith('-unary'):
                rs = gen.grammar(lang[:2])[1](Category.parse(x))
            else:
                rs = (en if lang == 'en' else ja).apply_binary_rules(Category.parse(x), Category.parse(y))
            return [[str(r.cat), r.op_string, r.op_symbol, r.head_is_left] for r in rs]
        except Exception as e:      # noqa
            return 'ERR:' + type(e).__name__
    fresh = json.loads(base or '[]')
    # object churn: the same pairs again and again on freshly parsed, short-lived category objects - an answer is a function of the category
    # VALUES, not of which objects (addresses) were seen before
    churn_n = 0
    for rep in range(4 if ctx.quick else 12):
        for k, (lang, x, y) in enumerate(seed_pairs):
            if k < len(fresh):
                churn_n += 1
                h_ = here(lang, x, y)
                if h_ != fresh[k]:
                    ctx.fail('history_dependence', f'{lang}: rules applied to ({x}, {y or "-"}) on freshly built objects return {h_} after {churn_n} earlier calls in this process '
                             f'but {fresh[k]} in a fresh interpreter', {'lang': lang, 'x': x, 'y': y})
                    break
        else:
            continue
        break
    ctx.stats['churn_calls'] = churn_n
    for k, (lang, x, y) in enumerate(seed_pairs):
        if k < len(fresh) and here(lang, x, y) != fresh[k]:
            ctx.fail('history_dependence', f'{lang}: apply_binary_rules({x}, {y}) returns {here(lang, x, y)} in this process (after other calls) but {fresh[k]} in a fresh interpreter',
                     {'lang': lang, 'x': x, 'y': y})
            break
    for s in seeds:
        if outs[s] != base:
            a, b = json.loads(base or '[]'), json.loads(outs[s] or '[]')
            k = next((i for i in range(min(len(a), len(b))) if a[i] != b[i]), None)
            ctx.fail('hash_seed_dependence', f'results differ between PYTHONHASHSEED={list(seeds)[0]} and {s}' + (f' on {seed_pairs[k]}: {a[k]} vs {b[k]}' if k is not None else ''),
                     {'seed': s, 'pair': seed_pairs[k] if k is not None else None})
    ctx.stats['hash_seeds'] = len(list(seeds))
    ctx.stats['hash_seed_pairs'] = len(seed_pairs)
    ctx.sample({'binary_case': descr[0] if descr else None})
    ctx.sample({'hash_seed_pairs': seed_pairs[-3:]})
    ctx.trusted += ['translator translate/gen_grammar.py (en.py/ja.py -> GenEn.v/GenJa.v, regenerated on every run; tied by the BinEn/BinJa/UnEn/UnJa cases)',
                    'hand-written model coq/Unify.v of unification.py (tied by C06 and by these cases)',
                    'purity across processes/hash seeds is decided by running fresh interpreters; in Gallina the rule functions are functions (no hidden state)']
    return ctx.finish(level='proof',
                      rule='pairs drawn from the shipped inventories (+rebank), categories with repeated feature variables, random well-formed categories of one feature system; seen-rule sets {the pair}, {}, the shipped set; every key of the shipped unary tables + 40 non-keys; 4 (quick) / 16 (thorough) interpreter processes with different PYTHONHASHSEED; non-trivial = at least one rule fires; distinct by (lang, x, y)',
                      assumptions=['domain of totality: well-formed categories of ONE feature system (mixing unary features and triples can raise AttributeError, C06)',
                                   'Japanese unary keys must have a feature triple on their result atom'])


def replay(data):
    """re-execute the failures of a replay file on the implementation (the 'nb_marks' stream; other failures are shown as recorded)"""
    import json as _json
    from depccg.grammar import en
    bad = 0
    seen_all = None
    for f in data.get('failures', []):
        d = f['data'] if isinstance(f.get('data'), dict) else {}
        print(f"[{f['kind']}] {f['desc']}")
        if d.get('stream') == 'nb_marks' and 'x0' in d:
            if seen_all is None:
                seen_all = {(erase(Category.parse(a), ('X', 'nb')), erase(Category.parse(b), ('X', 'nb'))) for a, b in gen.model_file('seen_rules.en.jsonnet')}
            x, y = Category.parse(d['x']), Category.parse(d['y'])
            x0, y0 = erase(x), erase(y)
            _, _, out, _, probs = nb_check(en, x0, y0, {p for p in nb_slots(x0) if p not in nb_slots(x)}, {p for p in nb_slots(y0) if p not in nb_slots(y)}, seen_all)
            print('   now:', G.sig(out), '->', [w for _, w in probs] or 'same as without nb marks')
            bad += bool(probs)
        else:
            print('   data:', _json.dumps(d)[:600])
    for b in data.get('broken_obligations', []):
        print('broken obligation:', b if isinstance(b, str) else b.get('name') if isinstance(b, dict) else b[0])
    return 1 if bad or data.get('broken_obligations') else 0
