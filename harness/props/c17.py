"""C17 - The category dictionary restricts exactly the listed words (depccg/parsing.py apply_category_filters, shipped model files)."""
import env
import numpy
import gen
from gallina import lit, gcat, glist, toks
from depccg.cat import Category, Atom, Functor
from depccg.types import Token, ScoringResult
import depccg.parsing as P

PRE = '''From Coq Require Import List NArith ZArith Bool.
Import ListNotations.
Require Import Cat CatFacts CatLex Filter GenTables.
Open Scope N_scope.
Fixpoint list_eqb {A} (f : A -> A -> bool) (a b : list A) : bool :=
  match a, b with [], [] => true | x :: a', y :: b' => f x y && list_eqb f a' b' | _, _ => false end.
Definition mat_eqb (a b : mat) : bool := Nat.eqb (ncols a) (ncols b) && list_eqb (list_eqb Z.eqb) (rows a) (rows b).
Definition sc_eqb (a b : scores) : bool := mat_eqb (tag a) (tag b) && mat_eqb (dep a) (dep b).
Definition err_eqb (a b : err) : bool := match a, b with EIndex, EIndex | ERuntime, ERuntime | EKey, EKey | EMask, EMask => true | _, _ => false end.
Definition out := (list (list word) * list scores)%type.
Definition res_eqb (a b : res out) : bool :=
  match a, b with
  | Ok (d1, s1), Ok (d2, s2) => list_eqb (list_eqb text_eqb) d1 d2 && list_eqb sc_eqb s1 s2
  | Err e1, Err e2 => err_eqb e1 e2
  | _, _ => false
  end.
(* the returned value, and the state of the caller's arrays after the call (they are updated in place; untouched on an exception) *)
Definition ChkF (neg : Z) (cats : list cat) (cd : list (word * list cat)) (d : docarg) (s : scarg) (exp : res out) (after : list scores) : bool :=
  res_eqb (apply_category_filters neg cats cd d s) exp && list_eqb sc_eqb (arrays_after neg cats cd d s) after.
Definition ChkT (ntags : nat) (d : docarg) (s : scarg) (exp : res out) : bool := res_eqb (type_check ntags d s) exp.
(* the dictionary given as index lists: apply_filter itself *)
Definition ChkA (neg : Z) (dix : list (word * list nat)) (ntags : nat) (docs : list (list word)) (scs : list scores) (exp : option (list scores)) : bool :=
  match apply_filter neg dix ntags docs scs, exp with Some a, Some b => list_eqb sc_eqb a b | None, None => true | _, _ => false end.
(* a shipped string: the model's lexer gives the token list the translator emitted, and the reader the value Python read *)
Definition ChkShip (t : text) (ts : list text) (c : cat) : bool :=
  list_eqb text_eqb (lex specials t) ts && match parse_toks puncts ts with Some c' => cat_eqb c' c | None => false end.
'''

WORDS = ['a', 'the', 'Dog', 'runs', ',', 'ü', '猫', 'x y', 'A', '', '(', ')', '-LRB-', '[', '-RSB-']
ABSENT = ['zebra', 'The', 'dog', '.']
ERR = {IndexError: 'EIndex', RuntimeError: 'ERuntime', KeyError: 'EKey'}


# ---------- serialisation ----------
def gmat(a):
    assert a.ndim == 2
    rows = []
    for r in a:
        vals = []
        for v in r:
            iv = int(v)
            assert float(iv) == float(v), f'non-integer score {v!r}'
            vals.append(str(iv))
        rows.append('[' + ';'.join(vals) + ']')
    return f'(mkMat {a.shape[1]}%nat ([' + ';'.join(rows) + '])%Z)'


def gsc(tag, dep):
    return f'(mkSc {gmat(tag)} {gmat(dep)})'


def gdoc(form, sents):
    if form == 'one':
        return f'(DocOne {glist(sents[0], lit)})'
    return f'(DocMany {glist(sents, lambda s: glist(s, lit))})'


def gscarg(form, arrs):
    if form == 'one':
        return f'(ScOne {gsc(*arrs[0])})'
    return f'(ScMany {glist(arrs, lambda p: gsc(*p))})'


def gcd(cd):
    return glist(list(cd.items()), lambda kv: f'({lit(kv[0])}, {glist(kv[1], gcat)})')


def gres(words, arrs):
    return f'(Ok ({glist(words, lambda s: glist(s, lit))}, {glist(arrs, lambda p: gsc(*p))}))'


# ---------- inputs ----------
def mk_arrays(rng, n, ntags, tag_shape=None, dep_shape=None):
    ts = tag_shape or (n, ntags)
    ds = dep_shape or (n, n + 1)
    tag = numpy.array([[rng.randint(-50, 50) for _ in range(ts[1])] for _ in range(ts[0])], dtype=numpy.float32).reshape(ts)
    dep = numpy.array([[rng.randint(-50, 50) for _ in range(ds[1])] for _ in range(ds[0])], dtype=numpy.float32).reshape(ds)
    return tag, dep


# spellings that other parts of depccg identify (PTB bracket escapes): for the dictionary they are different words
ESCAPES = {'(': '-LRB-', ')': '-RRB-', '{': '-LCB-', '}': '-RCB-', '[': '-LSB-', ']': '-RSB-',
           '-LRB-': '(', '-RRB-': ')', '-LCB-': '{', '-RCB-': '}', '-LSB-': '[', '-RSB-': ']'}
LAYOUTS = ['C', 'C', 'F', 'colslice', 'rowslice', 'reversed']


def relayout(a, layout):
    """an array with the same shape, dtype and values as `a` in another memory layout (what slicing, transposing or
    numpy.asfortranarray hand to a caller); 'C' is a fresh C-contiguous array"""
    if a.ndim != 2 or layout == 'C':
        return a
    if layout == 'F':
        return numpy.asfortranarray(a)
    if layout == 'colslice':
        big = numpy.full((a.shape[0], 2 * a.shape[1] + 1), 77, dtype=a.dtype)
        v = big[:, 1::2]
    elif layout == 'rowslice':
        big = numpy.full((2 * a.shape[0] + 1, a.shape[1]), 77, dtype=a.dtype)
        v = big[1::2]
    else:
        v = numpy.empty_like(a)[::-1, ::-1]
    v[...] = a
    assert v.shape == a.shape and numpy.array_equal(v, a)
    return v


def mk_tokens(rng, words):
    return [Token(word=w) if rng.random() < 0.5 else Token.of_word(w) for w in words]


# ---------- documents that are edited in place between two filter calls ----------
# A Token is a mutable dict; a document lives for several passes (tokenise / normalise / tag again).  An edit is plain data
# (JSON-able, replayable): (name, sentence, index, new word) or ('swap', sentence, index, sentence2, index2) or ('read', sentence, index, None).
EDIT_KINDS = ['set', 'set', 'update', 'update_dict', 'pop', 'del', 'clear', 'ior', 'setdefault']


def apply_edit(docs, op):
    """apply one edit through the dict interface; `docs` is a list of lists of Token objects or of plain dicts (the harness's shadow copy)"""
    name = op[0]
    if name == 'swap':
        a, b = docs[op[1]][op[2]], docs[op[3]][op[4]]
        a['word'], b['word'] = b['word'], a['word']
        return
    t, w = docs[op[1]][op[2]], op[3]
    if name == 'read':              # an earlier reader of the document (attribute access, as depccg itself reads tokens); no change of content
        if isinstance(t, Token):
            t.word
    elif name == 'set':
        t['word'] = w
    elif name == 'update':
        t.update(word=w)
    elif name == 'update_dict':
        t.update({'word': w})
    elif name == 'pop':
        t.pop('word')
        t['word'] = w
    elif name == 'del':
        del t['word']
        t['word'] = w
    elif name == 'clear':
        items = dict(t)
        items['word'] = w
        t.clear()
        t.update(items)
    elif name == 'ior':
        t |= {'word': w}
    elif name == 'setdefault':
        t.pop('word')
        t.setdefault('word', w)
    elif name == 'other_key':       # an attribute the filter does not look at
        t['lemma'] = w
    else:
        raise ValueError(name)


def rebuild_history(hist, cats, cd):
    """the Token objects of a replay file: the initial tokens, the edits before the first pass, then per earlier pass one filter call
    (scores of an earlier pass do not matter to a later one: zeros) followed by that pass's edits"""
    toks_ = [[Token(**dict(items)) for items in s] for s in hist['initial']]
    for op in hist['pre']:
        apply_edit(toks_, op)
    for ops in hist['rounds']:
        sc = [ScoringResult(numpy.zeros((len(s), len(cats)), dtype=numpy.float32), numpy.zeros((len(s), len(s) + 1), dtype=numpy.float32)) for s in toks_]
        try:
            P.apply_category_filters(toks_, sc, list(cats), {w: list(cs) for w, cs in cd.items()})
        except Exception as e:      # noqa
            print(f'   (an earlier pass raised {type(e).__name__}: {e})')
        for op in ops:
            apply_edit(toks_, op)
    return toks_


def rand_dict(rng, cats, pool, extra_cats=()):
    cd = {}
    for w in rng.sample(pool + ABSENT, rng.randint(0, min(5, len(pool) + len(ABSENT)))):
        k = rng.random()
        if k < 0.15:
            cs = []
        elif k < 0.25:
            cs = list(cats)
        else:
            cs = [rng.choice(cats) for _ in range(rng.randint(1, max(1, len(cats))))]      # repeats allowed
        if extra_cats and rng.random() < 0.5:
            cs.insert(rng.randint(0, len(cs)), rng.choice(extra_cats))
        cd[w] = cs
    return cd


def observe(fn, doc_arg, sc_arg, cats, cd, lnv):
    """call the implementation; ('ok', returned_doc, returned_scores) or ('err', enum-or-name)"""
    try:
        if fn == 'filter':
            r = P.apply_category_filters(doc_arg, sc_arg, cats, cd) if lnv is None else P.apply_category_filters(doc_arg, sc_arg, cats, cd, lnv)
        else:
            r = P._type_check(doc_arg, sc_arg, cats)
    except Exception as e:      # noqa
        return ('err', ERR.get(type(e), 'other:' + type(e).__name__))
    return ('ok',) + tuple(r)


def neg_of(lnv):
    """the integer that the float32 array entry holds after `array[...] = lnv`"""
    v = numpy.float32(-10e+32 if lnv is None else lnv)
    assert float(int(v)) == float(v)
    return int(v)


def run(ctx):
    rng = ctx.rng
    ctx.build(['P_C17.vo'], gens=('tables', 'data'))
    ctx.theorems('P_C17')

    inv = {lang: [Category.parse(s) for s in gen.inventory(lang)] for lang in ('en', 'ja')}
    cases, descr = [], []

    def one_call(kind, dform, sform, sents, arrs, cats, cd, lnv, malformed=False, fn='filter', tokens=None, shadow=None, history=None):
        """run the implementation once; emit the correspondence case; evaluate the independent oracle.
        tokens: existing Token objects of a document that lives across calls (sents = their CURRENT words, read through the dict interface);
        shadow: the content those tokens must have (plain dicts kept by the harness); history: how they got there (for the replay)"""
        toks_ = tokens if tokens is not None else [mk_tokens(rng, s) for s in sents]
        toks0 = [[dict(t) for t in s] for s in toks_]
        arrs0 = [(t.copy(), d.copy()) for t, d in arrs]
        layout = rng.choice(LAYOUTS)
        arrs = [(relayout(t, layout), relayout(d, rng.choice(LAYOUTS))) for t, d in arrs]
        ctx.count(f'tag_layout:{layout}')
        doc_arg = toks_[0] if dform == 'one' else toks_
        sc_arg = ScoringResult(*arrs[0]) if sform == 'one' else [ScoringResult(t, d) for t, d in arrs]
        cd_arg = {w: list(cs) for w, cs in cd.items()}
        obs = observe(fn, doc_arg, sc_arg, list(cats), cd_arg, lnv)
        neg = neg_of(lnv)
        two_d = all(t.ndim == 2 and d.ndim == 2 for t, d in arrs)
        data = {'kind': kind, 'doc_form': dform, 'scores_form': sform, 'sentences': sents, 'categories': [str(c) for c in cats],
                'dictionary': {w: [str(c) for c in cs] for w, cs in cd.items()}, 'large_negative_value': lnv,
                'tag_scores': [t.tolist() for t, _ in arrs0], 'dep_scores': [d.tolist() for _, d in arrs0], 'fn': fn, 'tag_layout': layout}
        if history is not None:
            data['mutation_history'] = history
        ctx.count(f'{fn}:{kind}:{obs[0] if obs[0] == "ok" else obs[1]}')
        nontriv = obs[0] == 'ok' and any(w in cd for s in sents for w in s)
        ctx.case((fn, kind, dform, sform, tuple(map(tuple, sents)), tuple(str(c) for c in cats), tuple((w, tuple(map(str, cs))) for w, cs in cd.items()),
                  tuple(t.tobytes() for t, _ in arrs0), lnv), nontrivial=nontriv or malformed)
        # ---- correspondence case (only what the model can express: 2-D arrays)
        if two_d:
            if obs[0] == 'ok':
                try:
                    rdoc = [[t.word for t in s] for s in obs[1]]
                    rsc = [(numpy.asarray(x.tag_scores), numpy.asarray(x.dep_scores)) for x in obs[2]]
                    exp = gres(rdoc, rsc)
                except Exception as e:      # noqa
                    exp = None
            else:
                exp = f'(Err {obs[1]})' if not obs[1].startswith('other:') else None
            if exp is None:
                cases.append('false')
            elif fn == 'filter':
                passed = arrs[:1] if sform == 'one' else arrs
                cases.append(f'ChkF ({neg})%Z {glist(cats, gcat)} {gcd(cd)} {gdoc(dform, sents)} {gscarg(sform, arrs0)} {exp} {glist(passed, lambda p: gsc(*p))}')
            else:
                cases.append(f'ChkT {len(cats)}%nat {gdoc(dform, sents)} {gscarg(sform, arrs0)} {exp}')
            descr.append((fn, kind, dform, sform, sents, [str(c) for c in cats], data['dictionary'], obs[0] if obs[0] == 'ok' else obs[1]))
        # ---- independent oracle: the property, with plain loops on the copies
        if fn != 'filter':
            if malformed and obs[0] == 'ok':
                ctx.fail('shape_not_rejected', f'_type_check accepted incompatible inputs ({kind})', data)
            return obs
        untouched = all(t.tobytes() == t0.tobytes() and d.tobytes() == d0.tobytes() and t.shape == t0.shape and d.shape == d0.shape
                        for (t, d), (t0, d0) in zip(arrs, arrs0))
        if malformed:
            if obs[0] == 'ok':
                ctx.fail('shape_not_rejected', f'apply_category_filters accepted inputs whose shapes/forms do not fit ({kind})', data)
            elif not untouched:
                ctx.fail('modified_before_rejecting', f'apply_category_filters raised {obs[1]} on ill-shaped inputs ({kind}) after modifying the arrays', data)
            return obs
        dup_free = len({str(c) for c in cats}) == len(cats)
        known = all(str(c) in {str(x) for x in cats} for cs in cd.values() for c in cs)
        if not (dup_free and known):
            return obs        # outside the domain of the property (duplicate category list / unknown dictionary category): correspondence only
        if obs[0] != 'ok':
            ctx.fail('filter_raises', f'apply_category_filters raised {obs[1]} on well-shaped inputs ({kind})', data)
            return obs
        rdoc, rsc = obs[1], obs[2]
        big = numpy.float32(-10e+32 if lnv is None else lnv)
        if not (isinstance(rdoc, list) and len(rdoc) == len(toks_) and all(len(a) == len(b) and all(x is y for x, y in zip(a, b)) for a, b in zip(rdoc, toks_))):
            ctx.fail('tokens_changed', 'the returned document is not the given sentences/tokens in the given order', data)
            return obs
        if [[dict(t) for t in s] for s in toks_] != toks0:
            ctx.fail('tokens_changed', 'token attributes were modified', data)
        if shadow is not None:
            # an edited token is still nothing but its items: equal (both ways) to a freshly built Token with the same content
            for k, (ts, ss) in enumerate(zip(toks_, shadow)):
                for i, (t, c) in enumerate(zip(ts, ss)):
                    fresh = Token(**c)
                    if not (dict(t) == c and t == fresh and fresh == t and not (t != fresh)):
                        ctx.fail('tokens_changed', f'token [{k}][{i}] is {t!r} after the edits and the filter call; a fresh token with the content the edits give is {fresh!r}', data)
                        return obs
        if not (len(rsc) == len(arrs)):
            ctx.fail('scores_changed', f'{len(rsc)} score results returned for {len(arrs)} sentences', data)
            return obs
        listed = {w: {str(c) for c in cs} for w, cs in cd.items()}
        names = [str(c) for c in cats]
        for k, ((t0, d0), ws) in enumerate(zip(arrs0, sents)):
            for which, (rt, rd) in (('returned', (rsc[k][0], rsc[k][1])), ('caller\'s', arrs[k])):
                if not (rd.dtype == d0.dtype and rd.shape == d0.shape and rd.tobytes() == d0.tobytes()):
                    ctx.fail('dep_scores_changed', f'{which} dependency scores of sentence {k} differ from the input', data)
                    return obs
                if not (rt.dtype == t0.dtype and rt.shape == t0.shape):
                    ctx.fail('tag_shape_changed', f'{which} tag scores of sentence {k}: shape {rt.shape} dtype {rt.dtype}, input {t0.shape} {t0.dtype}', data)
                    return obs
                for i, w in enumerate(ws):
                    for j in range(len(cats)):
                        want = t0[i, j] if (w not in listed or names[j] in listed[w]) else big
                        if not (rt[i, j] == want):
                            why = 'word not in the dictionary' if w not in listed else ('category listed for the word' if names[j] in listed[w] else 'category not listed for the word')
                            note = ''
                            if tokens is not None:
                                try:
                                    note = f'; the token was edited in place before this pass: token["word"] is {toks_[k][i]["word"]!r}, token.word reads {toks_[k][i].word!r}'
                                except Exception as e:      # noqa
                                    note = f'; the token was edited in place before this pass ({type(e).__name__} on reading it back)'
                            ctx.fail('wrong_entry', f'{which} tag score [{k}][{i}][{j}] (word {w!r}, category {names[j]!r}: {why}) is {rt[i, j]!r}, expected {want!r} (input {t0[i, j]!r}){note}', data)
                            return obs
        return obs

    def rand_cats(lang=None, dup=False):
        lang = lang or rng.choice(['en', 'en', 'ja'])
        cats = rng.sample(inv[lang], rng.randint(1, 7))
        if dup and len(cats) > 1:
            cats.insert(rng.randint(0, len(cats)), gen_copy(rng.choice(cats)))
        return cats

    def gen_copy(c):
        return Category.parse(str(c))

    def rand_sents(nsent=None, allow_empty_tail=True):
        k = nsent or rng.randint(1, 4)
        sents = [[rng.choice(WORDS) for _ in range(rng.randint(1, 5))] for _ in range(k)]
        if allow_empty_tail and k > 1 and rng.random() < 0.15:
            sents[rng.randint(1, k - 1)] = []
        return sents

    # ------------------------------------------------------------------ 1. well-shaped calls
    n_ok = 350 if ctx.quick else 4000
    for it in range(n_ok):
        dup = rng.random() < 0.1
        cats = rand_cats(dup=dup)
        form = 'one' if rng.random() < 0.3 else 'many'
        sents = rand_sents(1 if form == 'one' else None)
        arrs = [mk_arrays(rng, len(s), len(cats)) for s in sents]
        extra = [c for c in rng.sample(inv['en'], 3) if str(c) not in {str(x) for x in cats}] if rng.random() < 0.08 else ()
        cd = rand_dict(rng, cats, list({w for s in sents for w in s}), extra)
        if cd and rng.random() < 0.4:
            # near misses of dictionary words: longer / shorter / differently cased forms are OTHER words and stay untouched
            keys = list(cd)
            for s_ in sents:
                for j_ in range(len(s_)):
                    if s_[j_] not in cd and rng.random() < 0.6:
                        k_ = rng.choice(keys)
                        v_ = rng.choice([k_ + 's', k_ + '10', k_ + k_, k_[:-1], k_.upper(), k_ + ' ', 'x' + k_, ESCAPES.get(k_, k_ + '.')])
                        if v_ and v_ not in cd:
                            s_[j_] = v_
            ctx.count('words:near_misses_of_keys')
        lnv = rng.choice([None, None, -1000.0, -2.0 ** 20, -1.0, 0.0, -3.5e38 / 4])
        one_call('dup-categories' if dup else ('unknown-dict-category' if extra and any(c in cs for cs in cd.values() for c in extra) else 'well-shaped'),
                 form, form, sents, arrs, cats, cd, lnv)

    # ------------------------------------------------------------------ 1b. mutated documents: the SAME token objects through several passes, edited in place in between
    # (lower-casing / normalising a document, swapping words, update / pop + reinsert).  Every pass is judged - by the same oracle and the same model -
    # on the words the document holds at the time of the call.  Two orders: the filter is the first reader of the tokens, or the harness (any earlier
    # consumer) has read them through attribute access and possibly edited them before the first pass.
    def variants(w):
        return [v for v in dict.fromkeys([w.lower(), w.upper(), w.capitalize(), w.swapcase(), w.strip(), ESCAPES.get(w, w), w + 's', w[:-1]]) if v != w]

    def new_word(w, cd, vocab):
        """another word, preferably one that the dictionary treats differently (membership or category list)"""
        sig = lambda x: None if x not in cd else frozenset(str(c) for c in cd[x])      # noqa
        var = variants(w)
        near = [v for v in var if sig(v) != sig(w)]
        far = [v for v in vocab if v != w and sig(v) != sig(w)]
        r = rng.random()
        if near and r < 0.4:
            return rng.choice(near)
        if far and r < 0.85:
            return rng.choice(far)
        return rng.choice(var + [v for v in vocab if v != w])

    def rand_edits(shadow, cd, vocab):
        """edits of one normalisation step, as data; applied to the shadow while they are drawn (a swap must see the words of the moment)"""
        pos = [(k, i) for k, s in enumerate(shadow) for i in range(len(s))]
        ops = []
        style = rng.random()
        if style < 0.2:             # lower-/upper-case the whole document with one idiom
            f, kind = rng.choice([str.lower, str.upper, str.capitalize]), rng.choice(EDIT_KINDS)
            ops = [(kind, k, i, f(shadow[k][i]['word'])) for k, i in pos]
        elif style < 0.35 and len(pos) > 1:     # swap words between tokens
            for _ in range(rng.randint(1, len(pos))):
                (k, i), (k2, i2) = rng.sample(pos, 2)
                ops.append(('swap', k, i, k2, i2))
        else:
            for k, i in rng.sample(pos, rng.randint(1, len(pos))):
                r = rng.random()
                if r < 0.08:
                    ops.append(('read', k, i, None))
                elif r < 0.14:
                    ops.append(('other_key', k, i, rng.choice(vocab)))
                elif r < 0.24 and len(pos) > 1:
                    k2, i2 = rng.choice([p for p in pos if p != (k, i)])
                    ops.append(('swap', k, i, k2, i2))
                else:
                    ops.append((rng.choice(EDIT_KINDS), k, i, None))        # word drawn below, from the word of the moment
        done = []
        for op in ops:
            if op[0] in EDIT_KINDS and op[3] is None:
                op = (op[0], op[1], op[2], new_word(shadow[op[1]][op[2]]['word'], cd, vocab))
            apply_edit(shadow, op)
            done.append(list(op))
            ctx.count(f'mutated:edit:{op[0]}')
        return done

    n_mut = 60 if ctx.quick else 600
    for it in range(n_mut):
        cats = rand_cats()
        form = 'one' if rng.random() < 0.25 else 'many'
        sents = rand_sents(1 if form == 'one' else None)
        doc_words = list({w for s in sents for w in s})
        vocab = list(dict.fromkeys(doc_words + [v for w in doc_words for v in variants(w)] + WORDS + ABSENT))
        # the dictionary is over the words of the document AND the words the edits can produce
        others = [v for v in vocab if v not in doc_words]
        cd = rand_dict(rng, cats, doc_words + rng.sample(others, min(len(others), len(doc_words) + 1)))
        toks_ = [mk_tokens(rng, s) for s in sents]
        shadow = [[dict(t) for t in s] for s in toks_]
        hist = {'initial': [[[list(kv) for kv in t.items()] for t in s] for s in toks_], 'pre': [], 'rounds': []}
        if rng.random() < 0.5:
            # reverse order: someone has read the tokens (token.word) before the filter sees them for the first time, and then edits them
            pre = [('read', k, i, None) for k, s in enumerate(toks_) for i in range(len(s)) if rng.random() < 0.8]
            for op in pre:
                apply_edit(toks_, op)
            pre = [list(op) for op in pre]
            if rng.random() < 0.75:
                ops = rand_edits(shadow, cd, vocab)
                for op in ops:
                    apply_edit(toks_, op)
                pre += ops
            hist['pre'] = pre
            ctx.count('mutated:read_before_first_pass')
        else:
            ctx.count('mutated:filter_is_first_reader')
        nrounds = rng.randint(3, 5)
        for r in range(nrounds):
            words = [[t['word'] for t in s] for s in toks_]
            before_sig = [[(w in cd, tuple(sorted(str(c) for c in cd.get(w, [])))) for w in s] for s in words]
            arrs = [mk_arrays(rng, len(s), len(cats)) for s in words]
            lnv = rng.choice([None, None, -1000.0, -2.0 ** 20, -1.0])
            one_call('mutated-doc', form, form, words, arrs, cats, cd, lnv, tokens=toks_, shadow=shadow,
                     history={'initial': hist['initial'], 'pre': hist['pre'], 'rounds': [list(x) for x in hist['rounds']]})
            ctx.count(f'mutated:pass:{r}')
            if r == nrounds - 1:
                break
            ops = rand_edits(shadow, cd, vocab)
            for op in ops:
                apply_edit(toks_, op)
            hist['rounds'].append(ops)
            after = [[t['word'] for t in s] for s in toks_]
            after_sig = [[(w in cd, tuple(sorted(str(c) for c in cd.get(w, [])))) for w in s] for s in after]
            ctx.count('mutated:tokens_whose_dictionary_entry_changed', sum(a != b for sa, sb in zip(before_sig, after_sig) for a, b in zip(sa, sb)))

    # ------------------------------------------------------------------ 2. ill-shaped / ill-formed calls: both sides must reject, nothing may change
    def malformed_case():
        cats = rand_cats()
        n = len(cats)
        kind = rng.choice(['tag-cols', 'tag-cols-later', 'tag-rows', 'dep-rows', 'dep-cols', 'dep-square', 'form-doc-one', 'form-sc-one', 'count', 'empty-doc-one', 'empty-doc-many',
                           'empty-first-sentence', 'empty-scores', 'categories-short', 'categories-long'])
        dform = sform = 'many'
        sents = rand_sents(rng.randint(2, 4), allow_empty_tail=False)
        arrs = [mk_arrays(rng, len(s), n) for s in sents]
        k = rng.randrange(len(sents))
        m = len(sents[k])
        if kind == 'tag-cols':
            arrs[0] = mk_arrays(rng, len(sents[0]), n, tag_shape=(len(sents[0]), n + rng.choice([-1, 1, 2]) if n > 1 else n + 1))
        elif kind == 'tag-cols-later':
            arrs[k] = mk_arrays(rng, m, n, tag_shape=(m, n + 1))
        elif kind == 'tag-rows':
            arrs[k] = mk_arrays(rng, m, n, tag_shape=(m + rng.choice([-1, 1]), n))
        elif kind == 'dep-rows':
            arrs[k] = mk_arrays(rng, m, n, dep_shape=(m + 1, m + 1))
        elif kind == 'dep-cols':
            arrs[k] = mk_arrays(rng, m, n, dep_shape=(m, m + 2))
        elif kind == 'dep-square':
            arrs[k] = mk_arrays(rng, m, n, dep_shape=(m, m))
        elif kind == 'form-doc-one':
            dform = 'one'
        elif kind == 'form-sc-one':
            sform = 'one'
        elif kind == 'count':
            arrs = arrs + [mk_arrays(rng, 2, n)] if rng.random() < 0.5 else arrs[:-1]
        elif kind == 'empty-doc-one':
            dform = sform = 'one'
            sents, arrs = [[]], [mk_arrays(rng, 0, n)]
        elif kind == 'empty-doc-many':
            sents, arrs = [], []
        elif kind == 'empty-first-sentence':
            sents[0] = []
            arrs[0] = mk_arrays(rng, 0, n)
        elif kind == 'empty-scores':
            arrs = []
        elif kind == 'categories-short' and n > 1:
            cats = cats[:-1]
        elif kind in ('categories-long', 'categories-short'):
            cats = cats + [rng.choice(inv['en'])]
        cd = rand_dict(rng, cats, list({w for s in sents for w in s}))
        return kind, dform, sform, sents, arrs, cats, cd

    n_bad = 250 if ctx.quick else 2500
    for it in range(n_bad):
        kind, dform, sform, sents, arrs, cats, cd = malformed_case()
        fn = 'filter' if rng.random() < 0.7 else 'type_check'
        one_call(kind, dform, sform, sents, arrs, cats, cd, rng.choice([None, -1000.0]), malformed=True, fn=fn)
    # arrays that are not 2-D (outside the model: oracle only)
    for it in range(20 if ctx.quick else 200):
        cats = rand_cats()
        sents = rand_sents(2, allow_empty_tail=False)
        arrs = [mk_arrays(rng, len(s), len(cats)) for s in sents]
        k = rng.randrange(2)
        t, d = arrs[k]
        which = rng.choice(['tag-1d', 'tag-3d', 'dep-3d'])
        arrs[k] = (t.reshape(-1), d) if which == 'tag-1d' else (t.reshape(t.shape + (1,)), d) if which == 'tag-3d' else (t, d.reshape(d.shape + (1,)))
        one_call(which, 'many', 'many', sents, arrs, cats, rand_dict(rng, cats, list({w for s in sents for w in s})), None, malformed=True)
    # _type_check on well-shaped inputs too
    for it in range(60 if ctx.quick else 600):
        cats = rand_cats()
        form = rng.choice(['one', 'many'])
        sents = rand_sents(1 if form == 'one' else None)
        one_call('well-shaped', form, form, sents, [mk_arrays(rng, len(s), len(cats)) for s in sents], cats, {}, None, fn='type_check')

    # ------------------------------------------------------------------ 3. apply_filter with explicit index lists (the theorem's form) against the implementation
    acases = 0
    for it in range(80 if ctx.quick else 800):
        cats = rand_cats()
        sents = rand_sents()
        arrs = [mk_arrays(rng, len(s), len(cats)) for s in sents]
        arrs0 = [(t.copy(), d.copy()) for t, d in arrs]
        cd = rand_dict(rng, cats, list({w for s in sents for w in s}))
        ids = {str(c): i for i, c in enumerate(cats)}
        obs = observe('filter', [mk_tokens(rng, s) for s in sents], [ScoringResult(t, d) for t, d in arrs], list(cats), {w: list(cs) for w, cs in cd.items()}, -77.0)
        dix = glist(list(cd.items()), lambda kv: f'({lit(kv[0])}, {glist([ids[str(c)] for c in kv[1]], lambda i: str(i) + '%nat')})')
        exp = f'(Some {glist(arrs, lambda p: gsc(*p))})' if obs[0] == 'ok' else 'None'
        cases.append(f'ChkA (-77)%Z {dix} {len(cats)}%nat {glist(sents, lambda s: glist(s, lit))} {glist(arrs0, lambda p: gsc(*p))} {exp}')
        descr.append(('apply_filter', sents, [str(c) for c in cats], {w: [str(c) for c in cs] for w, cs in cd.items()}, obs[0]))
        acases += 1
    ctx.stats['apply_filter_index_cases'] = acases

    # ------------------------------------------------------------------ 4. the shipped files, with the real Category.parse
    files = {}
    for lang in ('en', 'en_rebank', 'ja'):
        files[f'targets.{lang}'] = list(gen.model_file(f'targets.{lang}.jsonnet'))
        files[f'seen_rules.{lang}'] = [c for p in gen.model_file(f'seen_rules.{lang}.jsonnet') for c in p]
    for lang in ('en', 'ja'):
        files[f'unary_rules.{lang}'] = [c for p in gen.model_file(f'unary_rules.{lang}.jsonnet') for c in p]
    cat_dict = gen.model_file('cat_dict.en.jsonnet')
    files['cat_dict.en'] = [c for cs in cat_dict.values() for c in cs]
    parsed = {}
    for fname, strs in files.items():
        for s in dict.fromkeys(strs):
            ctx.case(('shipped', s), nontrivial=len(s) > 1)
            if s in parsed:
                continue
            try:
                v = Category.parse(s)
                ok = gen.well_typed(v)
            except Exception as e:      # noqa
                v, ok = None, False
            if not ok:
                ctx.fail('shipped_unreadable', f'{fname}: category string {s!r} is not readable by Category.parse', {'file': fname, 'text': s})
                continue
            parsed[s] = v
            try:
                v2 = Category.parse(str(v))
                same = gen.well_typed(v2) and str(v2) == str(v) and v2 == v
            except Exception:      # noqa
                same = False
            if not same or not gen.wf_py(v) or str(v).replace('(', '').replace(')', '').replace(' ', '') != s.replace('(', '').replace(')', '').replace(' ', ''):
                ctx.fail('shipped_not_wellformed', f'{fname}: {s!r} reads as {str(v)!r}, which does not read back to the same value / is not a well-formed category', {'file': fname, 'text': s})
        ctx.stats[f'shipped:{fname}'] = len(set(strs))
    for lang in ('en', 'en_rebank', 'ja'):
        strs = files[f'targets.{lang}']
        seen = {}
        for i, s in enumerate(strs):
            if s not in parsed:
                continue
            key = str(parsed[s])
            if key in seen:
                ctx.fail('inventory_duplicate', f'targets.{lang}: entries {seen[key]} and {i} ({strs[seen[key]]!r}, {s!r}) are the same category', {'file': f'targets.{lang}', 'text': s})
            seen.setdefault(key, i)
        vals = [parsed[s] for s in strs if s in parsed]
        if len(set(vals)) != len(vals) and len(seen) == len(vals):
            ctx.fail('inventory_duplicate', f'targets.{lang}: {len(vals)} categories but a set of them has {len(set(vals))} elements', {'file': f'targets.{lang}'})
    targets_en = [parsed[s] for s in files['targets.en'] if s in parsed]
    tset_text = {str(c) for c in targets_en}
    tset = set(targets_en)
    for w, cs in cat_dict.items():
        for s in cs:
            if s in parsed and (str(parsed[s]) not in tset_text or parsed[s] not in tset):
                ctx.fail('dict_category_not_in_inventory', f'cat_dict.en[{w!r}] lists {s!r}, which is not a category of targets.en: apply_category_filters raises KeyError',
                         {'file': 'cat_dict.en', 'word': w, 'text': s})
                break
    # the real dictionary on documents made of its words, loaded the way read_params does
    dwords = list(cat_dict)
    use = dwords if not ctx.quick else rng.sample(dwords, min(len(dwords), 600))
    try:
        real_cd = {w: [Category.parse(c) for c in cat_dict[w]] for w in use}
    except Exception as e:      # noqa
        real_cd = None
    # ... and through the loader itself (depccg/allennlp/utils.py read_params on the shipped configuration): ONE dictionary object, used for
    # every document below, as a running parser uses it batch after batch
    try:
        import os as _os
        from depccg.allennlp.utils import read_params
        loaded = read_params(_os.path.join(env.REPO, 'depccg', 'models', 'config_en.jsonnet'))[2]
        if isinstance(loaded, dict) and set(loaded) == set(cat_dict):
            real_cd = loaded
            ctx.count('shipped_dictionary:loaded_by_read_params')
        else:
            ctx.fail('shipped_dictionary_not_applicable', f'read_params(config_en.jsonnet) returns a dictionary with {len(loaded) if hasattr(loaded, "__len__") else "?"} words, '
                     f'cat_dict.en.jsonnet has {len(cat_dict)}', {'kind': 'read_params'})
    except Exception as e:      # noqa
        ctx.count(f'shipped_dictionary:read_params_unavailable:{type(e).__name__}')
    if real_cd is not None and targets_en:
        for it in range(3 if ctx.quick else 12):
            sents = [[rng.choice(use) if rng.random() < 0.8 else rng.choice(ABSENT) for _ in range(rng.randint(3, 12))] for _ in range(rng.randint(1, 3))]
            arrs = [mk_arrays(rng, len(s), len(targets_en)) for s in sents]
            arrs0 = [(t.copy(), d.copy()) for t, d in arrs]
            obs = observe('filter', [mk_tokens(rng, s) for s in sents], [ScoringResult(t, d) for t, d in arrs], targets_en, real_cd, None)
            data = {'kind': 'shipped-dictionary', 'sentences': sents}
            ctx.case(('shipped-dict', tuple(map(tuple, sents))), nontrivial=True)
            if obs[0] != 'ok':
                ctx.fail('shipped_dictionary_not_applicable', f'apply_category_filters with cat_dict.en and targets.en raised {obs[1]}', data)
                continue
            big = numpy.float32(-10e+32)
            names = [str(c) for c in targets_en]
            for k, ws in enumerate(sents):
                t, d = arrs[k]
                if d.tobytes() != arrs0[k][1].tobytes():
                    ctx.fail('dep_scores_changed', 'dependency scores changed (shipped dictionary)', data)
                for i, w in enumerate(ws):
                    lst = {str(Category.parse(c)) for c in cat_dict[w]} if w in real_cd else None
                    want = arrs0[k][0][i] if lst is None else numpy.where(numpy.array([nm in lst for nm in names]), arrs0[k][0][i], big)
                    if not numpy.array_equal(t[i], want):
                        j = int(numpy.argmax(t[i] != want))
                        ctx.fail('wrong_entry', f'shipped dictionary: tag score [{k}][{i}][{j}] (word {w!r}, category {names[j]!r}) is {t[i, j]!r}, expected {want[j]!r}', data)
                        break
    # the model's lexer and reader on the shipped strings (ties gallina.toks, used by the translator, to the model)
    allstr = list(parsed)
    pick = allstr if not ctx.quick else rng.sample(allstr, min(len(allstr), 500))
    for s in pick:
        cases.append(f'ChkShip {lit(s)} {toks(s)} {gcat(parsed[s])}')
        descr.append(('shipped', s))
    ctx.stats['shipped_strings_total'] = len(allstr)
    ctx.stats['shipped_strings_in_coqc'] = len(pick)

    bad = ctx.coq_cases('filter', PRE, cases, chunk=120 if ctx.quick else 300, describe=lambda i: descr[i])
    for i in (bad or [])[:10]:
        ctx.notes.append(f'model/implementation disagreement on {descr[i]!r}')
    ctx.sample({'case': next(d for d in descr if d[0] == 'filter' and d[-1] == 'ok' and d[6])})
    ctx.sample({'case': next(d for d in descr if d[-1] == 'ERuntime')})
    ctx.sample({'case': next((d for d in descr if d[-1] == 'EKey'), None)})
    ctx.trusted += ['hand-written model coq/Filter.v of depccg/parsing.py (_type_check, _binarize, apply_category_filters), tied by the correspondence cases of this run',
                    'translator translate/gen_data.py + harness/jsonnet.py (model files -> GenData.v; token lists by translate/gallina.py toks, re-checked against the model lexer in coqc)',
                    'numpy: a float32 entry holding an integer-valued score is that integer; array[...] = v stores float32(v)',
                    'hand-written model coq/Cat.v of Category.parse (C05) for the statements about shipped strings']
    return ctx.finish(
        level='proof',
        rule='cases = calls of the real apply_category_filters / _type_check on fresh numpy float32 arrays with integer scores in C-contiguous, Fortran, column-sliced, row-sliced and reversed-stride layouts: random category lists from the shipped '
             'inventories (some with a repeated category), 1-4 sentences over a small word pool (repeated words, an empty non-first sentence), random dictionaries '
             '(words absent from the document, empty lists, repeated categories, sometimes a category outside the list), single-sentence and list forms, several '
             'large-negative values incl. the default; a mutated-documents stream (the same Token objects through 3-5 passes with fresh scores, edited in place through the dict '
             'interface between the passes - item assignment, update, pop/del + reinsert, clear + update, |=, setdefault, swaps between tokens, whole-document re-casing - '
             'towards words the dictionary treats differently; in half of the documents the tokens are read by attribute and edited before the first pass; every pass '
             'judged on the current words, tokens compared with freshly built ones); an ill-shaped stream (15 kinds of shape/form/count defects, non-2-D arrays); apply_filter with explicit index '
             'lists; every distinct string of the shipped files through the real Category.parse; the shipped dictionary on documents of its own words; '
             'non-trivial = a document word is a dictionary key / an ill-shaped input; distinct by full input',
        assumptions=['scores are exact integers in float32 range; the large negative value is modelled as the integer float32(large_negative_value) denotes',
                     'the independent oracle states the property for duplicate-free category lists and dictionaries over that list (what C17_targets_nodup and C17_dict_subset_targets '
                     'establish for the shipped files); with a repeated category in `categories` the code keeps only the last of the equal columns (modelled, compared in coqc, not judged)',
                     'distinct arrays per sentence (no aliasing); arrays are 2-D in the model, other ranks are checked by the oracle only (must be rejected untouched)',
                     'config_rebank.jsonnet lists its unary rules inline (jsonnet `local`/`import`, outside the subset reader): those 11 pairs are not in GenData.v'])


# ---------------------------------------------------------------------------------------------------------------
def replay(data):
    """re-execute the failing inputs of a replay file against the implementation and print every entry that is not what the property says"""
    rc = 0
    for f in data.get('failures', []):
        d = f.get('data') or {}
        print(f"[{f.get('kind')}] {f.get('desc', '')[:300]}")
        rc = 1
        if 'tag_scores' not in d:
            if 'text' in d:
                try:
                    v = Category.parse(d['text'])
                    print(f"   Category.parse({d['text']!r}) = {str(v)!r}; in targets.en: {v in set(Category.parse(s) for s in gen.inventory('en'))}")
                except Exception as e:      # noqa
                    print(f"   Category.parse({d['text']!r}) raised {type(e).__name__}: {e}")
            continue
        sents = d['sentences']
        cats = [Category.parse(s) for s in d['categories']]
        cd = {w: [Category.parse(s) for s in cs] for w, cs in d['dictionary'].items()}
        arrs = [(numpy.array(t, dtype=numpy.float32), numpy.array(dd, dtype=numpy.float32)) for t, dd in zip(d['tag_scores'], d['dep_scores'])]
        arrs = [(t if t.ndim >= 2 or t.size else t.reshape(0, len(cats)), dd if dd.ndim >= 2 or dd.size else dd.reshape(0, 1)) for t, dd in arrs]
        arrs0 = [(t.copy(), dd.copy()) for t, dd in arrs]
        arrs = [(relayout(t, d.get('tag_layout', 'C')), dd) for t, dd in arrs]
        if d.get('mutation_history'):
            # the token objects with their history: earlier readers, in-place edits and earlier passes of the filter
            hist = d['mutation_history']
            toks_ = rebuild_history(hist, cats, cd)
            print(f"   document edited in place: {len(hist['pre'])} reads/edits before the first pass, {len(hist['rounds'])} earlier pass(es) with "
                  f"{sum(len(x) for x in hist['rounds'])} edits; the words are now {[[t['word'] for t in s] for s in toks_]}")
            if [[t['word'] for t in s] for s in toks_] != sents:
                print(f'   (the rebuilt document does not hold the recorded words {sents})')
        else:
            toks_ = [[Token(word=w) for w in s] for s in sents]
        doc_arg = toks_[0] if d['doc_form'] == 'one' else toks_
        sc_arg = ScoringResult(*arrs[0]) if d['scores_form'] == 'one' else [ScoringResult(t, dd) for t, dd in arrs]
        obs = observe(d.get('fn', 'filter'), doc_arg, sc_arg, cats, cd, d.get('large_negative_value'))
        print(f"   {d.get('fn', 'filter')} on {d['kind']} input (tag layout {d.get('tag_layout', 'C')}, {d['doc_form']}/{d['scores_form']} forms, {len(sents)} sentence(s), {len(cats)} categories): "
              f"{'returned' if obs[0] == 'ok' else 'raised ' + obs[1]}")
        big = numpy.float32(-10e+32 if d.get('large_negative_value') is None else d['large_negative_value'])
        for k, ((t, dd), (t0, d0)) in enumerate(zip(arrs, arrs0)):
            if dd.shape != d0.shape or dd.tobytes() != d0.tobytes():
                print(f'   dependency scores of sentence {k} changed')
            if t.shape != t0.shape or t.ndim != 2 or k >= len(sents):
                continue
            for i, w in enumerate(sents[k][:t.shape[0]]):
                for j in range(min(len(cats), t.shape[1])):
                    keep = w not in d['dictionary'] or d['categories'][j] in d['dictionary'][w]
                    want = t0[i, j] if (keep or obs[0] != 'ok') else big
                    if t[i, j] != want:
                        print(f'   tag[{k}][{i}][{j}] word {w!r} category {d["categories"][j]!r}: now {t[i, j]!r}, input {t0[i, j]!r}, the property says {want!r}')
    for b in data.get('broken_obligations', []):
        print('broken obligation:', (b.get('name') if isinstance(b, dict) else b[0]))
    return rc
