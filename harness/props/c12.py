"""C12 - rule labels and head directions on trees are those the grammar assigned (parser side: glue; reader side: guess)."""
import os, tempfile, random
import glue_checks, glue, gen, gram_corr as G
from gallina import gcat
from depccg.cat import Category


PARSER_FIRST_SCRIPT = r"""
import sys, json
sys.path.insert(0, %(harness)r); sys.path.insert(0, %(translate)r)
import env, gen
import depccg.lang
from depccg.cat import Category
from depccg.grammar import en, ja
from depccg.tools.reader import read_auto, read_ptb, read_jigg_xml
job = json.load(open(sys.argv[1]))
out = []
for item in job:
    lang = item['lang']
    depccg.lang.set_global_language_to(lang)
    binary = en.apply_binary_rules if lang == 'en' else ja.apply_binary_rules
    # what a parser does before anybody reads a treebank in this process: its rule function is the grammar restricted to the model's
    # seen rules (here: a set that contains none of the pairs of this file)
    for x, y in item['pairs']:
        binary(Category.parse(x), Category.parse(y), seen_rules=set())
    reader = {'auto': read_auto, 'ptb': read_ptb, 'jigg_xml': read_jigg_xml}[item['format']]
    labels = []
    def rec(n):
        if n.is_leaf:
            return
        for c in n.children:
            rec(c)
        if not n.is_unary:
            labels.append([n.op_string, n.op_symbol, bool(n.head_is_left)])
    try:
        rec(list(reader(item['path']))[0].tree)
    except Exception as e:
        labels = 'raised ' + type(e).__name__
    out.append(labels)
print(json.dumps(out))
"""


def parser_first(ctx, jobs):
    """in a NEW interpreter the grammar is first used the way the parser uses it (restricted to a seen-rule set), then the files are read:
    the labels must be the ones read in this process (which the oracle above has judged)"""
    import json, subprocess, sys, env
    if not jobs:
        return
    sf, jf = os.path.join(ctx.work, 'parser_first.py'), os.path.join(ctx.work, 'parser_first.json')
    open(sf, 'w').write(PARSER_FIRST_SCRIPT % {'harness': env.HARNESS, 'translate': os.path.join(env.VERIF, 'translate')})
    json.dump([{k: v for k, v in j.items() if k != 'labels'} for j in jobs], open(jf, 'w'))
    p = subprocess.run([sys.executable, '-B', sf, jf], stdout=subprocess.PIPE, stderr=subprocess.PIPE, text=True)
    try:
        got = json.loads(p.stdout.strip().splitlines()[-1])
    except Exception:      # noqa
        ctx.obligation('reading after parser-style use of the grammar ran in a fresh interpreter', False, f'no result ({p.stderr[-400:]!r})')
        got = []
    for j, g in zip(jobs, got):
        ctx.case(('parser-first', j['format'], j['lang'], tuple(map(tuple, j['pairs']))), nontrivial=True)
        ctx.count('reader:after_parser_style_use')
        if g != j['labels']:
            ctx.fail('reader_label_depends_on_history', f"{j['format']} ({j['lang']}): read in an interpreter where the grammar had first been asked for the same pairs with a seen-rule set, "
                     f"the binary nodes are labelled {g}; read in this process they are {j['labels']}", {'format': j['format'], 'lang': j['lang'], 'pairs': j['pairs']})
    for j in jobs:
        try:
            os.unlink(j['path'])
        except OSError:
            pass


def reader_side(ctx):
    """files printed from licensed trees, re-read in each readable format: every binary node whose category the grammar derives
    from its children carries the first deriving rule's label (and head, where the format has no head field); others 'unk'"""
    import depccg.lang
    from depccg.tree import Tree, ScoredTree
    from depccg.printer import to_string
    from depccg.tools.reader import read_auto, read_xml, read_jigg_xml, read_ptb
    from depccg.grammar import guess_combinator_by_triplet, en, ja
    rng = ctx.rng
    cases = []
    jobs = []
    n = 60 if ctx.quick else 600
    for it in range(n):
        lang = 'en' if rng.random() < 0.7 else 'ja'
        depccg.lang.set_global_language_to(lang)
        binary = en.apply_binary_rules if lang == 'en' else ja.apply_binary_rules
        t = gen.licensed_tree(rng, lang, rng.randint(2, 5), full_tokens=True, plain_words=True)
        if rng.random() < 0.3:      # make some nodes underivable
            t2 = gen.rand_tree(rng, lang, rng.randint(2, 4), full_tokens=True, plain_words=True)
            t = Tree.make_binary(rng.choice([t.cat, t2.cat]), t, t2, 'fa', '>', True)
        fmts = ['auto', 'xml', 'ptb'] if lang == 'en' else ['jigg_xml', 'auto']
        for fmt in fmts:
            txt = to_string([[ScoredTree(t, 0.0)]], format=fmt)
            suffix = {'auto': '.auto', 'xml': '.xml', 'ptb': '.ptb', 'jigg_xml': '.jigg.xml'}[fmt]
            fd, path = tempfile.mkstemp(suffix=suffix, dir=ctx.work)
            os.write(fd, txt.encode('utf-8'))
            os.close(fd)
            try:
                reader = {'auto': read_auto, 'xml': read_xml, 'ptb': read_ptb, 'jigg_xml': read_jigg_xml}[fmt]
                got = list(reader(path))
            except Exception as e:     # noqa
                ctx.count(f'reader:{fmt}:unreadable')
                os.unlink(path)
                continue
            if got and fmt != 'xml' and len(jobs) < (24 if ctx.quick else 120):
                lab_, prs_ = [], []

                def rec0(node):
                    if node.is_leaf:
                        return
                    for c in node.children:
                        rec0(c)
                    if not node.is_unary:
                        lab_.append([node.op_string, node.op_symbol, bool(node.head_is_left)])
                        prs_.append([str(node.left_child.cat), str(node.right_child.cat)])
                rec0(got[0].tree)
                jobs.append({'lang': lang, 'format': fmt, 'path': path, 'pairs': prs_, 'labels': lab_})
            else:
                os.unlink(path)
            if not got:
                continue
            ctx.count(f'reader:{fmt}')
            ctx.case((fmt, txt), nontrivial=True)

            def rec(node):
                if node.is_leaf:
                    return
                for c in node.children:
                    rec(c)
                if node.is_unary:
                    return
                rules = binary(node.left_child.cat, node.right_child.cat)
                first = next((r for r in rules if r.cat == node.cat), None)
                cases.append(f'Guess {G.glist(rules, G.gres)} {gcat(node.cat)} {G.gres(guess_combinator_by_triplet(binary, node.cat, node.left_child.cat, node.right_child.cat))}')
                data = {'format': fmt, 'lang': lang, 'node': str(node.cat), 'children': [str(node.left_child.cat), str(node.right_child.cat)], 'label': node.op_string}
                if first is None:
                    if fmt != 'xml' and node.op_string != 'unk':
                        ctx.fail('underivable_not_unknown', f'{fmt}: underivable node {node.cat} is labelled {node.op_string!r}', data)
                else:
                    # the xml reader keeps the label written in the file (rule/@type); the others re-derive it
                    if fmt != 'xml' and (node.op_string, node.op_symbol) != (first.op_string, first.op_symbol):
                        ctx.fail('reader_label', f'{fmt}: node {node.cat} derived by rule {first.op_string!r} is labelled {node.op_string!r}', data)
                    if fmt in ('xml', 'ptb', 'jigg_xml') and node.head_is_left != first.head_is_left:
                        ctx.fail('reader_head', f'{fmt}: node {node.cat} has head_is_left={node.head_is_left}, the deriving rule says {first.head_is_left}', data)
            rec(got[0].tree)
    parser_first(ctx, jobs)
    # several nodes with the SAME children categories but different parent categories, read one after the other in one process
    # (e.g. ", NP" is NP\\NP by conjunction and NP by punctuation removal): each must get the label of the rule deriving ITS category
    depccg.lang.set_global_language_to('en')
    from depccg.printer.auto import auto_of
    inv = [Category.parse(x) for x in gen.inventory('en')]
    pairs = [(Category.parse(','), Category.parse('NP')), (Category.parse('conj'), Category.parse('NP\\NP')), (Category.parse(','), Category.parse(',')),
             (Category.parse(','), Category.parse('S[ng]\\NP')), (Category.parse(','), Category.parse('S[pss]\\NP')), (Category.parse(','), Category.parse('S[dcl]/S[dcl]'))]
    # nodes whose own category carries the variable feature [X] (adverbial modifiers, type-raised categories): derivable, so labelled
    xs = [c for c in inv if '[X]' in str(c)] + [t_ for ts_ in gen.grammar('en')[2].values() for t_ in ts_ if '[X]' in str(t_)] \
        + [Category.parse(s_) for s_ in ['((S[X]\\NP)\\(S[X]\\NP))/NP', '(S[X]\\NP)\\(S[X]\\NP)', 'S[X]/(S[X]\\NP)', '(S[X]\\NP)/(S[X]\\NP)']]
    tries = 0
    while xs and len(pairs) < 9 and tries < 4000:
        tries += 1
        x, y = (rng.choice(xs), rng.choice(inv)) if rng.random() < 0.5 else (rng.choice(inv), rng.choice(xs))
        if any('[X]' in str(r.cat) for r in en.apply_binary_rules(x, y)):
            pairs.append((x, y))
    tries = 0
    while len(pairs) < (18 if ctx.quick else 70) and tries < 20000:
        tries += 1
        x, y = rng.choice(inv), rng.choice(inv)
        if len({str(r.cat) for r in en.apply_binary_rules(x, y)}) >= 2:
            pairs.append((x, y))
    for x, y in pairs:
        rules = en.apply_binary_rules(x, y)
        outs = []
        for r in rules:
            if str(r.cat) not in [str(o.cat) for o in outs]:
                outs.append(r)
        lines, want = [], []
        for r in outs * 2:       # twice: a memo must not change later answers either
            t = Tree.make_binary(r.cat, Tree.make_terminal(gen.rand_token(rng, 'en', True, True), x), Tree.make_terminal(gen.rand_token(rng, 'en', True, True), y),
                                 r.op_string, r.op_symbol, r.head_is_left)
            lines.append(auto_of(t))
            want.append(r)
        fd, path = tempfile.mkstemp(suffix='.auto', dir=ctx.work)
        os.write(fd, ('ID=1\n' + '\n'.join(lines) + '\n').encode('utf-8'))
        os.close(fd)
        try:
            got = list(read_auto(path))
        except Exception:      # noqa
            got = []
        os.unlink(path)
        # the same nodes through C&C XML: the rule name is kept from the file, the symbol (and head) must be those of a result with that name and category
        trees_ = [Tree.make_binary(r.cat, Tree.make_terminal(gen.rand_token(rng, 'en', True, True), x), Tree.make_terminal(gen.rand_token(rng, 'en', True, True), y),
                                   r.op_string, r.op_symbol, r.head_is_left) for r in outs]
        try:
            xtxt = to_string([[ScoredTree(t_, 0.0)] for t_ in trees_], format='xml')
            fd, xpath = tempfile.mkstemp(suffix='.xml', dir=ctx.work)
            os.write(fd, xtxt.encode('utf-8'))
            os.close(fd)
            xgot = list(read_xml(xpath))
            os.unlink(xpath)
        except Exception:      # noqa
            xgot = []
        for g_, r in zip(xgot, outs):
            node = g_.tree
            same = [q for q in rules if q.cat == node.cat and q.op_string == node.op_string]
            if same and not any((q.op_symbol, q.head_is_left) == (node.op_symbol, node.head_is_left) for q in same):
                ctx.fail('reader_label', f'xml: node {node.cat} over children ({x}, {y}) written with rule {r.op_string!r}/{r.op_symbol!r} is read back as {node.op_string!r}/{node.op_symbol!r} '
                         f'head_left={node.head_is_left}; the results named {node.op_string!r} with that category are {[(q.op_symbol, q.head_is_left) for q in same]}',
                         {'format': 'xml', 'lang': 'en', 'node': str(node.cat), 'children': [str(x), str(y)], 'label': node.op_string})
        ctx.case(('same-children', str(x), str(y)), nontrivial=len(outs) > 1)
        ctx.count('reader:same_children_sequences')
        for g_, r in zip(got, want):
            node = g_.tree
            if (node.op_string, node.op_symbol) != (r.op_string, r.op_symbol):
                ctx.fail('reader_label', f'auto: node {node.cat} over children ({x}, {y}) is labelled {node.op_string!r}/{node.op_symbol!r}; the rule deriving it is {r.op_string!r}/{r.op_symbol!r} '
                         '(another node with the same children but another category was read before it)',
                         {'format': 'auto', 'lang': 'en', 'node': str(node.cat), 'children': [str(x), str(y)], 'label': node.op_string})
    ctx.coq_cases('guess', G.pre('GenGuess'), cases, chunk=150)
    ctx.stats['guess_cases'] = len(cases)


def run(ctx):
    ctx.build(['P_C12.vo'], gens=('tables', 'grammar_guess'))      # grammar/__init__.py only
    ctx.theorems('P_C12')
    glue_checks.run_glue(ctx, 'c12', 80 if ctx.quick else 1200)
    reader_side(ctx)
    ctx.trusted += ['glue model coq/Glue.v tree_of (tied to parsing.pyx retrieve_tree by exact tree comparison on every returned tree)',
                    'translate/gen_grammar.py (guess_combinator_by_triplet -> GenGuess.v) tied by the Guess cases',
                    'harness/decy.py + depccg_verif_rt.py + driver.cpp (running parsing.pyx / parsing.h for real)']
    return ctx.finish(level='proof',
                      rule='parser side: batches through the real depccg.parsing.run with the real grammars and with synthetic grammars whose results for one pair of children carry pairwise different labels (same and different categories), unary tables with several distinctly-labelled results; reader side: licensed (and deliberately underivable) trees printed in auto/xml/ptb/jigg_xml and re-read; non-trivial = sentence longer than one token / file with a binary node; distinct by inputs',
                      assumptions=['when two results for the same children have the same category AND the chart keeps only the first popped item, either label is the label of "the result that created the node"; the oracle accepts any result with the node\'s category whose (label, symbol, head) triple matches',
                                   'the C&C XML reader keeps the label written in the file; the other readers re-derive it with guess_combinator_by_triplet'])


def replay(data):
    r, _ = glue_checks.replay(data, 'c12')
    return r
