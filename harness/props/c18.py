"""C18 - Printing is an observation: it changes nothing and is repeatable.

Theorems (coq/P_C18.v): every offered format leaves the store as it was; any sequence of renderings yields, step by step,
what rendering the original store yields.  They hold because the list of mutating operations that translate/gen_render.py
extracts from the printers (and the Tree properties they use) is empty for every offered format.
Tie: that extraction against reality - every tree / token / category of a batch is deep-snapshotted before and after every
real rendering; "the model says this rendering changes the store" must equal "the snapshot differs".
Oracle (independent of the model): random format sequences on the same result objects; every output must equal the output of
rendering a deep copy of the pristine result in that format alone, and the objects must be unchanged afterwards."""
import copy
import gen
import render_common as rc
from gallina import lit, gbool

PRE = '''From Coq Require Import List NArith Bool.
Import ListNotations.
Require Import Cat Tree GenRender Render.
Open Scope N_scope.
'''


FRESH_SCRIPT = r'''
import sys, json, random
sys.path.insert(0, %(harness)r); sys.path.insert(0, %(translate)r)
import env, gen, render_common as rc
lang, seed = sys.argv[1], int(sys.argv[2])
rng = random.Random(seed)
b = rc.licensed_batch(rng, lang, n=2, with_failed=False)
b[0][0].tree.leaves[0].token['word'] = rng.choice(['(', ')', '[', '{', '}'])       # the first word this process prints is a bracket
fs = rc.cli_formats()[0][lang]
first = {f: rc.render(lang, b, f) for f in fs}       # the first rendering of each format in the life of this process
second = {f: rc.render(lang, b, f) for f in fs}
third = {f: rc.render(lang, rc.fresh(b), f) for f in fs}
bad = [f for f in fs if not (first[f] == second[f] == third[f])]
print(json.dumps({'bad': bad, 'detail': {f: [str(first[f][1])[:300], str(second[f][1])[:300]] for f in bad}}))
'''


def fresh_process_renderings(ctx):
    """repeatability from the first rendering on: in a NEW interpreter the first, the second rendering of the same objects and the rendering
    of a fresh copy agree (state that is set up on first use - module-level iterators, lazily filled tables - would show here only)"""
    import json, os, subprocess, sys, env
    sf = os.path.join(ctx.work, 'fresh_script.py')
    open(sf, 'w').write(FRESH_SCRIPT % {'harness': env.HARNESS, 'translate': os.path.join(env.VERIF, 'translate')})
    procs = [(lang, k, subprocess.Popen([sys.executable, '-B', sf, lang, str(ctx.seed * 100 + k)], stdout=subprocess.PIPE, stderr=subprocess.DEVNULL, text=True))
             for lang in ('en', 'ja') for k in range(2 if ctx.quick else 8)]
    for lang, k, p in procs:
        o, _ = p.communicate()
        try:
            r = json.loads(o.strip().splitlines()[-1])
        except Exception:      # noqa
            ctx.obligation('fresh-interpreter rendering ran', False, f'{lang} #{k}: no result ({o[-300:]!r})')
            continue
        ctx.case(('fresh-process', lang, k), nontrivial=True)
        ctx.count('fresh_process_renderings')
        for f in r['bad']:
            ctx.fail('first_rendering_differs', f'[{lang}] in a fresh interpreter the first rendering as {f!r} differs from the second rendering of the same objects / '
                     f'from a fresh copy: {r["detail"][f][0]!r} vs {r["detail"][f][1]!r}', {'lang': lang, 'format': f, 'seed': ctx.seed * 100 + k, 'kind': 'fresh-process'})


def batches(ctx, lang):
    rng = ctx.rng
    n = 70 if ctx.quick else 900
    for i in range(n):
        r = rng.random()
        if r < 0.70:
            b, kind = rc.licensed_batch(rng, lang), 'licensed'
        elif r < 0.80:
            b, kind = [rc.placeholder() for _ in range(rng.randint(1, 2))], 'failed-only'
        else:       # arbitrary well-formed trees (labels not necessarily of the grammar): printers may reject them, consistently
            b = [[rc.ScoredTree(gen.rand_tree(rng, lang, nleaves=rng.randint(1, 5), full_tokens=rng.random() < 0.5), rc.score(rng))]
                 for _ in range(rng.randint(1, 3))]
            if rng.random() < 0.4:
                b.insert(rng.randint(0, len(b)), rc.placeholder())
            kind = 'arbitrary'
        if rng.random() < 0.3:
            # tokens as the Japanese annotators (janome / jigg) produce them: both the depccg names and the Jigg names are present
            seen = set()
            for nb in b:
                for st in nb:
                    for tok in st.tree.tokens:
                        if id(tok) not in seen and 'word' in tok:
                            seen.add(id(tok))
                            tok['surf'] = tok['word']
                            if rng.random() < 0.5:
                                tok['base'] = tok.get('lemma', tok['word'])
            kind += '+jigg-named-tokens'
        elif rng.random() < 0.3:
            # free-form annotations whose names coincide with attribute names some printers generate themselves (offsets, a 1-best supertag ...)
            seen = set()
            for nb in b:
                for st in nb:
                    for j, tok in enumerate(st.tree.tokens):
                        if id(tok) not in seen and 'word' in tok:
                            seen.add(id(tok))
                            for key in rng.sample(['start', 'end', 'span', 'cat', 'id', 'category'], rng.randint(1, 3)):
                                tok[key] = str(j) if key in ('start', 'end', 'span') else rng.choice(['NP', 'N', 'x'])
            kind += '+annotated-tokens'
        yield kind, b


def result_key(r):
    return r if r[0] != 'other' else ('other', r[1].split(':')[0])


def check_sequence(lang, batch, seq, fail, on_step=None):
    """the property, on the implementation: returns the list of (format, changed?) observed"""
    pristine = copy.deepcopy(batch)
    fresh = {}
    for f in set(seq):
        fresh[f] = rc.render(lang, copy.deepcopy(pristine), f)
    before0 = rc.snapshot(batch)
    obs = []
    for i, f in enumerate(seq):
        s0 = rc.snapshot(batch)
        out = rc.render(lang, batch, f)
        s1 = rc.snapshot(batch)
        ch = s0 != s1
        obs.append((f, ch))
        if result_key(out) != result_key(fresh[f]) or (out[0] == 'ok' and out[1] != fresh[f][1]):
            def short(r):
                return r[1][:160] if r[0] == 'ok' else r
            fail('output_depends_on_history',
                 f'[{lang}] format {f!r} after history {seq[:i]} gives {short(out)!r}; on a fresh copy it gives {short(fresh[f])!r}',
                 {'lang': lang, 'sequence': seq[:i + 1], 'batch': rc.enc_batch(pristine)})
            if on_step:
                on_step(i, f, ch)
            break
        if ch:
            fail('objects_changed',
                 f'[{lang}] rendering {f!r} (after {seq[:i]}) changed the result objects: {rc.first_difference(s0, s1)}',
                 {'lang': lang, 'sequence': seq[:i + 1], 'batch': rc.enc_batch(pristine)})
        if on_step:
            on_step(i, f, ch)
    if rc.enc_batch(batch) != rc.enc_batch(pristine) and not any(c for _, c in obs):
        fail('objects_changed', f'[{lang}] result objects differ from the pristine copy after {seq}', {'lang': lang, 'sequence': seq, 'batch': rc.enc_batch(pristine)})
    return obs


def snapshot_selftest(rng):
    """the observation must see every kind of change to result objects; returns the kinds it missed"""
    from depccg.cat import Category
    missed = []

    def tree_with_inner():
        while True:
            b = [rc.sentence(rng, 'en', full=True, nbest=2), rc.placeholder()]
            if not b[0][0].tree.is_leaf and len(b[0][0].tree.children) == 2:      # a binary root: reversing the children of a unary one changes nothing
                return b
    edits = {
        'token key removed': lambda b: b[0][0].tree.tokens[0].pop('lemma'),
        'token key renamed': lambda b: b[0][0].tree.tokens[0].__setitem__('surf', b[0][0].tree.tokens[0].pop('word')),
        'token value replaced': lambda b: b[0][0].tree.tokens[0].__setitem__('pos', 'ZZ'),
        'token key order': lambda b: b[0][0].tree.tokens[0].__setitem__('word', b[0][0].tree.tokens[0].pop('word')),
        'token key added': lambda b: b[1][0].tree.tokens[0].__setitem__('cat', 'NP'),
        'token attribute set': lambda b: setattr(b[0][0].tree.tokens[0], 'seen', True),
        'tree attribute added': lambda b: setattr(b[0][0].tree, '_cache', 'x'),
        'label replaced': lambda b: setattr(b[0][0].tree, 'op_string', b[0][0].tree.op_string + '!'),
        'head flag flipped': lambda b: setattr(b[0][0].tree, 'head_is_left', not b[0][0].tree.head_is_left),
        'children reversed': lambda b: b[0][0].tree.children.reverse(),
        'children list replaced by an equal list': lambda b: setattr(b[0][0].tree, 'children', list(b[0][0].tree.children)),
        'category replaced by an equal category': lambda b: setattr(b[0][0].tree, 'cat', Category.parse(str(b[0][0].tree.cat))),
        'category attribute set': lambda b: object.__setattr__(b[0][0].tree.cat, '_printed', True),
        'category field replaced': lambda b: object.__setattr__(b[1][0].tree.cat, 'base', 'N'),
        'n-best list reordered': lambda b: b[0].reverse(),
        'sentence removed': lambda b: b.pop(),
        'scored tree replaced by an equal tuple': lambda b: b[1].__setitem__(0, rc.ScoredTree(b[1][0].tree, b[1][0].score)),
    }
    for name, edit in edits.items():
        b = tree_with_inner()
        s0 = rc.snapshot(b)
        if rc.snapshot(b) != s0:
            missed.append('snapshot not stable')
        edit(b)
        if rc.snapshot(b) == s0:
            missed.append(name)
    return missed


def run(ctx):
    rng = ctx.rng
    ctx.build(['P_C18.vo'], gens=('tables', 'render'))
    ctx.theorems('P_C18')
    missed = snapshot_selftest(rng)
    ctx.obligation('observation: the deep snapshot sees 17 kinds of edits of result objects (self-test)', not missed, f'not seen: {missed}')
    formats, cli = rc.cli_formats()
    try:
        modelled = rc.modelled_formats()
    except rc.gen_render.Fail:
        modelled = set()            # the translator obligation is already broken; the oracle still runs
    cases, descr = [], []
    for lang in ('en', 'ja'):
        fs = formats[lang]
        ctx.stats[f'formats:{lang}'] = fs
        for kind, batch in batches(ctx, lang):
            sig = rc.batch_sig(batch)
            ctx.count(f'batch:{lang}:{kind}')
            # tie: the store the model sees is serialised from the real objects before each group of steps
            group = {'store': rc.gbatch(batch), 'steps': []}

            def flush(g):
                if g['steps']:
                    cases.append(f"Chk18 {lit(lang)} {g['store']} [" + ';'.join(f'({lit(f)},{gbool(c)})' for f, c in g['steps']) + ']')
                    descr.append((lang, kind, [f for f, _ in g['steps']], [c for _, c in g['steps']]))
            history = []        # everything rendered on these objects so far (several sequences on the same objects)
            for _ in range(3):
                k = rng.randint(1, 6)
                seq = [rng.choice(fs) for _ in range(k)]
                if rng.random() < 0.3 and 'jigg_xml' in fs:     # the historically harmful order
                    seq = (['jigg_xml'] + seq)[:6]
                ctx.count(f'seqlen:{len(seq)}')

                def on_step(i, f, ch, group=group, seq=seq, history=history):
                    ctx.case((lang, sig, tuple(history), f), nontrivial=len(history) >= 1)
                    history.append(f)
                    ctx.count(f'format:{f}')
                    if (lang, f) in modelled:
                        group['steps'].append((f, ch))
                    else:
                        ctx.count(f'not_modelled:{lang}:{f}')
                    if ch:          # the store moved: later steps are compared from the new state
                        flush(group)
                        group['store'], group['steps'] = rc.gbatch(batch), []
                obs = check_sequence(lang, batch, seq, ctx.fail, on_step)
                if len(ctx.samples) < 3 and len(seq) >= 3 and kind == 'licensed':
                    ctx.sample({'lang': lang, 'sequence': seq, 'changed': [c for _, c in obs], 'sentences': len(batch),
                                'first_tree_auto': rc.render(lang, [batch[0]], 'auto')[1][:200]})
            flush(group)
    fresh_process_renderings(ctx)
    # every ordered pair of formats f, g, f on a copy of one fixed batch per language (so no format escapes the random sequences)
    for lang in ('en', 'ja'):
        b0 = rc.licensed_batch(rng, lang, n=2, with_failed=True)
        for f in formats[lang]:
            for g in formats[lang]:
                b = copy.deepcopy(b0)
                store = rc.gbatch(b)
                obs = check_sequence(lang, b, [f, g, f], ctx.fail)
                ctx.case((lang, 'pairs', f, g), nontrivial=True)
                steps = []
                for x, c in obs:            # the model is asked about the steps up to and including the first change
                    if (lang, x) in modelled:
                        steps.append((x, c))
                    if c:
                        break
                if steps:
                    cases.append(f"Chk18 {lit(lang)} {store} [" + ';'.join(f'({lit(x)},{gbool(c)})' for x, c in steps) + ']')
                    descr.append((lang, 'pairs', [x for x, _ in steps], [c for _, c in steps]))
    bad = ctx.coq_cases('frame', PRE, cases, chunk=60, describe=lambda i: descr[i])
    for i in (bad or [])[:10]:
        ctx.notes.append(f'model/implementation disagreement on "does this rendering change the objects": {descr[i]!r}')
    ctx.trusted += ['hand-written model coq/Render.v (interprets the generated tables; tied by the correspondence cases of this run)',
                    'translator translate/gen_render.py: alias/mutation analysis of depccg/printer/*.py and depccg/tree.py, dispatch walk of to_string, '
                    '--format choices of argparse.py; functions of modules outside depccg/printer (lxml.etree, json, re, html, io, depccg.utils) are assumed '
                    'not to mutate their arguments (the snapshot tie observes them)',
                    'harness/render_common.py snapshot(): which state of Tree/Token/Category objects is observed (all instance attributes, dict items in order, identities)']
    return ctx.finish(
        level='proof',
        rule='cases = one real rendering inside a random sequence (length <= 6) of the offline formats of the language applied to the same result '
             'objects: batches of 1-4 n-best lists of grammar-licensed derivations (full and bare tokens, alternatives sharing token objects) mixed '
             'with the failure placeholder, plus arbitrary well-formed trees, plus all format pairs f,g,f on one batch per language; non-trivial = the '
             'rendering has at least one earlier rendering in its history; distinct by (batch, history, format)',
        assumptions=['formats jigg_xml_ccg2lambda and ccg2lambda enter depccg.semantics (nltk) and cannot run here: not covered, not claimed',
                     'the text a printer writes is not modelled: the sequence theorem is stated for the model outcome and for an arbitrary output function of the store',
                     'state outside the result objects (module globals, caches keyed by id) is not part of the store; the oracle would see it only through differing outputs'])


def replay(data):
    bad = 0
    for f in data.get('failures', []):
        d = f['data']
        msgs = []
        check_sequence(d['lang'], rc.dec_batch(d['batch']), d['sequence'], lambda kind, desc, dd: msgs.append((kind, desc)))
        print(('STILL FAILS: ' if msgs else 'no longer fails: ') + f['desc'][:300])
        for m in msgs[:3]:
            print('   ', m[0], m[1][:300])
        bad += bool(msgs)
    if not data.get('failures'):
        print('replay names broken obligations only:', [b if isinstance(b, str) else b.get('name') for b in data.get('broken_obligations', [])])
    return 1 if bad else 0
