"""C13 - Categories behave as values (depccg/cat.py: ==, hash, ^, == with strings, clear_features)."""
import env
import itertools, os, subprocess
import numpy
import gen
from env import COQ
from gallina import lit, lits, gcat, glist
from depccg.cat import Category, Atom, Functor, UnaryFeature, TernaryFeature

TRIPLE = 'mod=nm,form=base,fin=t'
NAMES = ['X', 'nb', 'dcl', TRIPLE]

TAB_HEAD = '''From Coq Require Import List NArith.
Import ListNotations.
Require Import Cat.
Open Scope N_scope.
'''
PRE_HEAD = '''From Coq Require Import List NArith ZArith Bool.
Import ListNotations.
Require Import Cat CatFacts CatValue.
Require Import WC13.TabV WC13.TabT.
Open Scope N_scope.
Fixpoint idx_ {A} (k : nat) (l : list A) : list (nat * A) := match l with [] => [] | x :: r => (k, x) :: idx_ (S k) r end.
Definition memn (j : nat) (l : list nat) : bool := existsb (Nat.eqb j) l.
'''
PRE_TAIL = '''
Definition NM : list text := NAMES_HERE.
Definition VI := idx_ 0%nat V.
Definition TI := idx_ 0%nat T.
(* row i of a relation on values: the implementation said "true" exactly at the listed column indices *)
Definition ChkRow (rel : cat -> cat -> bool) (i : nat) (tr : list nat) : bool :=
  match nth_error V i with Some x => forallb (fun p => Bool.eqb (rel x (snd p)) (memn (fst p) tr)) VI | None => false end.
(* hash row: wherever the model says ==, the implementation's hashes (of independently built copies) were equal *)
Definition ChkHashRow (i : nat) (tr : list nat) : bool :=
  match nth_error V i with Some x => forallb (fun p => implb (cat_eqb x (snd p)) (memn (fst p) tr)) VI | None => false end.
(* hashed set / dict of all values: found exactly where the model's (hash-free) lookup finds *)
Definition ChkFind (i : nat) (found : bool) (first : option nat) : bool :=
  match nth_error V i with
  | Some x => Bool.eqb (plain_mem x V) found &&
              match plain_get x (map (fun p => (snd p, fst p)) VI), first with Some a, Some b => Nat.eqb a b | None, None => true | _, _ => false end
  | None => false end.
Definition ChkStrRow (i : nat) (tr : list nat) : bool :=
  match nth_error V i with Some x => forallb (fun p => Bool.eqb (eq_str x (snd p)) (memn (fst p) tr)) TI | None => false end.
Definition ChkClear (names : list text) (i : nat) (e : cat) : bool :=
  match nth_error V i with Some x => cat_eqb (clear_features names x) e | None => false end.
(* the same with the names given by their numbers in NM and the result by its number in V *)
Definition names_of (ks : list nat) : list text := flat_map (fun k => match nth_error NM k with Some t => [t] | None => [] end) ks.
Definition ChkClearC (names : list text) (x e : cat) : bool := cat_eqb (clear_features names x) e.
Definition ChkClearI (ks : list nat) (i j : nat) : bool :=
  match nth_error V i, nth_error V j with Some x, Some e => Nat.eqb (length (names_of ks)) (length ks) && cat_eqb (clear_features (names_of ks) x) e | _, _ => false end.
'''


# ---------- independent structural view of a value (never uses Category/Feature __eq__ / __hash__) ----------
def ffields(f):
    if type(f) is UnaryFeature:
        return ('U', f.value)
    if type(f) is TernaryFeature:
        return ('T', tuple(f.kv1), tuple(f.kv2), tuple(f.kv3))
    raise TypeError(f'not a feature: {f!r}')


def fields(x):
    if type(x) is Atom:
        return ('A', x.base, ffields(x.feature))
    if type(x) is Functor:
        return ('F', fields(x.left), x.slash, fields(x.right))
    raise TypeError(f'not a category: {x!r}')


def struct_eq(x, y):
    """own recursive comparison of the fields"""
    if type(x) is not type(y):
        return False
    if type(x) is Atom:
        if x.base != y.base or type(x.feature) is not type(y.feature):
            return False
        if type(x.feature) is UnaryFeature:
            return x.feature.value == y.feature.value
        return all(tuple(a) == tuple(b) for a, b in zip(x.feature.items(), y.feature.items()))
    return x.slash == y.slash and struct_eq(x.left, y.left) and struct_eq(x.right, y.right)


def skel(x):
    """fields after erasing every feature"""
    if type(x) is Atom:
        return ('A', x.base)
    return ('F', skel(x.left), x.slash, skel(x.right))


def fresh(s):
    return None if s is None else ''.join([ch for ch in s])


def rebuild(x):
    """an independently constructed copy, through the public constructors"""
    if type(x) is Atom:
        f = x.feature
        if type(f) is UnaryFeature:
            if f.value is None:
                return Atom(fresh(x.base))
            return Atom(fresh(x.base), UnaryFeature(fresh(f.value)))
        return Atom(fresh(x.base), TernaryFeature(*[(fresh(k), fresh(v)) for k, v in f.items()]))
    return Functor(rebuild(x.left), fresh(x.slash), rebuild(x.right))


def atoms(x):
    return [x] if type(x) is Atom else atoms(x.left) + atoms(x.right)


def named_py(f, names):
    """is this feature one of the names (texts)?  restated from the property, not from Feature.__eq__"""
    if type(f) is UnaryFeature:
        return f.value is not None and any(f.value == n and not ('=' in n and ',' in n) for n in names)
    return any(str(f) == n for n in names)


def named_fl(ff, names):
    """named_py on the field tuple of a feature"""
    if ff[0] == 'U':
        return ff[1] is not None and any(ff[1] == n and not ('=' in n and ',' in n) for n in names)
    return any(','.join(f'{k}={v}' for k, v in ff[1:]) == n for n in names)


def erase_fields(fl, names):
    """the property, on field tuples: the named features (and only those) become 'no feature', everything else stays"""
    if fl[0] == 'A':
        return ('A', fl[1], ('U', None)) if named_fl(fl[2], names) else fl
    return ('F', erase_fields(fl[1], names), fl[2], erase_fields(fl[3], names))


def usable_name(n):
    """a text that may be given to clear_features (see the first assumption): non-empty, and if it has both = and , it is three k=v pairs"""
    if not n:
        return False
    if '=' in n and ',' in n:
        parts = n.split(',')
        return len(parts) == 3 and all(p.count('=') == 1 for p in parts)
    return True


def feature_names(x):
    """the texts of the features that occur in x (candidates for erasure)"""
    out = []
    for a in atoms(x):
        f = ffields(a.feature)
        t = f[1] if f[0] == 'U' else ','.join(f'{k}={v}' for k, v in f[1:])
        if t and usable_name(t) and t not in out and named_fl(f, [t]):
            out.append(t)
    return out


def with_shape(rng, ats, sls):
    """a value with exactly these atoms and slashes from left to right, nested at random"""
    if len(ats) == 1:
        return ats[0]
    k = rng.randrange(len(sls))
    return Functor(with_shape(rng, ats[:k + 1], sls[:k]), sls[k], with_shape(rng, ats[k + 1:], sls[k + 1:]))


def proper_subterms(x):
    if type(x) is Functor:
        for s in (x.left, x.right):
            yield s
            yield from proper_subterms(s)


class _H:
    __slots__ = ('h',)

    def __init__(self, h): self.h = h
    def __hash__(self): return self.h


def formula_hash(fl):
    """CatValue.cat_hash with hstr = hash, hnone = hash(None), htuple = hash of a tuple with those item hashes"""
    ht = lambda hs: hash(tuple(_H(h) for h in hs))
    hs = lambda s: hash(s)
    if fl[0] == 'A':
        f = fl[2]
        if f[0] == 'U':
            fh = ht([hash(None) if f[1] is None else hs(f[1])])
        else:
            fh = ht([ht([hs(k), hs(v)]) for k, v in f[1:]])
        return ht([hs(fl[1]), fh])
    return ht([formula_hash(fl[1]), hs(fl[2]), formula_hash(fl[3])])


def tf(thunk):
    """an observation of the implementation: True / False / a description of anything else"""
    try:
        r = thunk()
    except Exception as e:      # noqa
        return 'raised ' + type(e).__name__
    return r if isinstance(r, bool) else 'returned ' + repr(r)


def hv(x):
    """hash(x) as an int, or a description of the exception"""
    try:
        return int(hash(x))
    except Exception as e:      # noqa
        return 'raised ' + type(e).__name__


def mutate(rng, x):
    """a near-copy of x: one feature, base or slash changed, or children swapped"""
    if type(x) is Atom:
        k = rng.random()
        if k < 0.4:
            return Atom(x.base, rng.choice([UnaryFeature(), UnaryFeature('X'), UnaryFeature('nb'), UnaryFeature('dcl'), TernaryFeature(*gen.JA_FEATS[0]), TernaryFeature(*gen.JA_FEATS[1])]))
        if k < 0.7:
            return Atom(rng.choice(['S', 'NP', 'N', 'PP']), x.feature)
        if type(x.feature) is TernaryFeature:
            kvs = [list(kv) for kv in x.feature.items()]
            i = rng.randrange(3)
            kvs[i][rng.randrange(2)] = rng.choice(['mod', 'nm', 'X1', 'fin', 'f', 't'])
            return Atom(x.base, TernaryFeature(*[tuple(kv) for kv in kvs]))
        return Atom(x.base)
    k = rng.random()
    if k < 0.35:
        return Functor(mutate(rng, x.left), x.slash, x.right)
    if k < 0.7:
        return Functor(x.left, x.slash, mutate(rng, x.right))
    if k < 0.85:
        return Functor(x.left, rng.choice([s for s in gen.SLASHES if s != x.slash]), x.right)
    return Functor(x.right, x.slash, x.left)


def bracket_variants(rng, x):
    s = str(x)
    out = [f'({s})', f'<{s}>', f' {s}', f'{s} ']
    if type(x) is Functor:
        out.append(''.join(gen.bracket_text(rng, x)))
        out.append(str(x.left) + x.slash + str(x.right))          # brackets of the operands dropped
        out.append(f'({x.left}){x.slash}({x.right})')             # brackets around both operands
        out.append(f'{x.left} {x.slash} {x.right}')
    return [t for t in out if t != s]


def compile_tables(ctx, files):
    """write work/C13/<name>.v and compile them side by side; they become WC13.<name> for the case files"""
    procs = []
    for name, body in files.items():
        fn = os.path.join(ctx.work, name + '.v')
        open(fn, 'w').write(body)
        procs.append((name, subprocess.Popen(['timeout', '600', env.COQC, '-R', COQ, 'Depccg', '-Q', ctx.work, 'WC13', fn],
                                             stdout=subprocess.PIPE, stderr=subprocess.PIPE, text=True)))
    ok = True
    for name, p in procs:
        out, err = p.communicate()
        ctx.obligation(f'correspondence: table {name} of this run compiles', p.returncode == 0, out + err)
        ok &= p.returncode == 0
    return ok


def run(ctx):
    rng = ctx.rng
    ctx.build(['P_C13.vo'])
    ctx.theorems('P_C13')

    # ------------------------------------------------------------------ the values
    en_atoms = [gen.mk_atom(b, f) for b, f in [('S', None), ('S', 'dcl'), ('S', 'X'), ('NP', None), ('NP', 'X'), ('NP', 'nb'), ('N', None), (',', None), ('conj', None)]]
    # incl. the same key=value pairs in another ORDER (a different value: order is part of the structure, of the text and of the hash)
    perm = lambda f: (f[1], f[0], f[2])
    ja_atoms = [gen.mk_atom('S', gen.JA_FEATS[0]), gen.mk_atom('S', gen.JA_FEATS[1]), gen.mk_atom('NP', gen.JA_FEATS[3]), gen.mk_atom('NP', gen.JA_FEATS[5]),
                gen.mk_atom('S', None), gen.mk_atom('NP', perm(gen.JA_FEATS[3])), gen.mk_atom('S', perm(gen.JA_FEATS[0]))]
    if ctx.quick:
        vals = gen.enum_cats(en_atoms, gen.SLASHES, 2) + gen.enum_cats(ja_atoms, gen.SLASHES[:2], 2)
        n_mixed, n_rand, n_inv = 20, 50, 30
    else:
        small = gen.enum_cats(en_atoms, gen.SLASHES, 2) + gen.enum_cats(ja_atoms, gen.SLASHES[:2], 2)
        three = [c for c in gen.enum_cats(en_atoms[:6], gen.SLASHES[:2], 3) + gen.enum_cats(ja_atoms[:4] + ja_atoms[5:6], gen.SLASHES[:2], 3) if gen.size(c) == 3]
        ctx.stats['values_3_atoms_total'] = len(three)
        vals = small + rng.sample(three, min(len(three), 330))
        n_mixed, n_rand, n_inv = 40, 80, 90
    ctx.stats['values_enumerated'] = len(vals)
    both = en_atoms + ja_atoms
    for _ in range(n_mixed):      # the two feature systems mixed in one value
        vals.append(Functor(rng.choice(both), rng.choice(gen.SLASHES), Functor(rng.choice(both), rng.choice(gen.SLASHES), rng.choice(both))))
    for _ in range(n_rand):       # deeper random values and a near-copy of each
        c = gen.rand_cat(rng, rng.choice(['en', 'en', 'ja']), depth=rng.randint(2, 4), exotic=rng.random() < 0.3, slashes=gen.SLASHES)
        vals += [c, mutate(rng, c)]
    # the same atoms and slashes from left to right under different bracketings (3..5 atoms; their texts coincide once the brackets are
    # dropped): different values that are never ^-related; plus one of them with other features (^-related to that bracketing only)
    n_rebr = 0
    for _ in range(8 if ctx.quick else 20):
        pool_a = en_atoms[:7] if rng.random() < 0.5 else ja_atoms
        k = rng.choice([3, 3, 4, 5])
        ats = [rng.choice(pool_a) for _ in range(k)]
        sls = [rng.choice(gen.SLASHES[:2] if rng.random() < 0.85 else gen.SLASHES) for _ in range(k - 1)]
        shapes = {}
        for _ in range(10):
            d = with_shape(rng, ats, sls)
            shapes.setdefault(skel(d), d)
        picked = list(shapes.values())[:3]
        vals += picked
        vals.append(with_shape(rng, [Atom(a.base, rng.choice(pool_a).feature) if a.base not in (',', 'conj') else a for a in ats], sls))
        n_rebr += len(picked) + 1
    ctx.stats['values_rebracketed'] = n_rebr
    for lang in ('en', 'en_rebank', 'ja'):
        vals += [Category.parse(s) for s in rng.sample(gen.inventory(lang), n_inv // 3)]
    # a few values appear twice on purpose (equal but separately built), the rest are distinct
    vals += [rebuild(v) for v in rng.sample(vals, 10)]
    V = vals
    n = len(V)
    F = [fields(v) for v in V]
    W = [rebuild(v) for v in V]
    for v, w, fl in zip(V, W, F):
        assert fields(w) == fl and w is not v
    ctx.stats['values'] = n
    ctx.stats['distinct_values'] = len(set(F))

    texts, seen = [], set()

    def add_text(t):
        if t not in seen:
            seen.add(t); texts.append(t)
    for v in V:
        add_text(str(v))
    for v in rng.sample(V, min(n, 80 if ctx.quick else 220)):
        for t in bracket_variants(rng, v):
            add_text(t)
    for lang in ('en', 'en_rebank', 'ja'):
        for s in rng.sample(gen.inventory(lang), 40 if ctx.quick else 100):
            add_text(s)
    for t in ['', ' ', 'S[]', 'S[dcl', '(S', 'S/', 'X', 'dcl', TRIPLE]:
        add_text(t)
    T = texts
    ctx.stats['texts'] = len(T)

    cases, descr = [], []

    def rowcase(kind, i, row):
        tr = [j for j, b in enumerate(row) if b]
        descr.append((kind, str(V[i]), len(tr)))
        return glist(tr, lambda j: f'{j}%nat')

    # ------------------------------------------------------------------ ==, ^, hash on all ordered pairs
    EQ = numpy.zeros((n, n), dtype=bool)
    XO = numpy.zeros((n, n), dtype=bool)
    HW = [hv(w) for w in W]
    SK = [skel(v) for v in V]
    for i, x in enumerate(V):
        fx, sx, hx = F[i], SK[i], hv(x)
        hrow = []
        for j, y in enumerate(V):
            try:
                e, ne, xo = x == y, x != y, x ^ y
                if not (type(e) is bool and type(ne) is bool and type(xo) is bool):
                    raise TypeError
            except Exception:      # noqa  (slow path: describe what happened)
                e, ne, xo = tf(lambda: x == y), tf(lambda: x != y), tf(lambda: x ^ y)
            EQ[i, j] = e is True; XO[i, j] = xo is True
            want = fx == F[j]
            ctx.case(('eq', fx, F[j]), nontrivial=i != j)
            if e is not want or ne is want or ne not in (True, False):
                ctx.fail('eq_not_structural', f'{str(x)!r} == {str(y)!r} gives {e!r} (!= gives {ne!r}) but the fields are {"equal" if want else "different"}: {fx!r} vs {F[j]!r}',
                         {'x': repr(fx), 'y': repr(F[j]), 'x_text': str(x), 'y_text': str(y)})
            wantx = sx == SK[j]
            if xo is not wantx:
                ctx.fail('xor_not_feature_blind', f'{str(x)!r} ^ {str(y)!r} gives {xo!r} but after erasing all features the values are {"equal" if wantx else "different"}',
                         {'x': repr(fx), 'y': repr(F[j]), 'x_text': str(x), 'y_text': str(y)})
            hy = HW[j]
            hrow.append(hx == hy and isinstance(hx, int))
            if want and (hx != hy or not isinstance(hx, int)):
                ctx.fail('equal_values_hash_differently', f'two separately built values {str(x)!r} with equal fields have hashes {hx} and {hy}',
                         {'x': repr(fx), 'x_text': str(x)})
        cases.append(f'ChkRow cat_eqb {i}%nat {rowcase("eq-row", i, EQ[i])}')
        cases.append(f'ChkRow cat_xor {i}%nat {rowcase("xor-row", i, XO[i])}')
        cases.append(f'ChkHashRow {i}%nat {rowcase("hash-row", i, hrow)}')
    ctx.count('pairs', n * n)
    ctx.count('pairs_equal', int(EQ.sum()))
    ctx.count('pairs_xor_only', int((XO & ~EQ).sum()))
    # ^ is an equivalence (all triples, through the boolean matrix) that contains ==
    Xi = XO.astype(numpy.int32)
    if not XO.diagonal().all():
        i = int(numpy.argmin(XO.diagonal()))
        ctx.fail('xor_not_reflexive', f'{str(V[i])!r} ^ itself is false', {'x_text': str(V[i])})
    if (XO != XO.T).any():
        i, j = map(int, numpy.argwhere(XO != XO.T)[0])
        ctx.fail('xor_not_symmetric', f'{str(V[i])!r} ^ {str(V[j])!r} = {bool(XO[i, j])} but the converse is {bool(XO[j, i])}', {'x_text': str(V[i]), 'y_text': str(V[j])})
    comp = (Xi @ Xi) > 0
    if (comp & ~XO).any():
        i, k = map(int, numpy.argwhere(comp & ~XO)[0])
        j = int(numpy.argmax(XO[i] & XO[:, k]))
        ctx.fail('xor_not_transitive', f'{str(V[i])!r} ^ {str(V[j])!r} and {str(V[j])!r} ^ {str(V[k])!r} but not {str(V[i])!r} ^ {str(V[k])!r}',
                 {'x_text': str(V[i]), 'y_text': str(V[j]), 'z_text': str(V[k])})
    if (EQ & ~XO).any():
        i, j = map(int, numpy.argwhere(EQ & ~XO)[0])
        ctx.fail('eq_without_xor', f'{str(V[i])!r} == {str(V[j])!r} but not ^', {'x_text': str(V[i]), 'y_text': str(V[j])})
    ctx.count('triples_checked_for_transitivity', n * n * n)

    # ------------------------------------------------------------------ sets and dicts keyed by categories
    first = {}
    for i, fl in enumerate(F):
        first.setdefault(fl, i)
    half = [i for i in range(n) if i % 2 == 0]          # store every other value; look up all of them
    stored = {}
    for i in half:
        stored.setdefault(F[i], i)
    finds = [('false', 'None')] * n
    try:
        S = set(V[i] for i in half)
        D = {}
        for i in half:
            D.setdefault(V[i], i)
        ctx.stats['set_size'] = len(S)
        if len(S) != len(stored):
            ctx.fail('set_size', f'a set built from {len(half)} values with {len(stored)} distinct field tuples has {len(S)} elements', {'texts': [str(V[i]) for i in half][:50]})
        for j in range(n):
            w = W[j]
            want = stored.get(F[j])
            got_in = w in S
            got = D.get(w)
            ctx.case(('find', F[j]), nontrivial=True)
            if got_in is not (want is not None) or got != want:
                ctx.fail('container_lookup', f'looking up a separately built {str(w)!r} in a set/dict keyed by categories: in-set={got_in}, dict value={got!r}; '
                         f'a key with equal fields {"is stored at " + str(want) if want is not None else "is not stored"}', {'x': repr(F[j]), 'x_text': str(w)})
        # the same in coqc: the model's lookups over the full table V
        Sfull = set(V)
        Dfull = {}
        for i, v in enumerate(V):
            Dfull.setdefault(v, i)
        finds = [('true' if W[j] in Sfull else 'false', f'(Some {Dfull[W[j]]}%nat)' if W[j] in Dfull else 'None') for j in range(n)]
    except Exception as e:      # noqa
        ctx.fail('container_raises', f'using categories as set elements / dict keys raised {type(e).__name__}: {e}', {'texts': [str(v) for v in V][:50]})
    for j in range(n):
        cases.append(f'ChkFind {j}%nat {finds[j][0]} {finds[j][1]}')
        descr.append(('find', str(V[j])))
    # values parsed twice from their own text
    nparse = 0
    for v in V:
        if not gen.wf_py(v):
            continue
        s = str(v)
        try:
            p1, p2 = Category.parse(s), Category.parse(fresh(s))
        except Exception:
            continue
        if not (gen.well_typed(p1) and gen.well_typed(p2) and fields(p1) == fields(p2)):
            continue        # reading back is C05's business
        nparse += 1
        if tf(lambda: (p1 == p2) and hash(p1) == hash(p2) and p1 in {p2} and {p1: 1}.get(p2) == 1) is not True:
            ctx.fail('parsed_twice', f'Category.parse({s!r}) twice gives values that are not ==, or hash differently, or do not find each other in a set/dict', {'text': s})
    ctx.stats['parsed_twice'] = nparse
    # informational: is hash(x) literally hash(tuple of fields)?  (any field-determined hash satisfies the property)
    nform = sum(1 for v, fl in zip(V, F) if tf(lambda: hash(v) == formula_hash(fl)) is True)
    ctx.stats['hash_is_tuple_of_fields_formula'] = f'{nform}/{n}'
    if nform != n:
        ctx.notes.append(f'hash(category) is no longer hash(tuple of the dataclass fields) on {n - nform}/{n} values; CatValue.cat_hash describes it only up to the abstract parameters')

    # ------------------------------------------------------------------ == with strings
    for i, x in enumerate(V):
        own = str(x)
        row = []
        for t in T:
            try:
                r, r2 = x == t, t == x
                if not (type(r) is bool and type(r2) is bool):
                    raise TypeError
            except Exception:      # noqa
                r, r2 = tf(lambda: x == t), tf(lambda: t == x)
            row.append(r is True)
            ctx.case(('str', F[i], t), nontrivial=True)
            if r is not (t == own) or r2 is not r:
                ctx.fail('string_comparison', f'category {own!r} == {t!r} gives {r!r} (reflected: {r2!r}); expected {t == own}', {'x': repr(F[i]), 'x_text': own, 'text': t})
        cases.append(f'ChkStrRow {i}%nat {rowcase("str-row", i, row)}')
    ctx.count('value_text_pairs', n * len(T))

    # ------------------------------------------------------------------ clear_features with every subset of the names
    subsets = [list(c) for k in range(len(NAMES) + 1) for c in itertools.combinations(NAMES, k)]
    for i, x in enumerate(V):
        ax = atoms(x)
        for names in (subsets if (ctx.quick and i % 3 == 0) or not ctx.quick or len(ax) <= 2 else rng.sample(subsets, 5)):
            if rng.random() < 0.5:
                names = list(reversed(names))
            before = fields(x)
            data = {'x': repr(before), 'x_text': str(x), 'names': names}
            try:
                r = x.clear_features(*names)
                r2 = r.clear_features(*names)
                fields(r), fields(r2)
            except Exception as e:      # noqa
                ctx.fail('clear_raises', f'{str(x)!r}.clear_features{tuple(names)} (applied twice) raised {type(e).__name__}: {e}', data)
                continue
            j = first.get(fields(r))
            if j is None:
                cases.append(f'ChkClear {lits(names)} {i}%nat {gcat(r)}')
            else:
                cases.append(f'ChkClearI {glist([NAMES.index(nm) for nm in names], lambda k: str(k) + "%nat")} {i}%nat {j}%nat')
            descr.append(('clear', str(x), names, str(r)))
            hit = [named_py(a.feature, names) for a in ax]
            ctx.case(('clear', before, tuple(names)), nontrivial=any(hit))
            ctx.count('clear:' + ('some-erased' if any(hit) and not all(hit) else 'all-erased' if all(hit) else 'none-erased'))
            if fields(x) != before:
                ctx.fail('clear_mutates_argument', f'clear_features{tuple(names)} changed its receiver {before!r}', data)
            if not gen.well_typed(r) or skel(r) != skel(x):
                ctx.fail('clear_changes_shape', f'{str(x)!r}.clear_features{tuple(names)} = {r!r}: slashes/atom names/shape differ', data)
                continue
            for k, (a, b, h) in enumerate(zip(ax, atoms(r), hit)):
                wantf = ('U', None) if h else ffields(a.feature)
                if ffields(b.feature) != wantf:
                    ctx.fail('clear_wrong_feature', f'{str(x)!r}.clear_features{tuple(names)} = {str(r)!r}: atom #{k} {str(a)!r} became {str(b)!r}, expected feature {wantf!r}', data)
                    break
            if fields(r2) != fields(r):
                ctx.fail('clear_not_idempotent', f'{str(x)!r}.clear_features{tuple(names)} = {str(r)!r}, again = {str(r2)!r}', data)
            if not any(hit) and tf(lambda: r == x) is not True:
                ctx.fail('clear_noop_changes', f'{str(x)!r}.clear_features{tuple(names)} has nothing to erase but the result {str(r)!r} is not == the receiver', data)
            # the erased category is a value like any other: it hashes like, and is found by, an independently built equal value
            twin = V[j] if j is not None else (Category.parse(str(r)) if gen.wf_py(r) else None)
            if twin is not None and twin is not r and tf(lambda: twin == r) is True:
                if tf(lambda: hash(r) == hash(twin) and r in {twin} and twin in {r} and {twin: 1}.get(r) == 1) is not True:
                    ctx.fail('clear_result_not_hashable_as_its_value', f'{str(x)!r}.clear_features{tuple(names)} = {str(r)!r} is == an independently built {str(twin)!r} '
                             f'but hashes differently / is not found in a set or dict keyed by it (hash {hv(r)} vs {hv(twin)})', data)
            if tf(lambda: r ^ x) is not True:
                ctx.fail('clear_not_xor', f'{str(x)!r}.clear_features{tuple(names)} = {str(r)!r} is not ^-related to the receiver', data)

    # ------------------------------------------------------------------ chained erasure: clear_features on what clear_features returned
    # c.clear_features(*A).clear_features(*B)[.clear_features(*C)] erases exactly A u B [u C]; it is the value c.clear_features(*(A u B)) gives
    # (==, text, hash); an intermediate result answers like any separately built / freshly parsed equal value, and so do its sub-categories
    def same_value(a, b):
        return fields(a) == fields(b) and tf(lambda: a == b) is True and tf(lambda: a != b) is False and str(a) == str(b) and isinstance(hv(a), int) and hv(a) == hv(b)

    def show(fl):
        try:
            return str(_from_fields(fl))
        except Exception:      # noqa
            return repr(fl)

    chain_listed = [0]

    def chain_fail(kind, desc, data):
        if chain_listed[0] >= 12:
            ctx.count('chain_failures_not_listed')
            return
        chain_listed[0] += 1
        ctx.fail(kind, desc, data)

    def call_text(c, steps):
        return repr(str(c)) + ''.join(f'.clear_features{tuple(nm)!r}' if len(nm) != 1 else f'.clear_features({nm[0]!r})' for nm in steps)

    def one_chain(c, steps, to_coq):
        before = fields(c)
        data = {'x': repr(before), 'x_text': str(c), 'names': list(steps[0]), 'then': [list(nm) for nm in steps[1:]], 'stream': 'chain'}
        cur, acc = c, []
        try:
            for k, names in enumerate(steps):
                prev, fprev = cur, fields(cur)
                cur = prev.clear_features(*names)
                acc = acc + list(names)
                got, want = fields(cur), erase_fields(before, acc)
                if fields(prev) != fprev:
                    chain_fail('clear_mutates_argument', f'{call_text(c, steps[:k + 1])}: the last call changed its receiver {show(fprev)!r} into {str(prev)!r}', data)
                    return
                if got != want:
                    chain_fail('chained_clear_wrong', f'{call_text(c, steps[:k + 1])} = {str(cur)!r}; erasing {sorted(set(acc))} from the first value gives {show(want)!r} '
                               f'(the receiver of the last call was {str(prev)!r}, itself the result of an erasure)' if k else
                               f'{call_text(c, steps[:1])} = {str(cur)!r}, expected {show(want)!r}', data)
                    return
                if k == 0:
                    continue
                # equal values answer equally: a separately built copy and a freshly parsed copy of the intermediate result
                twins = [('separately built', rebuild(prev))]
                if gen.wf_py(prev):
                    try:
                        p = Category.parse(str(prev))
                        if fields(p) == fprev:
                            twins.append(('freshly parsed', p))
                    except Exception:      # noqa  (reading back is C05's business)
                        pass
                for how, tw in twins:
                    rt = tw.clear_features(*names)
                    if not same_value(rt, cur):
                        chain_fail('equal_values_erase_differently', f'{str(prev)!r}.clear_features{tuple(names)!r} = {str(cur)!r} on the result of {call_text(c, steps[:k])}, but '
                                   f'{str(rt)!r} (hash {hv(rt)} vs {hv(cur)}) on a {how} value with the same fields', data)
                        return
                # ... and so do the sub-categories of an erased result
                for s_ in itertools.islice(proper_subterms(prev), 8):
                    fs_ = fields(s_)
                    rs = s_.clear_features(*names)
                    if fields(rs) != erase_fields(fs_, names) or not same_value(rs, rebuild(s_).clear_features(*names)):
                        chain_fail('chained_clear_wrong_on_subcategory', f'sub-category {str(s_)!r} of the result of {call_text(c, steps[:k])}: .clear_features{tuple(names)!r} = {str(rs)!r}, '
                                   f'expected {show(erase_fields(fs_, names))!r}', data)
                        return
            direct = c.clear_features(*acc)
            if not same_value(cur, direct):
                chain_fail('chain_differs_from_union', f'{call_text(c, steps)} = {str(cur)!r} but {call_text(c, [acc])} = {str(direct)!r} (hashes {hv(cur)} / {hv(direct)})', data)
                return
            again = cur.clear_features(*steps[-1])
            if not same_value(again, cur):
                chain_fail('clear_not_idempotent', f'{call_text(c, steps)} = {str(cur)!r}; erasing {tuple(steps[-1])!r} once more gives {str(again)!r}', data)
                return
        except Exception as e:      # noqa
            chain_fail('clear_raises', f'{call_text(c, steps)} raised {type(e).__name__}: {e}', data)
            return
        later = erase_fields(before, acc) != erase_fields(before, list(steps[0]))
        ctx.case(('chain', before, tuple(tuple(nm) for nm in steps)), nontrivial=later)
        ctx.count('chain:' + ('a-later-step-erases' if later else 'first-step-erases-all' if fields(cur) != before else 'nothing-erased'))
        ctx.count(f'chain:steps={len(steps)}')
        if to_coq:
            cases.append(f'ChkClearC {lits(acc)} {gcat(c)} {gcat(cur)}')
            descr.append(('chain', str(c), [list(nm) for nm in steps], str(cur)))

    dense_en = [None, 'X', 'X', 'nb', 'nb', 'dcl', 'b', 'em']

    def dense(system, depth):
        """features on nearly every atom, few different ones: every name set hits several atoms and leaves others"""
        if depth == 0 or rng.random() < 0.2:
            if system == 'en':
                return gen.mk_atom(rng.choice(['S', 'NP', 'N', 'PP']), rng.choice(dense_en))
            return gen.mk_atom(rng.choice(['S', 'NP']), rng.choice(gen.JA_FEATS[:6] + [None]))
        return Functor(dense(system, depth - 1), rng.choice(gen.SLASHES[:2] if rng.random() < 0.9 else gen.SLASHES), dense(system, depth - 1))

    COMMON = ['nb', 'X', 'dcl', TRIPLE, 'case=X1,mod=X2,fin=f', 'b']

    def name_set(own):
        if rng.random() < 0.1:
            return []
        out = []
        for _ in range(rng.choice([1, 1, 1, 2, 2, 3])):
            out.append(rng.choice(own) if own and rng.random() < 0.6 else rng.choice(COMMON) if rng.random() < 0.93 else 'zz')      # a name may repeat
        return out

    featured = [v for v in V if type(v) is Functor and feature_names(v)]
    chain_cats = rng.sample(featured, min(len(featured), 150 if ctx.quick else 600))
    for _ in range(300 if ctx.quick else 3000):
        system = rng.choice(['en', 'en', 'ja'])
        chain_cats.append(dense(system, rng.choice([1, 2, 2, 3, 3, 4])))
    for _ in range(40 if ctx.quick else 300):
        chain_cats.append(gen.rand_cat(rng, rng.choice(['en', 'ja']), depth=rng.randint(1, 3), exotic=True, slashes=gen.SLASHES))
    n_coq = 0
    for ci, c in enumerate(chain_cats):
        own = feature_names(c)
        for rep in range(3 if ctx.quick else 6):
            a = name_set(own)
            r = rng.random()
            if r < 0.12:
                b = list(a)                                   # the same names again
            elif r < 0.22:
                b = list(reversed(a)) + name_set(own)        # a superset
            else:
                b = name_set(own)
            steps = [a, b]
            if rng.random() < 0.35:
                steps.append(name_set(own) if rng.random() < 0.8 else list(a))
            if rep == 0 and len(own) >= 2:                   # one name at a time, in the order of occurrence / reversed
                steps = [[nm] for nm in (own if rng.random() < 0.5 else list(reversed(own)))][:3]
            to_coq = n_coq < (1200 if ctx.quick else 9000) and (rep == 0 or rng.random() < 0.5)
            n_coq += to_coq
            one_chain(c, steps, to_coq)
    ctx.stats['chain_values'] = len(chain_cats)

    # the two tables are compiled once (in parallel) and loaded by every shard
    ok = compile_tables(ctx, {'TabV': TAB_HEAD + f'Definition V : list cat := {glist(V, gcat)}.\n',
                              'TabT': TAB_HEAD + f'Definition T : list text := {lits(T)}.\n'})
    bad = ctx.coq_cases('values', PRE_HEAD + PRE_TAIL.replace('NAMES_HERE', lits(NAMES)), cases, chunk=600, describe=lambda i: descr[i]) if ok else None
    for i in (bad or [])[:10]:
        ctx.notes.append(f'model/implementation disagreement on {descr[i]!r}')
    ctx.sample({'eq_row': descr[0]})
    ctx.sample({'clear': next(d for d in descr if d[0] == 'clear' and d[1] != d[3])})
    ctx.sample({'str_row': next(d for d in descr if d[0] == 'str-row')})
    ctx.trusted += ['hand-written model coq/Cat.v (cat_eqb, cat_xor, eq_str, clear_features, feat_eq_str, show) and coq/CatValue.v (field hash, hashed containers) '
                    'of depccg/cat.py, tied by the correspondence rows of this run',
                    'translator translate/gen_tables.py (punctuations) and translate/gallina.py (serialisation of the values from their fields)',
                    'Python: hash(tuple) is a function of the item hashes; dict/set find a key iff a stored key has the same hash and is ==']
    return ctx.finish(
        level='proof',
        rule='values = all categories with <= 2 atoms (thorough: plus a sample of the 3-atom ones) over an English and a Japanese atom alphabet and all slashes, '
             'mixed-system values, random deeper values each with a one-field mutant, parsed inventory categories, and separately rebuilt duplicates; '
             'cases = every ordered pair (==, !=, ^, hash of separately built copies), every value against every text (own texts, texts of the other values, '
             'redundant-bracket/blank variants, inventory texts), set/dict lookups of rebuilt values, clear_features with every subset of '
             "{X, nb, dcl, 'mod=nm,form=base,fin=t'}; chained erasures c.clear_features(*A).clear_features(*B)[.clear_features(*C)] on sampled values, "
             'densely featured random values (both systems) and exotic ones, names from the features occurring in the value, nb, X, dcl, ..., the empty '
             'and repeated sets: the result is erase(A u B u C) (oracle and model), the value of the one-call erasure of the union (==, text, hash), every '
             'intermediate result and its sub-categories answer like separately built / freshly parsed equal values; values with the same atoms and slashes '
             'under different bracketings are among the pairs; '
             'non-trivial = off-diagonal pair / a feature is actually erased (chains: by a later step); distinct by field tuples',
        assumptions=['feature names given to clear_features are texts Feature.parse accepts (a name with both = and , must be three k=v pairs; otherwise Python raises TypeError and the model says "no match")',
                     'hash coherence is proved for every str/None/tuple hash; the theorems do not say that different values hash differently',
                     'C13_eq_str_unique needs the wf domain of C05 (names free of []()/\\|<> and blanks, ...): outside it two different values can print the same text'])


# ---------------------------------------------------------------------------------------------------------------
def _from_fields(fl):
    if fl[0] == 'A':
        f = fl[2]
        feat = UnaryFeature(f[1]) if f[0] == 'U' else TernaryFeature(*[tuple(kv) for kv in f[1:]])
        return Atom(fl[1], feat)
    return Functor(_from_fields(fl[1]), fl[2], _from_fields(fl[3]))


def replay(data):
    """re-execute the failing inputs of a replay file against the implementation and print what it does now"""
    import ast
    rc = 0
    for f in data.get('failures', []):
        d = f.get('data') or {}
        print(f"[{f.get('kind')}] {f.get('desc', '')[:300]}")
        try:
            x = _from_fields(ast.literal_eval(d['x'])) if 'x' in d else (Category.parse(d['x_text']) if 'x_text' in d else None)
            y = _from_fields(ast.literal_eval(d['y'])) if 'y' in d else (Category.parse(d['y_text']) if 'y_text' in d else None)
        except Exception as e:      # noqa
            print(f'   cannot rebuild the values: {type(e).__name__}: {e}')
            rc = 1
            continue
        if x is not None and y is not None:
            print(f'   x = {str(x)!r}  y = {str(y)!r}  fields equal: {fields(x) == fields(y)}  x == y: {tf(lambda: x == y)}  x != y: {tf(lambda: x != y)}  '
                  f'x ^ y: {tf(lambda: x ^ y)}  skeletons equal: {skel(x) == skel(y)}  hash(x) == hash(y): {hv(x) == hv(y)}')
        elif x is not None:
            x2 = rebuild(x)
            print(f'   x = {str(x)!r}  rebuilt copy: == {tf(lambda: x == x2)}  hashes {hv(x)} {hv(x2)}  in set: {tf(lambda: x2 in {x})}  dict: {tf(lambda: {x: 1}.get(x2) == 1)}')
            if 'text' in d:
                print(f"   x == {d['text']!r}: {tf(lambda: x == d['text'])}   own text: {str(x)!r}")
            if 'names' in d:
                try:
                    r = x.clear_features(*d['names'])
                    print(f"   x.clear_features{tuple(d['names'])} = {str(r)!r}; again = {str(r.clear_features(*d['names']))!r}")
                    if d.get('then'):      # a chained erasure: the chain on the objects, on separately built copies at every step, and the union in one call
                        steps, cur, cp, acc = [d['names']] + d['then'], x, rebuild(x), []
                        for nm in steps:
                            cur, cp, acc = cur.clear_features(*nm), rebuild(cp).clear_features(*nm), acc + list(nm)
                        want = _from_fields(erase_fields(fields(x), acc))
                        print(f"   chain {steps}: {str(cur)!r} (hash {hv(cur)}); on separately built copies at every step: {str(cp)!r} (hash {hv(cp)}); "
                              f"all names in one call: {str(x.clear_features(*acc))!r}; expected {str(want)!r}: "
                              f"{'REPRODUCED' if not (fields(cur) == fields(cp) == fields(want) == fields(x.clear_features(*acc))) else 'chain agrees now'}")
                except Exception as e:      # noqa
                    print(f'   clear_features raised {type(e).__name__}: {e}')
        elif 'text' in d:
            print(f"   Category.parse({d['text']!r}) twice: {tf(lambda: Category.parse(d['text']) == Category.parse(d['text']))}")
        rc = 1
    for b in data.get('broken_obligations', []):
        print('broken obligation:', (b.get('name') if isinstance(b, dict) else b[0]))
    return rc
