"""C08 - AUTO text written by depccg reads back to the same tree.

correspondence: coq/Auto.v (print_auto, conll_frags, read_auto) against depccg.printer.auto.auto_of,
depccg.printer.conll.conll_of (last column) and depccg.tools.reader.read_auto on a temporary file - exact comparison.
oracle (independent of the model): the round-trip laws of the property on the implementation's observable outputs.
"""
import os, signal, sys
import gen
from gallina import lit, gcat, gopt, glist, gbool
from depccg.cat import Category
from depccg.tree import Tree
from depccg.types import Token
from depccg.printer.auto import auto_of
from depccg.printer.conll import conll_of
from depccg.tools import reader as R
from depccg.grammar import guess_combinator_by_triplet
from depccg.lang import get_global_language, set_global_language_to

PRE = '''From Coq Require Import List NArith Bool.
Import ListNotations.
Require Import Cat CatFacts Tree GenTables GenAuto Auto AutoSpec.
Open Scope N_scope.
Definition otext_eqb (a b : option text) : bool := match a, b with Some x, Some y => text_eqb x y | None, None => true | _, _ => false end.
Fixpoint texts_eqb (a b : list text) : bool := match a, b with [], [] => true | x :: a', y :: b' => text_eqb x y && texts_eqb a' b' | _, _ => false end.
Fixpoint toks_eqb (a b : list token) : bool := match a, b with [], [] => true | x :: a', y :: b' => token_eqb x y && toks_eqb a' b' | _, _ => false end.
Definition gtab := list (cat * cat * cat * (text * text)).
(* the label guess observed by calling depccg.grammar.guess_combinator_by_triplet directly on the triples of the case *)
Definition mkguess (tb : gtab) (c l r : cat) : text * text :=
  match find (fun e => match e with (c', l', r', _) => cat_eqb c c' && cat_eqb l l' && cat_eqb r r' end) tb with
  | Some (_, _, _, v) => v
  | None => ([], [])
  end.
(* expected token list None = the tokens of the leaves of the expected tree *)
Definition res_eqb (a : text * list token * tree) (b : text * option (list token) * tree) : bool :=
  match a, b with (n, tk, t), (n', tk', t') =>
    text_eqb n n' && toks_eqb tk (match tk' with Some x => x | None => tokens t' end) && tree_eqb t t' end.
Fixpoint ress_eqb (a : list (text * list token * tree)) (b : list (text * option (list token) * tree)) : bool :=
  match a, b with [], [] => true | x :: a', y :: b' => res_eqb x y && ress_eqb a' b' | _, _ => false end.
(* auto_of *)
Definition ChkPrint (t : tree) (e : option text) : bool := otext_eqb (print_auto t) e.
(* last column of conll_of, one text per word *)
Definition ChkConll (t : tree) (e : option (list text)) : bool :=
  match conll_frags t, e with Some a, Some b => texts_eqb a b | None, None => true | _, _ => false end.
(* read_auto over the raw lines of a file *)
Definition ChkFile (tb : gtab) (ls : list text) (e : option (list (text * option (list token) * tree))) : bool :=
  match read_auto (mkguess tb) ls, e with Some a, Some b => ress_eqb a b | None, None => true | _, _ => false end.
(* the generated tree lies in the domain of the theorems; what was read is canon of what was printed *)
Definition ChkDom (t : tree) (b : bool) : bool := Bool.eqb (wf_treeb t) b.
Definition ChkCanon (tb : gtab) (t r : tree) : bool := tree_eqb (canon (mkguess tb) t) r.
'''

ESC = {'(': '-LRB-', ')': '-RRB-', '{': '-LCB-', '}': '-RCB-', '[': '-LSB-', ']': '-RSB-'}
EXTRA_WORDS = ['x)[conj]', 'y][conj]', ')[conj]', '][conj]', '((S[b]|NP)/NP)/', '-LRB-', '-RRB-', '-LAB-', '<<>>', '>', '<', '(<L', '(<T', ')',
               '>)', '0', 'S[dcl]', 'NP/NP', ' x', 'x　y', 'ID', 'ID=7', 'a​b', ' ', 'tab\u0009less'.replace('\t', '')]
EXTRA_POS = ['X)[conj]', 'Y][conj]', '(', ')', '<', '>', 'ID', '0']


def esc(word):
    """the escaped spelling of a word in an AUTO line (CCGbank/PTB convention), written independently of depccg.utils"""
    if word in ESC:
        return ESC[word]
    return ''.join({'<': '-LAB-', '>': '-RAB-'}.get(ch, ch) for ch in word)


def in_domain_text(s, backslash_ok=False):
    return isinstance(s, str) and not any(ch.isspace() for ch in s) and (backslash_ok or '\\' not in s) and s.isprintable()


def well_typed_tree(t):
    if not gen.well_typed(t.cat):
        return False
    return True if t.is_leaf else all(well_typed_tree(c) for c in t.children)


class Timeout(Exception):
    pass


def _alarm(signum, frame):
    raise Timeout()


def _depth():
    f, n = sys._getframe(), 0
    while f is not None:
        f, n = f.f_back, n + 1
    return n


def run_reader(path, content):
    """('ok', [ReaderResult]) or ('err', exception name); a result with an ill-typed category counts as err"""
    with open(path, 'w', encoding='utf-8', newline='') as f:
        f.write(content)
    old = signal.signal(signal.SIGALRM, _alarm)
    signal.alarm(10)
    lim = sys.getrecursionlimit()
    try:
        # a diverging read (cursor reset to 0 by a missing blank, then the same node again) ends in RecursionError; the trees of
        # this harness need < 100 frames, so a low limit only makes divergence cheap to observe
        sys.setrecursionlimit(_depth() + 200)
        res = list(R.read_auto(path))
    except Timeout:
        return 'err', 'no answer within 10 s'
    except Exception as e:      # noqa
        return 'err', type(e).__name__
    finally:
        signal.alarm(0)
        signal.signal(signal.SIGALRM, old)
        sys.setrecursionlimit(lim)
    for r in res:
        if not (isinstance(r.tree, Tree) and well_typed_tree(r.tree)):
            return 'err', 'junk category'
    return 'ok', res


def triples(t, acc):
    if not t.is_leaf:
        if not t.is_unary:
            acc.append((t.cat, t.left_child.cat, t.right_child.cat))
        for c in t.children:
            triples(c, acc)
    return acc


NAMED = {'word': 'k_word', 'lemma': 'k_lemma', 'pos': 'k_pos', 'entity': 'k_entity', 'chunk': 'k_chunk', 'tag1': 'k_tag1', 'tag2': 'k_tag2',
         'lex': 's_lex', '<lex>': 's_lexsym', '<un>': 's_unsym', 'POS': 's_POS'}
NAMED_CHECK = ' && '.join(f'text_eqb {v} {lit(k)}' for k, v in NAMED.items())


def glit(s):
    """a text; the few texts that have a name in Tree.v/Auto.v are written by name (the names are checked against the literals by one case)"""
    return NAMED.get(s) or lit(s)


class Interner:
    """per-case sharing of category terms: each distinct category is bound once by a let"""
    def __init__(self):
        self.names, self.lets_ = {}, []

    def cat(self, c):
        k = str(c) + '\0' + repr(type(c))
        n = self.names.get(k)
        if n is None:
            n = f'c{len(self.names)}_'
            self.names[k] = n
            self.lets_.append(f'let {n} : cat := {gcat(c)} in')
        return n

    def token(self, tok):
        return '[' + ';'.join(f'({glit(k)},{lit(v)})' for k, v in tok.items()) + ']'

    def tree(self, t):
        if t.is_leaf:
            return f'(Leaf {self.cat(t.cat)} {self.token(t.token)} {glit(t.op_string)} {glit(t.op_symbol)})'
        if t.is_unary:
            return f'(Un {self.cat(t.cat)} {glit(t.op_string)} {glit(t.op_symbol)} {self.tree(t.child)})'
        return (f'(Bin {self.cat(t.cat)} {glit(t.op_string)} {glit(t.op_symbol)} {gbool(t.head_is_left)} '
                f'{self.tree(t.left_child)} {self.tree(t.right_child)})')

    def toks(self, r):
        """the reader's token list; `None` = exactly the tokens of the leaves of the tree, in order (checked here, expanded in Coq)"""
        if len(r.tokens) == len(r.tree.leaves) and all(a is b.token or (dict(a) == dict(b.token) and list(a) == list(b.token)) for a, b in zip(r.tokens, r.tree.leaves)):
            return 'None'
        return f'(Some {glist(r.tokens, self.token)})'

    def res(self, r):
        return f'({lit(r.name)},{self.toks(r)},{self.tree(r.tree)})'

    def guess_table(self, trees):
        return guess_table(trees, self.cat)

    def wrap(self, body):
        return '(' + ' '.join(self.lets_) + ' ' + body + ')'


def guess_table(trees, gcat=gcat):
    """labels obtained by calling guess_combinator_by_triplet directly (not through the reader)"""
    rules = R.BINARY_RULES[get_global_language()]
    seen, out = set(), []
    for t in trees:
        for c, l, r in triples(t, []):
            k = (str(c), str(l), str(r))
            if k in seen:
                continue
            seen.add(k)
            g = guess_combinator_by_triplet(rules, c, l, r)
            out.append(f'({gcat(c)},{gcat(l)},{gcat(r)},({lit(g.op_string)},{lit(g.op_symbol)}))')
    return '[' + ';'.join(out) + ']'




def same_derivation(t, r, path='root'):
    """oracle: r (read back) carries shape, categories, head flags, pos and escaped words of t; returns a complaint or None"""
    if t.is_leaf != r.is_leaf or len(t.children) != len(r.children):
        return f'{path}: shape differs'
    if not (t.cat == r.cat and str(t.cat) == str(r.cat)):
        return f'{path}: category {t.cat} read as {r.cat}'
    if t.is_leaf:
        if r.token.get('word') != esc(t.token['word']):
            return f'{path}: word {t.token["word"]!r} read as {r.token.get("word")!r}, expected {esc(t.token["word"])!r}'
        if r.token.get('pos') != t.token.get('pos', 'POS'):
            return f'{path}: pos {t.token.get("pos", "POS")!r} read as {r.token.get("pos")!r}'
        return None
    if not t.is_unary and bool(t.head_is_left) != bool(r.head_is_left):
        return f'{path}: head_is_left {t.head_is_left} read as {r.head_is_left}'
    for i, (a, b) in enumerate(zip(t.children, r.children)):
        m = same_derivation(a, b, f'{path}.{i}')
        if m:
            return m
    return None


def label_complaint(r, path='root'):
    """oracle: a binary node that the grammar derives from its children is labelled with (one of) the deriving rule(s) - never 'unk'"""
    if r.is_leaf:
        return None
    if not r.is_unary:
        rules = R.BINARY_RULES[get_global_language()]
        cands = {(x.op_string, x.op_symbol) for x in rules(r.left_child.cat, r.right_child.cat) if x.cat == r.cat}
        if cands and (r.op_string, r.op_symbol) not in cands:
            return (f'{path}: {r.left_child.cat} {r.right_child.cat} => {r.cat} is derived by {sorted(cands)} '
                    f'but the node read back is labelled {(r.op_string, r.op_symbol)}')
    for i, c in enumerate(r.children):
        m = label_complaint(c, f'{path}.{i}')
        if m:
            return m
    return None


def mutate(rng, line):
    """a garbled version of a printed line"""
    k = rng.randrange(12)
    n = len(line)
    i = rng.randrange(n) if n else 0
    if k == 0:
        return line[:i]
    if k == 1:
        return line[:i] + line[i + 1:]
    if k == 2:
        return line[:i] + rng.choice(' ()<>LT012[]/\\') + line[i + 1:]
    if k == 3:
        return line[:i] + rng.choice([' ', ')', '(', '(<L ', '(<T ', ' )', '>)']) + line[i:]
    if k == 4:
        fs = line.split(' ')
        if len(fs) > 1:
            del fs[rng.randrange(len(fs))]
        return ' '.join(fs)
    if k == 5:
        fs = line.split(' ')
        j = rng.randrange(len(fs))
        fs.insert(j, fs[j])
        return ' '.join(fs)
    if k == 6:
        return line.rstrip(' )')
    if k == 7:
        return line + rng.choice([' )', ' ', ')', ' x', ' (<L N a a a N>)'])
    if k == 8:
        return line.replace(' 2> ', rng.choice([' 1> ', ' 3> ', ' 2>', '> ']), 1)
    if k == 9:
        return line.replace('(<T', rng.choice(['(<L', '(<X', '<T', '(T']), 1)
    if k == 10:
        j = rng.randrange(n) if n else 0
        a, b = min(i, j), max(i, j)
        return line[:a] + line[b:]
    fs = line.split(' ')
    j = rng.randrange(len(fs))
    fs[j] = rng.choice(['', '/', '(', 'S[', 'conj[X]', 'S/NP/NP', '((S[b]\\NP)/NP)/', '(S\\NP)\\(S\\NP)[conj]', 'S[dcl][conj]', 'NP)[conj]', ')'])
    return ' '.join(fs)


def run(ctx):
    rng = ctx.rng
    set_global_language_to('en')
    ctx.build(['P_C08.vo'], gens=('tables', 'auto'))
    ctx.theorems('P_C08')
    tmp = os.path.join(ctx.work, 'case.auto')

    cases, descr = [], []

    def add(term, *d):
        cases.append(term)
        descr.append(d)
        if d[0] != 'tree':
            parts.append(None)

    def word_of(plain):
        r = rng.random()
        if r < 0.12:
            return rng.choice(EXTRA_WORDS)
        w = gen.rand_word(rng, plain)
        return w

    def retoken(t, full):
        """replace the words/pos of the generated tokens by the C08 word stream (no blank, no backslash)"""
        for leaf in t.leaves:
            tok = leaf.token
            w = word_of(False)
            while not in_domain_text(w):
                w = word_of(False)
            tok['word'] = w
            if 'pos' in tok and rng.random() < 0.15:
                tok['pos'] = rng.choice(EXTRA_POS)
            if not full and 'pos' in tok and rng.random() < 0.5:
                del tok['pos']

    # categories whose text ends in a feature named like the CCGbank quirk that _fix repairs (`...[conj]` after an atom is a real feature)
    exotic_pool = [Category.parse(x) for x in ['NP[conj]', 'S[dcl]\\NP[conj]', '(S\\NP)/N[conj]', 'N[conj]/N', 'conj', 'S[conj]']]
    while len(exotic_pool) < 46:
        c = gen.rand_cat(rng, 'en', depth=rng.randint(0, 3), exotic=True, slashes=gen.SLASHES)
        if gen.wf_py(c):
            exotic_pool.append(c)

    def make_tree(kind):
        n = rng.randint(1, 7 if ctx.quick else 10)
        full = rng.random() < 0.8
        if kind == 'licensed':
            t = gen.licensed_tree(rng, 'en', nleaves=n, full_tokens=True)
        elif kind == 'exotic':
            t = gen.rand_tree(rng, 'en', nleaves=n, full_tokens=True, cats=exotic_pool)
        else:
            t = gen.rand_tree(rng, 'en', nleaves=n, full_tokens=True, head=rng.choice([None, None, True, False]))
        retoken(t, full)
        return t

    def domain(t):
        return all(in_domain_text(l.token.get('word')) and in_domain_text(l.token.get('pos', 'POS'), backslash_ok=True)
                   for l in t.leaves) and all_cats_wf(t)

    def all_cats_wf(t):
        return gen.wf_py(t.cat) and (t.is_leaf or all(all_cats_wf(c) for c in t.children))

    def conll_last_columns(t):
        return [ln.split('\t')[-1] for ln in conll_of(t).split('\n')]

    printed = []       # (tree, line) for the malformed stream

    def wf_tree_py(t):
        """coq/AutoSpec.v wf_treeb restated on the Python tree (blank = U+0020 only)"""
        if not gen.wf_py(t.cat):
            return False
        if t.is_leaf:
            w = t.token.get('word')
            return w is not None and ' ' not in w and '\\' not in w and ' ' not in t.token.get('pos', 'POS')
        return all(wf_tree_py(c) for c in t.children)

    parts = []         # per case: [(label, term)] - evaluated separately only to name the component of a failing case

    def one_tree(t, kind):
        sig = gen.tree_sig(t)
        ctx.case(('tree', sig), nontrivial=not t.is_leaf)
        ctx.count(f'tree:{kind}')
        ctx.count(f'leaves:{len(t.leaves)}')
        dom = domain(t)
        ps = [('domain', f'ChkDom t_ {gbool(wf_tree_py(t))}')]
        I = Interner()
        lets = [f'let t_ : tree := {I.tree(t)} in']
        # --- printer
        try:
            line = auto_of(t)
        except KeyError:
            line = None
        try:
            cols = conll_last_columns(t)
        except KeyError:
            cols = None
        except Exception as e:      # noqa
            cols = None
            if line is not None:
                ctx.fail('conll_raises', f'conll_of raises {type(e).__name__} on a tree that auto_of prints as {line!r}: there are no last-column fragments to compare',
                         {'auto': line, 'error': type(e).__name__})
        ps.append(('conll', f'ChkConll t_ {gopt(cols, lambda x: glist(x, lit))}'))
        if line is None:
            ps.append(('print', 'ChkPrint t_ None'))
            ctx.count('print:KeyError')
            if dom:
                ctx.fail('unprintable', f'auto_of raises KeyError on a tree of the domain: {sig!r}', {'tree': repr(sig)})
            finish_case(I, lets, ps, kind, sig)
            return
        lets.append(f'let ln_ : text := {lit(line)} in')
        ps.append(('print', 'ChkPrint t_ (Some ln_)'))
        printed.append(line)
        has_pos = all('pos' in l.token for l in t.leaves)
        if has_pos:
            ctx.count('tree:all tokens have pos')
            if ' '.join(cols) != line:
                ctx.fail('conll_fragments', f'the last-column fragments of conll_of do not concatenate to the auto line {line!r}: {cols!r}',
                         {'auto': line, 'fragments': cols})
        # --- reader
        out, res = run_reader(tmp, 'ID=1\n' + line + '\n')
        ctx.count(f'read:{out}')
        files = f'[{lit("ID=1" + chr(10))}; ln_ ++ [10]]'
        if out == 'ok' and len(res) == 1:
            lets.append(f'let tb_ : gtab := {I.guess_table([r.tree for r in res])} in')
            lets.append(f'let r_ : tree := {I.tree(res[0].tree)} in')
            ps.append(('read', f'ChkFile tb_ {files} (Some [({lit(res[0].name)},{I.toks(res[0])},r_)])'))
        elif out == 'ok':
            ps.append(('read', f'ChkFile {I.guess_table([r.tree for r in res])} {files} (Some {glist(res, I.res)})'))
        else:
            ps.append(('read', f'ChkFile [] {files} None'))
        if not dom:
            ctx.count('tree:outside domain')
            finish_case(I, lets, ps, kind, line)
            return
        # --- oracle: the property on the implementation's outputs
        if out != 'ok' or len(res) != 1:
            ctx.fail('unreadable', f'read_auto fails ({res}) on the line auto_of printed: {line!r}', {'auto': line})
            finish_case(I, lets, ps, kind, line)
            return
        r = res[0]
        m = same_derivation(t, r.tree)
        if m:
            ctx.fail('roundtrip', f'read_auto(auto_of(t)) differs from t at {m}; line {line!r}', {'auto': line, 'where': m})
        m = label_complaint(r.tree)
        if m:
            ctx.fail('labels', f'label of a node read from {line!r}: {m}', {'auto': line, 'where': m})
        if r.name != 'ID=1' or list(r.tokens) != [l.token for l in r.tree.leaves]:
            ctx.fail('roundtrip_tokens', f'name/tokens of the reader result do not belong to the tree read from {line!r}', {'auto': line})
        line2 = auto_of(r.tree)
        if line2 != line:
            ctx.fail('reprint', f'auto_of(read_auto(line)) = {line2!r} differs from line = {line!r}', {'auto': line, 'reprinted': line2})
        ps.append(('canon', 'ChkCanon tb_ t_ r_'))
        finish_case(I, lets, ps, kind, line)
        if len(ctx.samples) < 3 and not t.is_leaf:
            ctx.sample({'auto_of': line, 'conll_last_column': cols, 'read_back_tokens': [dict(k) for k in r.tokens]})

    def finish_case(I, lets, ps, kind, what):
        pre = ' '.join(lets)          # the category lets of I come first (I.wrap), then the tree/line/table lets
        add(I.wrap(pre + ' ' + ' && '.join(f'({p})' for _, p in ps)), 'tree', kind, what)
        parts.append([(lab, I.wrap(pre + ' ' + p)) for lab, p in ps])

    add('(' + NAMED_CHECK + ')', 'names', 'the named text constants used by the serialiser equal their literals')
    n_trees = 450 if ctx.quick else 3600
    for i in range(n_trees):
        kind = ('licensed', 'random', 'exotic')[i % 3]
        one_tree(make_tree(kind), kind)

    # long sentences: AUTO lines beyond the usual I/O buffer sizes (8 KiB and more)
    for _ in range(1 if ctx.quick else 6):
        t = gen.rand_tree(rng, 'en', nleaves=rng.randint(200, 249), full_tokens=True)
        one_tree(t, 'long')

    # tokens without 'word' (KeyError), tokens given as plain strings, unary chains on leaves, both defaults of pos
    for _ in range(20 if ctx.quick else 200):
        t = make_tree('random')
        leaf = rng.choice(t.leaves)
        del leaf.token['word']
        one_tree(t, 'no-word')
    c_np, c_s = Category.parse('NP'), Category.parse('S[dcl]\\NP')
    for w in EXTRA_WORDS + list(ESC) + ['<', '>', 'a<b>c']:
        t = Tree.make_unary(Category.parse('S[dcl]'), Tree.make_unary(c_s, Tree.make_terminal(w, c_np), 'tr', '<un>'))
        one_tree(t, 'corpus')
        t = Tree.make_binary(Category.parse('S[dcl]'), Tree.make_terminal(Token(word=w, pos='NN'), c_np), Tree.make_terminal(Token(word='runs', pos=w), c_s), 'ba', '<', False)
        one_tree(t, 'corpus')

    # --- malformed stream: model and implementation must agree on error-vs-ok, and on the value when ok
    def malformed(lines, kind):
        content = ''.join(lines)
        ctx.case(('file', content), nontrivial=True)
        out, res = run_reader(tmp, content)
        ctx.count(f'malformed:{kind}:{out}')
        if out == 'ok':
            I = Interner()
            body = f'ChkFile {I.guess_table([r.tree for r in res])} {glist(lines, lit)} (Some {glist(res, I.res)})'
            add(I.wrap(body), 'file', kind, content)
        else:
            add(f'ChkFile [] {glist(lines, lit)} None', 'file', kind, content, res)

    short = [l for l in printed if len(l) <= 420] or printed
    n_mal = 500 if ctx.quick else 4000
    for i in range(n_mal):
        line = rng.choice(short)
        for _ in range(rng.choice([1, 1, 1, 2, 3])):
            line = mutate(rng, line)
        if '\n' in line or '\r' in line:
            continue
        malformed(['ID=1\n', line + '\n'], 'garbled')
    ws = [' ', '\t', ' ', '　', '\x0b', '\x1c', ' ', '\x85']
    for i in range(100 if ctx.quick else 1000):
        k = rng.randrange(8)
        l1, l2 = rng.choice(short), rng.choice(short)
        pad = lambda s: ''.join(rng.choice(ws) for _ in range(rng.randint(0, 2))) + s + ''.join(rng.choice(ws) for _ in range(rng.randint(0, 2)))
        if k == 0:
            lines = [l1 + '\n']                                        # no ID line: unbound name
        elif k == 1:
            lines = ['\n', pad('ID=3 PARSER=GOLD NUMPARSE=1') + '\n', '  \n', pad(l1) + '\n', pad(l2) + '\n']
        elif k == 2:
            lines = ['ID=1\n', l1 + '\n', 'ID=2\n', l2]                # last line without newline
        elif k == 3:
            lines = [pad(l1) + '\n', 'ID=1\n']
        elif k == 4:
            lines = ['ID=1\n', pad(''), '\n', pad(l1) + '\n']
        elif k == 5:
            lines = ['id=1\n', l1 + '\n']                              # lower case: not an ID line, parsed as a tree
        elif k == 6:
            lines = ['ID=1\n', l1 + ' ' + l2 + '\n']
        else:
            lines = ['ID' + l1 + '\n', l2 + '\n']
        lines = [x for x in lines if x]
        # a line is what iteration over the file yields: cut at the first newline only
        if any(('\n' in x[:-1]) or '\r' in x for x in lines):
            continue
        malformed(lines, 'file-level')
    for s in ['', '(', '(<', '(<L', '(<L ', '(<T S 0 2> )', '(<T S 0 0> )', '(<T S 0 1> (<L S a b c S>) )', '(<T S 0 1> (<L S a b c S>)',
              '(<T S 0 3> (<L S a b c S>) (<L S a b c S>) (<L S a b c S>) )', '(<L S a b c S>)', '(<L S a b c S>', '(<L S a b c', '(<L S a b',
              '(<L / a b c />)', '(<L S[ a b c S>)', '(<L (S\\NP)\\(S\\NP)[conj] a b c d>)', '(<L S[dcl][conj] a b c d>)', '(<L ((S[b]\\NP)/NP)/ a b c d>)',
              '(<L S a b c\\d S>)', '(<L S a b  S>)', '(<L S  b c S>)', '(<T S 1 2> (<L N a b c N>) (<L S\\N a b c S\\N>) )',
              '(<T S x 2> (<L N a b c N>) (<L S\\N a b c S\\N>) )', '(<T S 0 2>  (<L N a b c N>) (<L S\\N a b c S\\N>) )', '(<T S 0 2> (<L N a b c N>)  (<L S\\N a b c S\\N>) )',
              '(<T S 0 2> (<L N a b c N>) (<L S\\N a b c S\\N>) ) )', '(<T S 0 2> (<L N a b c N>) (<L S\\N a b c S\\N>))', 'x(<L S a b c S>)', '((L S a b c S>)']:
        malformed(['ID=1\n', s + '\n'], 'corpus')

    import common
    chunk = max(40, min(300, -(-len(cases) // common.NPROC)))
    bad = ctx.coq_cases('auto', PRE, cases, chunk=chunk, describe=lambda i: descr[i])
    for i in (bad or [])[:10]:
        ctx.notes.append(f'model/implementation disagreement on {descr[i]!r}'[:600])
    # name the component (print / conll / read / domain / canon) of the first disagreeing tree cases
    todo = [i for i in (bad or []) if i < len(parts) and parts[i]][:12]
    if todo:
        flat = [(i, lab, term) for i in todo for lab, term in parts[i]]
        bad2 = ctx.coq_cases('diagnose', PRE, [x[2] for x in flat], describe=lambda j: (flat[j][1], descr[flat[j][0]]))
        for j in (bad2 or []):
            ctx.notes.append(f'component {flat[j][1]!r} disagrees on {descr[flat[j][0]]!r}'[:600])
    ctx.trusted += ['hand-written model coq/Auto.v of auto_of, the last column of conll_of, denormalize, _fix, _AutoLineReader, read_auto '
                    '(tied by the correspondence cases of this run); coq/Cat.v for str(cat) and Category.parse (tied by C05)',
                    'translators translate/gen_tables.py (denormalize tables, punctuations, split class) and translate/gen_auto.py (_FIX, endswith suffixes, cut, call sites of _fix)',
                    'Python file iteration (splitting the file into lines), str.strip/find/replace as modelled in Auto.v',
                    'the label guess is a parameter of the model; the correspondence instantiates it with the results of calling '
                    'depccg.grammar.guess_combinator_by_triplet directly on the category triples of each case']
    return ctx.finish(
        level='proof',
        rule='trees: grammar-licensed derivations over the shipped English lexicon, arbitrary trees over shipped categories, arbitrary trees over '
             'random well-formed categories with exotic atom/feature names; 1-10 leaves, both head directions, unary chains; words from the exotic pool '
             '(brackets, angle brackets, quotes, non-ASCII, -LRB-, words ending in )[conj]) without blanks/backslashes; tokens with and without pos/word. '
             'Per tree: auto_of, last column of conll_of, read_auto on a temp file "ID=1\\n<line>\\n" (name, tokens, tree compared exactly, labels against '
             'guess_combinator_by_triplet called directly), domain membership, canon.  Malformed stream: 1-3 random edits of printed lines, file-level '
             'variations (no ID line, padding with Unicode whitespace, blank lines, several trees), a fixed corpus; outcome error-vs-ok and value compared. '
             'non-trivial = tree with an internal node / any malformed file; distinct by tree signature / file content',
        assumptions=['domain (wf_tree): categories well-formed in the sense of C05; every leaf token has a word without blank (U+0020) and backslash; pos (or the '
                     'default POS) without blank.  The harness additionally keeps words printable and free of any whitespace/control character (the file is split into lines by Python, '
                     'outside the model)',
                     'conll fragments are stated for trees whose tokens all carry pos (auto_of defaults to POS, conll_of to _)',
                     'reader results containing an ill-typed category object (e.g. Category.parse("/") returns a str) count as errors'])


def replay(data):
    """re-execute the failing inputs of a replay file against the implementation: read the recorded AUTO line, print it again"""
    import tempfile
    set_global_language_to('en')
    rc = 0
    for f in data.get('failures', []):
        d = f.get('data') or {}
        line = d.get('auto')
        print(f"[{f.get('kind')}] {f.get('desc', '')[:300]}")
        if line is None:
            continue
        with tempfile.TemporaryDirectory() as td:
            out, res = run_reader(os.path.join(td, 'replay.auto'), 'ID=1\n' + line + '\n')
        if out != 'ok' or len(res) != 1:
            print(f'   read_auto on the line: {out} {res if out != "ok" else len(res)}')
            rc = 1
            continue
        again = auto_of(res[0].tree)
        lab = label_complaint(res[0].tree)
        frag_ok = ' '.join(d['fragments']) == line if 'fragments' in d else True
        print(f'   read_auto ok; auto_of(read) == line: {again == line}; label complaint: {lab}; fragments join to the line: {frag_ok}')
        print(f'   tokens read: {[dict(t) for t in res[0].tokens]}')
        if again != line or lab or not frag_ok:
            rc = 1
    for b in data.get('broken_obligations', []):
        print('broken obligation:', (b.get('name') if isinstance(b, dict) else b[0]))
    return rc
