"""C07 - Every output format encodes the same derivation.

(a) correspondence: the Coq encoder models of coq/Fmt.v, FmtDeriv.v (auto_extended, conll + dependency column, json, deriv, the batch
    assembly / numbering of to_string, xml_of, to_jigg_xml, to_prolog_*, to_mathml) against the real encoders, exactly;
    coq/FmtProlog.v (prolog, English and Japanese: per tree and per batch with the header lines), coq/FmtHtml.v + FmtHtmlDoc.v (html: per tree,
    per batch = the whole document, and the regex segmentation of category texts) against the real printers, exact strings; and the Coq READERS
    of the prolog text (token level; the document readers incl. the one that reads the header declarations, FmtPrologHeader.v), of the MathML
    element tree, of the whole html document (FmtHtmlDoc.dec_html_doc) and of the deriv text (coq/FmtDerivText.v) run on the REAL printers' output.
    The page template / f-strings of to_mathml, the prolog header and the str.lower table are generated on every run (translate/gen_fmt.py -> GenFmt.v).
(b) oracle (harness/fmt_oracle.py + fmt_dec.py): independent readers of all eleven formats decode what the real
    encoders print and are compared with the derivation that was encoded.
"""
import json
import gen
import fmt_gen
import fmt_oracle
import fmt_dec
import fmt_prolog_cases
import fmt_derivtext_cases
import fmt_html_cases
from gallina import lit, gtree, gopt, glist, gnat, gbool
from depccg.lang import set_global_language_to
from depccg.tree import Tree, ScoredTree
from depccg.types import Token
from depccg.cat import Category

PRE = '''From Coq Require Import List NArith ZArith Bool Arith.
Import ListNotations.
Require Import Cat CatFacts Tree Fmt FmtDeriv.
Open Scope N_scope.
Definition otext_eqb (a b : option text) : bool := match a, b with Some x, Some y => text_eqb x y | None, None => true | _, _ => false end.
Fixpoint list_eqb {A : Type} (e : A -> A -> bool) (a b : list A) : bool :=
  match a, b with [], [] => true | x :: a', y :: b' => e x y && list_eqb e a' b' | _, _ => false end.
Definition pair_eqb (a b : nat * nat) : bool := Nat.eqb (fst a) (fst b) && Nat.eqb (snd a) (snd b).
Fixpoint jeqb (a b : jvalue) {struct a} : bool :=
  match a, b with
  | JStr x, JStr y => text_eqb x y
  | JNum x, JNum y => text_eqb x y
  | JObj xs, JObj ys =>
      (fix go (l m : list (text * jvalue)) {struct l} : bool :=
         match l, m with
         | [], [] => true
         | (k, v) :: l', (k', v') :: m' => text_eqb k k' && jeqb v v' && go l' m'
         | _, _ => false
         end) xs ys
  | JArr xs, JArr ys =>
      (fix go (l m : list jvalue) {struct l} : bool :=
         match l, m with [], [] => true | x :: l', y :: m' => jeqb x y && go l' m' | _, _ => false end) xs ys
  | _, _ => false
  end.
Fixpoint view_eqb {L : Type} (e : L -> L -> bool) (a b : view L) : bool :=
  match a, b with
  | VLeaf c x, VLeaf d y => cat_eqb c d && e x y
  | VUn c l v, VUn d m w => cat_eqb c d && text_eqb l m && view_eqb e v w
  | VBin c l h v1 v2, VBin d m k w1 w2 => cat_eqb c d && text_eqb l m && Bool.eqb h k && view_eqb e v1 w1 && view_eqb e v2 w2
  | _, _ => false
  end.
Definition tok5_eqb (a b : tok5) : bool :=
  let '(a1, a2, a3, a4, a5) := a in let '(b1, b2, b3, b4, b5) := b in
  text_eqb a1 b1 && text_eqb a2 b2 && text_eqb a3 b3 && text_eqb a4 b4 && text_eqb a5 b5.
Definition token_eqb (a b : token) : bool := list_eqb (fun x y => text_eqb (fst x) (fst y) && text_eqb (snd x) (snd y)) a b.
Definition oview_eqb {L : Type} (e : L -> L -> bool) (a b : option (view L)) : bool :=
  match a, b with Some x, Some y => view_eqb e x y | None, None => true | _, _ => false end.
(* one derivation: encoders against the real output, and the model's readers on the real output *)
Definition ChkAx (t : tree) (e : option text) : bool := otext_eqb (print_autox t) e.
Definition ChkConll (t : tree) (e : option text) : bool := otext_eqb (print_conll t) e.
Definition ChkDeps (t : tree) (e : option (list nat)) : bool :=
  match deps_of t, e with Some a, Some b => list_eqb Nat.eqb a b | None, None => true | _, _ => false end.
Definition ChkJson (t : tree) (e : jvalue) : bool := jeqb (enc_json t) e.
Definition ChkDecAx (t : tree) (e : option text) : bool :=
  match e with Some line => oview_eqb tok5_eqb (dec_autox line) (view_autox t) | None => match view_autox t with None => true | Some _ => false end end.
Definition ChkDecJson (t : tree) (e : jvalue) (readable : bool) : bool :=
  if readable then oview_eqb token_eqb (dec_json e) (view_json t) else true.
Definition ChkDeriv (t : tree) (e : option text) : bool :=
  otext_eqb (print_deriv t) e &&
  match deriv_struct t with Some (cells, lines) => oview_eqb text_eqb (dec_deriv cells lines) (view_deriv t) | None => match e with None => true | _ => false end end.
Definition ChkTree (t : tree) (ax conll : option text) (deps : option (list nat)) (j : jvalue) (readable : bool) (dv : option text) : list bool :=
  [ChkAx t ax; ChkConll t conll; ChkDeps t deps; ChkJson t j; ChkDecAx t ax; ChkDecJson t j readable; ChkDeriv t dv].
Definition all_true (l : list bool) : bool := forallb (fun b => b) l.
(* one batch; a record = (score as '%.8f', score as repr, tree) *)
Definition recs_a (b : list (list (text * text * tree))) : list (list (text * tree)) := map (map (fun r => (fst (fst r), snd r))) b.
Definition recs_b (b : list (list (text * text * tree))) : list (list (text * tree)) := map (map (fun r => (snd (fst r), snd r))) b.
Definition ChkBatch (b : list (list (text * text * tree))) (ax conll : option text) (j : option jvalue) : list bool :=
  [otext_eqb (to_string_lines false print_autox (recs_a b)) ax; otext_eqb (to_string_lines true print_conll (recs_a b)) conll;
   match json_batch (recs_b b), j with Some x, Some y => jeqb x y | None, None => true | _, _ => false end].
Definition ChkNum (shape : list (list unit)) (xml jigg : list (nat * nat)) (others : list (list nat)) : bool :=
  list_eqb pair_eqb (xml_numbers shape) xml && list_eqb pair_eqb (jigg_numbers shape) jigg &&
  forallb (fun l => list_eqb Nat.eqb (sentence_numbers shape) l) others.
'''


def gj(x):
    """ordered JSON structure -> jvalue"""
    if isinstance(x, str):
        return f'(JStr {lit(x)})'
    if isinstance(x, float):
        return f'(JNum {lit(repr(x))})'
    if isinstance(x, dict):
        return '(JObj [' + ';'.join(f'({lit(str(k))},{gj(v)})' for k, v in x.items()) + '])'
    if isinstance(x, (list, tuple)):
        return '(JArr [' + ';'.join(gj(v) for v in x) + '])'
    raise TypeError(type(x))


def gtext_opt(s):
    return gopt(s, lit)


def attempt(f, *a, **k):
    try:
        return f(*a, **k)
    except (KeyError, IndexError, AssertionError):
        return None


def malformed_tree(rng, lang):
    """outside the oracle's domain, inside the model's: tokens without a word, tokens shadowing json keys"""
    t = gen.rand_tree(rng, lang, nleaves=rng.randint(1, 3), full_tokens=rng.random() < 0.5)
    leaves = t.leaves
    lf = rng.choice(leaves)
    tok = lf.children[0]
    kind = rng.choice(['noword', 'catkey', 'childrenkey', 'typekey'])
    if kind == 'noword':
        del tok['word']
    elif kind == 'catkey':
        tok['cat'] = 'N/N'
    elif kind == 'childrenkey':
        tok['children'] = 'x'
    else:
        tok['type'] = 'lex'
    return t, kind


def replay(data):
    """./check C07 --replay work/C07/replay.json : rebuild every failing batch and run the oracle on it again"""
    again = 0
    for f in data.get('failures', []):
        d = f.get('data') or {}
        if 'batch' not in d:
            print(f"not replayable: {f.get('kind')}")
            continue
        set_global_language_to(d['lang'])
        got = []
        fmt_oracle.check_batch(fmt_oracle.unser_batch(d['batch']), d['lang'], lambda k, desc, x: got.append((k, desc)), lambda k: None, formats=[d['format']])
        print(f"{f['kind']} [{d['format']}/{d['lang']}]: " + ('REPRODUCED: ' + got[0][1][:300] if got else 'not reproduced'))
        again += bool(got)
    for b in data.get('broken_obligations', []):
        print('broken obligation:', b if isinstance(b, str) else (b.get('name') if isinstance(b, dict) else b[0]))
    return 1 if again else 0


def run(ctx):
    from depccg.printer import to_string
    from depccg.printer.auto import auto_extended_of
    from depccg.printer.conll import conll_of, _resolve_dependencies
    from depccg.printer.my_json import json_of
    from depccg.printer.deriv import deriv_of
    rng = ctx.rng
    ctx.build(['P_C07.vo'], gens=('tables', 'fmt'))      # fmt: page template / f-strings of html.py, header of prolog.py, str.lower table -> GenFmt.v
    ctx.theorems('P_C07')

    nb = 70 if ctx.quick else 1500          # random batches per language
    tree_cases, tree_descr, batch_cases, batch_descr, num_cases, num_descr = [], [], [], [], [], []
    seen_trees = set()
    # text-level models added later: prolog (FmtProlog.v), html (FmtHtml.v), the deriv text reader (FmtDerivText.v)
    pl_cases, pl_descr, dt_cases, dt_descr, html_cases, html_descr = [], [], [], [], [], []
    hdoc_cases, hdoc_descr = [], []            # whole html documents: html_doc against to_string, the document reader on the REAL text
    seen_scan = set()

    def add_text_level(t, lang, kind, only_prolog=False):
        """one tree through the prolog / html printers (exact strings; the Coq readers on the real text) and the deriv text reader"""
        d = {'lang': lang, 'kind': kind, 'tree': repr(gen.tree_sig(t))[:1500], 't': t}
        c = fmt_prolog_cases.tree_case(t, lang, rng.randint(1, 12))
        if c is None:
            ctx.count(f'prolog:outside_lower_domain:{lang}')     # str.lower() would act beyond A-Z: outside the model (FmtProlog.v)
        else:
            pl_cases.append(c)
            pl_descr.append(d)
            ctx.count(f'corr_prolog_tree:{lang}')
        if only_prolog:
            return
        ctx.count('corr_html_tree:seen')
        if not ctx.quick or ctx.stats['corr_html_tree:seen'] % 2 == 1:
            dt_cases.append(fmt_derivtext_cases.tree_case(t))
            dt_descr.append(d)
        if not ctx.quick or ctx.stats['corr_html_tree:seen'] % 3 == 1:      # the MathML texts are long: every third tree in the quick tier
            html_cases.append(fmt_html_cases.tree_case(t))
            html_descr.append(d)
            for n in fmt_oracle.t_nodes(t):                                  # the regex segmentation on the category texts met (each once)
                cs = str(n.cat)
                if cs not in seen_scan and (not ctx.quick or len(seen_scan) < 150):
                    seen_scan.add(cs)
                    html_cases.append(fmt_html_cases.scan_case(cs))
                    html_descr.append({'kind': 'scan', 'text': cs})

    def report(kind, desc, data):
        ctx.fail(kind, desc, data)

    def on_record(fmt, t):
        ctx.case((fmt, gen.tree_sig(t)), nontrivial=not t.is_leaf)

    def add_tree(t, lang, kind, readable=True):
        sig = (lang, gen.tree_sig(t))
        if sig in seen_trees:
            return
        seen_trees.add(sig)
        ax = attempt(auto_extended_of, t)
        co = attempt(conll_of, t)
        deps = attempt(_resolve_dependencies, t)
        deps = None if deps is None else [d + 1 for d in deps]
        js = json_of(t)
        dv = attempt(deriv_of, t)
        tree_cases.append(f'all_true (ChkTree {gtree(t)} {gtext_opt(ax)} {gtext_opt(co)} {gopt(deps, lambda d: glist(d, gnat))} {gj(js)} {gbool(readable)} {gtext_opt(dv)})')
        tree_descr.append({'lang': lang, 'kind': kind, 'tree': repr(gen.tree_sig(t))[:1500], 'gallina': (gtree(t), gtext_opt(ax), gtext_opt(co), gopt(deps, lambda d: glist(d, gnat)), gj(js), gbool(readable), gtext_opt(dv))})
        ctx.count(f'corr_tree:{lang}:{kind}')
        add_text_level(t, lang, kind)

    def add_batch(batch, lang):
        gb = glist(batch, lambda trees: glist(trees, lambda st: f'({lit(f"{st.score:.8f}")},{lit(repr(float(st.score)))},{gtree(st.tree)})'))
        ax = attempt(to_string, batch, format='auto_extended')
        co = attempt(to_string, batch, format='conll')
        jtxt = attempt(to_string, batch, format='json')      # json.loads undoes json.dumps: the dict {sentence number: [tree dict + log_prob]}
        jexp = None if jtxt is None else json.loads(jtxt)
        batch_cases.append(f'ChkBatch {gb} {gtext_opt(ax)} {gtext_opt(co)} {gopt(jexp, gj)}')
        batch_descr.append({'lang': lang, 'shape': [len(x) for x in batch]})
        add_docs(batch, lang)

    def add_docs(batch, lang):
        """whole documents (header lines included): to_string(batch, format='prolog' | 'html')"""
        d = {'lang': lang, 'kind': 'document', 'shape': [len(x) for x in batch]}
        c = fmt_prolog_cases.batch_case(batch, lang)
        if c is not None:
            pl_cases.append(c)
            pl_descr.append(d)
            ctx.count(f'corr_prolog_doc:{lang}')
        add_html_doc(batch, lang)

    def add_html_doc(batch, lang):
        hdoc_cases.append(fmt_html_cases.batch_case(batch))
        hdoc_descr.append({'lang': lang, 'kind': 'document', 'shape': [len(x) for x in batch], 'b': batch})
        ctx.count(f'corr_html_doc:{lang}')

    for lang in ('en', 'ja'):
        set_global_language_to(lang)
        batches = []
        for _ in range(nb):
            b, kinds = fmt_gen.make_batch(rng, lang)
            batches.append((b, kinds))
        probes = fmt_gen.probe_batches(rng, lang)
        if ctx.quick:
            probes = rng.sample(probes, min(len(probes), 40))
        batches += [(b, ['probe']) for b in probes]
        for bi, (b, kinds) in enumerate(batches):
            nums = fmt_oracle.check_batch(b, lang, report, ctx.count, on_record=on_record)
            ctx.count(f'batch:{lang}:{len(b)}x{max(len(x) for x in b)}')
            if len(b) == 1 and bi % 3 == 0:
                # a single sentence may be passed as the bare n-best list: same records, all under number 1
                for f in fmt_oracle.FORMATS:
                    try:
                        a1, a2 = to_string(b[0], format=f), to_string(b, format=f)
                    except Exception:
                        continue
                    if a1 != a2:
                        ctx.fail('flat_batch', f'[{f}/{lang}] to_string(n-best list of one sentence) differs from to_string([that list])',
                                 {'format': f, 'lang': lang, 'batch': [[[fmt_oracle.ser_tree(st.tree), st.score] for st in b[0]]]})
                    ctx.count('flat_batch_checked')
            for trees in b:
                for st in trees:
                    ctx.count('tokens:' + ('full' if len(st.tree.tokens[0]) > 1 else 'bare'))
            # correspondence cases: every tree of a share of the batches
            if bi % (4 if ctx.quick else 8) == 0:
                for trees, kind in zip(b, kinds * len(b)):
                    for st in trees:
                        add_tree(st.tree, lang, kind)
            if bi % (8 if ctx.quick else 16) == 0:
                add_batch(b, lang)
            elif bi % (4 if ctx.quick else 8) == 2:
                add_html_doc(b, lang)                     # further whole html documents for the document reader
            if all(f in nums for f in fmt_oracle.FORMATS):
                shape = glist(b, lambda trees: glist(trees, lambda _: 'tt'))
                pairs = lambda l: glist(l, lambda p: f'({gnat(p[0])},{gnat(p[1])})')
                others = [[k for k, _ in nums[f]] for f in fmt_oracle.FORMATS if f not in ('xml', 'jigg_xml')]
                num_cases.append(f'ChkNum {shape} {pairs(nums["xml"])} {pairs(nums["jigg_xml"])} {glist(others, lambda l: glist(l, gnat))}')
                num_descr.append({'lang': lang, 'shape': [len(x) for x in b], 'numbers': {f: nums[f] for f in nums}})
            if bi < 2:
                ctx.sample({'lang': lang, 'shape': [len(x) for x in b], 'first_tree': repr(gen.tree_sig(b[0][0].tree))[:600],
                            'auto_extended': to_string([b[0][:1]], format='auto_extended')[:400]})
        # the malformed stream (model vs implementation only)
        for _ in range(20 if ctx.quick else 250):
            t, kind = malformed_tree(rng, lang)
            add_tree(t, lang, 'malformed:' + kind, readable=(kind in ('noword', 'typekey')))
        # trees aimed at the branches of the prolog printers (wrappers conj / conj2 / lp over functor and atomic categories, labels outside
        # the tables, quotes and backslashes in every quoted field, punctuation categories, `case` in every position, missing words)
        for t in fmt_prolog_cases.special_trees(rng, lang, 40 if ctx.quick else 800):
            add_text_level(t, lang, 'prolog_special', only_prolog=True)
        for b in ([], [[]], [[ScoredTree(batches[0][0][0][0].tree, -1.5)], []]):
            add_docs(b, lang)
        # empty batches
    batch_cases.append('ChkBatch [] None None None')
    # the regex of _mathml_cat and html.escape on texts that are not category texts (stray / nested / empty brackets, newlines, entities)
    for x in ['', 'a[]]b', '[x]', 'a[b][c]d', 'a[', 'a[b', ']a[', 'a[\n]b', 'a[b\nc]d', 'S[dcl]]', '[[a]]', 'a[]', 'a[][b]', ']', '[', 'x[y]z[w]']:
        html_cases.append(fmt_html_cases.scan_case(x))
        html_descr.append({'kind': 'scan', 'text': x})
    for _ in range(60 if ctx.quick else 2000):
        x = ''.join(rng.choice('a[]\n(/S&<') for _ in range(rng.randint(0, 10)))
        html_cases.append(fmt_html_cases.scan_case(x))
        html_descr.append({'kind': 'scan', 'text': x})
    for x in ['', '&', '&amp;', '&amp;amp;', '<>', '"', "'", '&#x27;', '&lt', 'a&b<c>d"e\'f', '&&', '&#38;', '\u00e9&\u732b'] + [gen.rand_word(rng) for _ in range(30 if ctx.quick else 500)]:
        html_cases.append(fmt_html_cases.escape_case(x))
        html_descr.append({'kind': 'escape', 'text': x})
    batch_descr.append({'shape': []})

    bad = ctx.coq_cases('trees', PRE, tree_cases, chunk=max(8, len(tree_cases) // 16 + 1), describe=lambda i: {k: v for k, v in tree_descr[i].items() if k != 'gallina'})
    if bad:
        # which sub-check disagrees
        names = ['print_autox', 'print_conll', 'deps_of', 'enc_json', 'dec_autox on the real line', 'dec_json on the real dict', 'print_deriv / dec_deriv']
        for i in bad[:5]:
            g = tree_descr[i]['gallina']
            sub = ctx.coq_cases(f'trees_detail_{i}', PRE, [f'nth {k} (ChkTree {" ".join(g)}) false' for k in range(7)])
            ctx.notes.append(f'model/implementation disagreement on {tree_descr[i]["kind"]} tree {tree_descr[i]["tree"][:300]}: ' + ', '.join(names[k] for k in (sub or [])))
    bb = ctx.coq_cases('batches', PRE, [f'all_true ({c})' for c in batch_cases], chunk=max(2, len(batch_cases) // 16 + 1), describe=lambda i: batch_descr[i])
    for i in (bb or [])[:3]:
        sub = ctx.coq_cases(f'batches_detail_{i}', PRE, [f'nth {k} ({batch_cases[i]}) false' for k in range(3)])
        ctx.notes.append(f'batch assembly disagreement on {batch_descr[i]}: ' + ', '.join(['to_string auto_extended', 'to_string conll', 'to_string json'][k] for k in (sub or [])))
    ctx.coq_cases('numbering', PRE, num_cases, chunk=300, describe=lambda i: num_descr[i])
    ctx.coq_cases('prolog', fmt_prolog_cases.PRE_PROLOG, pl_cases, chunk=max(8, len(pl_cases) // 16 + 1), describe=lambda i: {k: v for k, v in pl_descr[i].items() if k != 't'})
    ctx.coq_cases('deriv_text', fmt_derivtext_cases.PRE_DERIVTEXT, dt_cases, chunk=max(8, len(dt_cases) // 16 + 1), describe=lambda i: {k: v for k, v in dt_descr[i].items() if k != 't'})
    hb = ctx.coq_cases('html', fmt_html_cases.PRE_HTML, html_cases, chunk=max(8, len(html_cases) // 16 + 1),
                       describe=lambda i: {k: v for k, v in html_descr[i].items() if k != 't'})
    for i in [i for i in (hb or []) if 't' in html_descr[i]][:3]:
        names = ['mathml_subtree (text)', 'hser_list (mathml_nodes)', 'dec_mathml on the element tree', 'hparse on the real string', 'hparse + dec_mathml_list on the real string']
        sub = ctx.coq_cases(f'html_detail_{i}', fmt_html_cases.PRE_HTML, [fmt_html_cases.tree_case_detail(html_descr[i]['t'], k) for k in range(5)])
        ctx.notes.append(f'html model/implementation disagreement on {html_descr[i]["tree"][:300]}: ' + ', '.join(names[k] for k in (sub or [])))

    for f in fmt_oracle.FORMATS:
        ok = ctx.stats.get(f'decoded:{f}', 0) > 0 and ctx.stats.get(f'decoded:{f}', 0) >= 0.9 * sum(v for k, v in ctx.stats.items() if k == 'decoded:json')
        ctx.obligation(f'oracle: records of format {f} were decoded and compared ({ctx.stats.get("decoded:" + f, 0)})', ok,
                       'too few records decoded - the encoder raised (C19) or the reader was skipped')

    db = ctx.coq_cases('html_doc', fmt_html_cases.PRE_HTML, hdoc_cases, chunk=max(2, len(hdoc_cases) // 16 + 1),
                       describe=lambda i: {k: v for k, v in hdoc_descr[i].items() if k != 'b'})
    for i in (db or [])[:3]:
        names = ['html_doc = to_string(format=html)', 'dec_html_doc on the real text = html_doc_views', 'numbers / score texts / header words read from the real text = the Python objects',
                 'page frame readable (doctype, head, body, /html)']
        sub = ctx.coq_cases(f'html_doc_detail_{i}', fmt_html_cases.PRE_HTML, [fmt_html_cases.batch_case_detail(hdoc_descr[i]['b'], k) for k in range(4)])
        ctx.notes.append(f'html document disagreement on a {hdoc_descr[i]["lang"]} batch of shape {hdoc_descr[i]["shape"]}: ' + ', '.join(names[k] for k in (sub or [])))

    ctx.trusted += ['hand-written models coq/Fmt.v, coq/FmtDeriv.v of printer/auto.py (auto_extended_of), printer/conll.py, printer/my_json.py, printer/deriv.py and of the batch loops of printer/__init__.py, '
                    'xml.py, jigg_xml.py, prolog.py, html.py (tied by the correspondence cases of this run: exact strings / ordered dicts / numbers)',
                    'translator translate/gen_tables.py (denormalize tables, puncts, cat_split class)',
                    'translator translate/gen_fmt.py (_MATHML_MAIN, the templates of _mathml_subtree, the f-strings of to_mathml and _mathml_cat, _prolog_header: string literals of the source; the table of str.lower is taken from the running interpreter, whose per-character lower-casing - everything but the final-sigma rule - is trusted to be what str.lower does inside a word)',
                    'json.dumps / json.loads, lxml serialisation and html.parser (library text round trips)',
                    'harness/fmt_dec.py readers of the eleven formats and harness/fmt_oracle.py (format definitions restated in Python)',
                    'hand-written models coq/FmtProlog.v (printer/prolog.py: _prolog_category_string, _escape_prolog, _prolog_string, to_prolog_en, to_prolog_ja; '
                    'str.lower modelled one character at a time from the table of the running interpreter GenFmt.py_lower_table - trees with a context-dependent character (U+03A3) in a category name are not compared, counted as prolog:outside_lower_domain; the header is the generated GenFmt.prolog_header_src), '
                    'coq/FmtHtml.v (printer/html.py: _mathml_cat incl. the regular expression as a scanner, _mathml_subtree; the templates of these two are written in the model and compared with those of the source (GenFmt.v) at every build: C07_html_tree_templates_from_source), coq/FmtHtmlDoc.v (to_mathml, str.format of _MATHML_MAIN; page template and f-strings from the generated GenFmt.v), '
                    'coq/FmtDerivText.v (reader only) - tied by the exact-string correspondence sets prolog / html / deriv_text of this run; rule tables from GenTables.v',
                    'harness/fmt_prolog_cases.py, fmt_html_cases.py, fmt_derivtext_cases.py (case construction; re.findall / html.escape / the real printers are called there)']
    return ctx.finish(
        level='proof',
        rule='inputs = batches of 1-4 sentences x 1-3 best for en and ja; first tree of a sentence from gen.licensed_tree (real rule functions over the shipped '
             'lexicon) or gen.rand_tree, further n-best trees over the same tokens by re-bracketing or relabelling; words from the exotic pool (brackets, quotes, '
             'slashes, < > &, non-ASCII, format keywords; no blanks, no backslashes), full and bare tokens, categories incl. punctuation and | slashes; plus probe '
             'sentences around awkward words/tags.  Every batch is printed by to_string in all eleven formats, decoded by the independent readers and compared '
             'with the Tree objects; a case = one (format, tree) record, non-trivial = the tree is not a single leaf, distinct by (format, tree signature).  '
             'Decodable per format: auto/conll-fragments shape+cats+head flags+pos+denormalized word; auto_extended +rule+lemma/pos/entity/chunk; ptb shape+cats+'
             'word with ( ) as -LRB-/-RRB-; ja shape+cats+symbol+normalized word+joined pos/inflection; json/xml shape+cats+op_string+all token items(+start/span); '
             'jigg shape+cats([f=true])+rule+begin/end+token table+ids; deriv words+leaf cats+every inner node (span from the dash extent, symbol, category) - the '
             'whole shape is recovered because unary and binary steps each print their own dash line; html shape+cats+op_string+word; prolog shape+cats(lower-case, '
             'punctuation names)+functor+token fields.  Correspondence cases = Coq model output vs real encoder output (strings / ordered dict / numbers) per tree and '
             'per batch, plus a malformed stream (token without word, token keys shadowing cat/children/type).  Text-level sets: prolog = print_prolog_en / print_prolog_ja and '
             'prolog_en_doc / prolog_ja_doc (header lines included) against _prolog_string / to_prolog_ja / to_string, plus the Coq token-level reader run on the REAL text '
             '(inside pl_okb_*), on every correspondence tree and on trees aimed at the wrappers conj / conj2 / lp, labels outside the tables, quotes / backslashes in quoted fields, '
             'missing words, category names with non-ASCII cased letters; both prolog document readers (header stripped / header declarations read) on the REAL to_string text; html = mathml_subtree, the serialised element tree, dec_mathml, hparse on the REAL string, mathml_scan against '
             're.findall on category texts and bracket soups, html_escape against html.escape; html_doc = html_doc against to_string(format=html) and the document reader dec_html_doc on the REAL text (sentence numbers, tree indices, score texts, header words against the Python objects, views against html_doc_views); deriv_text = the Coq text reader on the REAL deriv_of text (inside deriv_text_okb)',
        assumptions=['words, token values and rule labels: printable, non-empty, no blank, no backslash (the quantifier of the property); token keys do not include cat / children '
                     '(json) or start / span / id (xml, jigg)',
                     'n-best trees of one sentence are over the same tokens (jigg_xml and html print the tokens / words of the first tree only)',
                     'ja text / prolog: pos and inflection values contain no "/" and no "}" (they are joined with those characters); '
                     'rule symbols do not start with "-" (deriv) ; categories wf (CatFacts.wf) for the Coq round-trip theorems',
                     'scores are formatted by Python and passed to the model as opaque text',
                     'prolog round-trip theorems: quoted fields without backslash, category atoms are names (pl_okb_en / pl_okb_ja, both hold on every shipped lexical category: '
                     'P_C07 ex_shipped_prolog_*); document theorems over the generated header, whose declarations must be op(601, xfx, /), op(601, xfx, \\), multifile and discontiguous ccg/2, id/2; model of str.lower: every code point from the interpreter table, texts with U+03A3 outside (C07_prolog_lower_*: ASCII text, i.e. every shipped category, is lower-cased by the A-Z rule)',
                     'html round-trip theorems: no newline inside a category feature (cats_nonl; C07_html_roundtrip_newline_refuted is the witness that html.py:63 loses the brackets otherwise), '
                     'words / rule labels non-empty for the text-level statements; document theorem C07_html_doc_roundtrip: additionally the score text has none of the five characters html.escape rewrites (true of every .5e text); what it needs of _MATHML_MAIN is re-checked on the generated text at every build (one field {0}, <body> after a well-nested <head>, whitespace around the field, </body></html>) - attribute values, CSS and script text of the template are free',
                     'deriv text theorem: words non-empty and free of str.isspace() characters, printed categories and rule symbols free of newlines, symbols not starting with "-"'])
