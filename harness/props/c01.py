"""C01 - A* family; see astar_checks.py"""
import astar_checks

RULES = {
    '01': 'random sentences (n<=4 quick / 5 thorough) over random head-uniform table grammars with acyclic unary rules and over the real en/ja rule functions with a small lexicon, dyadic score grid, penalties {0,1/8,1/4}, pruning, beta, root sets, step budgets; non-trivial = the search popped more items than the sentence has tokens; distinct by (matrices, roots, configuration)',
}


def run(ctx):
    astar_checks.run_family(ctx, 'c01', 'P_C01')
    # the same statements for the DETERMINISTIC twin of parse_sentence (libstdc++ heap, exact push order): coq/P_DSearch.v; its tie
    # to the real pop traces (ties included) is exercised by the C11 check
    ctx.build(['P_DSearch.vo'])
    ctx.theorems('P_DSearch')
    # real-valued float32 scores: the heap compares ROUNDED priorities.  P_C01_approx.v: with slack delta (popped exact priority within delta
    # of the best on the agenda) the first parse is within delta * (nodes(d) + 1) of every derivation d; delta is measured per run in exact
    # rational arithmetic, the conclusion is checked against exhaustive enumeration, and the slack-measuring replay runs inside coqc
    import approx_cases
    approx_cases.run_approx(ctx, 150 if ctx.quick else 1500)
    # the premise of the property about the shipped grammars: one head direction (theorems over the translated grammars)
    ctx.build(['P_C01_grammars.vo'], gens=('tables', 'grammar', 'jaroots'))
    ctx.theorems('P_C01_grammars')
    ctx.trusted += ['implementation-level model coq/AStarImpl.v (tied to parsing.h by trace validation: every pop, its in/out score, span, head, the status, the goal derivations and scores of each run are accepted by the model inside coqc)',
                    'harness/driver.cpp + depccg_verif_rt.py (ctypes bridge, compiled against the repository header on every run) and the DEPCCG_VERIF pop hook',
                    'float32 arithmetic is exact on the dyadic score grid used (scores k/8, |k| small); on arbitrary reals the run is an instance of the slack model (AStarApprox.v reach_d) with the slack measured per run']
    return ctx.finish(level='proof', rule=RULES['01'],
                      assumptions=['exact-arithmetic theorems are about integer-scaled scores; for real-valued float32 log-probabilities the statement proved is approximate optimality: first parse >= every derivation d minus delta * (nodes(d) + 1), where delta is the largest amount by which a popped item was below the best agenda item in exact arithmetic (measured per run, <= 5e-6 on the generated inputs; no a-priori bound of delta from the unit roundoff is proved)',
                                   'theorems hold for every maximal-priority pop (the hook supplies the actual order); P_DSearch.v instantiates them for the one run libstdc++\'s heap really takes (deterministic twin, tied to the real traces in the C11 check)',
                                   'theorems with dedup (1-best) need a head-uniform grammar and unary penalty >= 0'])


def replay(data):
    import approx_cases
    return astar_checks.replay(data, 'c01') or approx_cases.replay_approx(data)
