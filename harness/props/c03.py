"""C03 - English combinatory rules are sound (and complete on identical parts).

proofs        : coq/P_C03.v over the GENERATED coq/GenEn.v (translate/gen_grammar.py from depccg/grammar/en.py on every run)
correspondence: T.C - `GenEn.apply_binary_rules` (Gallina, vm_compute inside coqc) against the real
                `depccg.grammar.en.apply_binary_rules` on the same category pairs, compared exactly (list of results with
                category, label, symbol, head flag, in order; exceptions as a small enum)
oracle        : harness/en_oracle.py - the CCG schemata re-stated in Python on the implementation's observable results
                (soundness of every result, head always left, modifier returns the other category unchanged, features of
                the result come from the inputs, bx/gbx never over a bare N/NP; conversely identical-parts premises yield
                their result)
"""
import env
import os, subprocess, time, itertools, multiprocessing as mp
import gen, common, en_oracle as O
from env import COQ
from gallina import lit, gcat, gbool
from depccg.cat import Category, Atom, Functor, UnaryFeature, TernaryFeature
from depccg.grammar import en

NPROC = common.NPROC

PRE = '''From Coq Require Import List NArith Bool.
Import ListNotations.
Require Import Cat CatFacts Unify GramPrims GenTables GenEn EnSpec.
Require Import WC03.Tbl.
Open Scope N_scope.
(* the interned categories: sub-tables of TSIZE entries *)
Definition g (i : N) : cat := nth (N.to_nat (i mod TSIZE)) (nth (N.to_nat (i / TSIZE)) TT []) (Atom [] FNone).
Definition dummy_ := {| rcat := Atom [] FNone; op_string := []; op_symbol := []; head_is_left := false |}.
Definition mkr (p : N * N) : cres :=
  let t := nth (N.to_nat (snd p)) L dummy_ in
  {| rcat := g (fst p); op_string := op_string t; op_symbol := op_symbol t; head_is_left := head_is_left t |}.
Fixpoint list_eqb {A} (e : A -> A -> bool) (a b : list A) := match a, b with [], [] => true | x :: a', y :: b' => e x y && list_eqb e a' b' | _, _ => false end.
Definition err_eqb (a b : err) : bool := match a, b with KeyErr, KeyErr | AttrErr, AttrErr | AssertErr, AssertErr | Twice, Twice | TypeErr, TypeErr | IndexErr, IndexErr => true | _, _ => false end.
Definition res_eqb {A} (e : A -> A -> bool) (a b : res A) : bool := match a, b with Ok_ x, Ok_ y => e x y | Err x, Err y => err_eqb x y | _, _ => false end.
Definition same := res_eqb (list_eqb cres_eqb).
(* apply_binary_rules(x, y) returned these results *)
Definition B (i j : N) (e : list (N * N)) : bool := same (GenEn.apply_binary_rules (g i) (g j) None) (Ok_ (map mkr e)).
(* apply_binary_rules(x, y) raised *)
Definition BE (i j : N) (e : err) : bool := same (GenEn.apply_binary_rules (g i) (g j) None) (Err e).
(* with a set of seen rules *)
Definition BS (i j : N) (s : list (N * N)) (e : list (N * N)) : bool :=
  same (GenEn.apply_binary_rules (g i) (g j) (Some (map (fun p => (g (fst p), g (snd p))) s))) (Ok_ (map mkr e)).
(* apply_unary_rules(x, table) *)
Definition U (i : N) (t : list (N * list N)) (e : list (N * N)) : bool :=
  same (GenEn.apply_unary_rules (g i) (map (fun p => (g (fst p), map g (snd p))) t)) (Ok_ (map mkr e)).
(* the category lies in the domain of the theorems (well-formed, English feature system) *)
Definition D (i : N) (b : bool) : bool := Bool.eqb (wfb puncts (g i) && unary_sysb (g i)) b.
(* a whole row of an inventory stored at T[off .. off+n): the listed columns fire as listed, every other column yields [] *)
Fixpoint lookup_ (j : N) (l : list (N * list (N * N))) : list (N * N) := match l with [] => [] | (k, v) :: r => if N.eqb j k then v else lookup_ j r end.
Fixpoint nseq_ (i : N) (n : nat) : list N := match n with O => [] | S m => i :: nseq_ (i + 1) m end.
Definition Row (off : N) (n : nat) (i : N) (e : list (N * list (N * N))) : bool :=
  forallb (fun j => B (off + i) (off + j) (lookup_ j e)) (nseq_ 0 n).
'''


class Table:
    """interned categories"""
    def __init__(self):
        self.cats, self.idx = [], {}

    def add(self, c):
        k = gcat(c)
        i = self.idx.get(k)
        if i is None:
            i = self.idx[k] = len(self.cats)
            self.cats.append(c)
        return i


def evaluate(cats, pairs, budget=None):
    """run the implementation and the oracle on index pairs, in NPROC processes; returns ({(i, j): (res, fails, strict)} of the
    interesting pairs, the list of pairs that were evaluated).  With a time budget (seconds) the chunks are taken in the given
    order until the budget is used up (the evidence records how many pairs were reached)."""
    O.CATS[:] = cats
    if not pairs:
        return {}, []
    size = max(200, min(4000, len(pairs) // (NPROC * 8) + 1))
    chunks = [pairs[k:k + size] for k in range(0, len(pairs), size)]
    t0, got, issued = time.time(), {}, []

    def feed():          # stop handing out work when the budget is used up; what was handed out is finished normally
        for c in chunks:
            if budget is not None and time.time() - t0 > budget:
                return
            issued.append(c)
            yield c
    pool = mp.get_context('fork').Pool(min(NPROC, len(chunks)))
    try:
        for out in pool.imap(O.work, feed()):
            for i, j, res, fails, strict in out:
                got[(i, j)] = (res, fails, strict)
        pool.close()         # (not terminate(): its lock hand-over with idle workers can hang on a loaded machine)
        pool.join()
    except BaseException:
        pool.terminate()
        raise
    return got, [p for c in issued for p in c]


def subterms(c, acc):
    acc.append(c)
    if c.is_functor:
        subterms(c.left, acc)
        subterms(c.right, acc)


def run(ctx):
    rng = ctx.rng
    quick = ctx.quick
    ctx.build(['P_C03.vo', 'P_C14_en.vo'], gens=('tables', 'grammar_en'))      # en.py only: ja.py / __init__.py are not this check's business
    ctx.theorems('P_C03')
    ctx.theorems('P_C14_en')

    pool = Table()       # categories the implementation is run on
    ctab = Table()       # categories the Coq cases refer to
    labels = {}          # (op_string, op_symbol, head) -> index
    cases, descr = [], []

    def lab_ix(r):
        k = (r.op_string, r.op_symbol, bool(r.head_is_left))
        if k not in labels:
            labels[k] = len(labels)
        return labels[k]

    def gres(rs):
        return '[' + ';'.join(f'({ctab.add(r.cat)},{lab_ix(r)})' for r in rs) + ']'

    def add_case(i, j, res, kind):
        """one Coq case for pool pair (i, j) with the observed outcome"""
        x, y = pool.cats[i], pool.cats[j]
        if res[0] == 'ok':
            cases.append(f'B {ctab.add(x)} {ctab.add(y)} {gres(res[1])}')
        else:
            cases.append(f'BE {ctab.add(x)} {ctab.add(y)} {res[1]}')
        descr.append((kind, str(x), str(y), sig(res)))

    def sig(res):
        return [(str(r.cat), r.op_string, r.op_symbol, r.head_is_left) for r in res[1]] if res[0] == 'ok' else res

    nfail = [0]

    def digest(kind, pairs, got):
        """book-keeping for one evaluated stream: oracle failures, statistics, case counts"""
        fired = 0
        for (i, j), (res, fails, strict) in got.items():
            x, y = pool.cats[i], pool.cats[j]
            if res[0] == 'ok' and res[1]:
                fired += 1
                ctx.case((str(x), str(y)), nontrivial=True)
                for r in res[1]:
                    ctx.count(f'rule:{r.op_string}{r.op_symbol}')
            if res[0] == 'err':
                ctx.count(f'outcome:{kind}:{res[1]}')
            if strict:
                ctx.count(f'observed:bx_or_gbx_over_a_bare_N_NP_on_the_left_functor_side:{kind}')
                if kind.startswith(('closure', 'inventory')):
                    ctx.sample({'observed_bx_over_bare_N_NP_on_the_left_functor_side': [str(x), str(y), sig(res)]}, limit=2)
            for k, why in fails:
                nfail[0] += 1
                ctx.fail(k, f'en.apply_binary_rules({str(x)!r}, {str(y)!r}): {why}',
                         {'x': str(x), 'y': str(y), 'results': sig(res), 'stream': kind})
        ctx.evaluations += len(pairs) - fired
        ctx.count(f'pairs:{kind}', len(pairs))
        ctx.count(f'firing:{kind}', fired)
        return fired

    def stream(kind, pairs, n_fire, n_quiet, budget=None):
        """evaluate pairs (pool indices); put up to n_fire firing and n_quiet non-firing pairs into the Coq cases"""
        pairs = list(dict.fromkeys(pairs))
        t0 = time.time()
        got, pairs = evaluate(pool.cats, pairs, budget)
        t1 = time.time()
        digest(kind, pairs, got)
        ctx.stats[f'stage_s:{kind}'] = [round(t1 - t0, 1), round(time.time() - t1, 1)]
        firing = [p for p in pairs if p in got and (got[p][0][0] == 'err' or got[p][0][1])]
        quiet = [p for p in pairs if p not in got or not (got[p][0][0] == 'err' or got[p][0][1])]
        if n_fire is not None and len(firing) > n_fire:
            firing = rng.sample(firing, n_fire)
        if len(quiet) > n_quiet:
            quiet = rng.sample(quiet, n_quiet)
        for p in firing:
            add_case(p[0], p[1], got[p][0], kind)
        for p in quiet:
            add_case(p[0], p[1], ('ok', []), kind + ':quiet')
        return got

    # ---- 1. the two shipped inventories -----------------------------------------------------------------
    inv, row_off = {}, {}
    for lang in ('en', 'en_rebank'):
        cs = [Category.parse(s) for s in gen.inventory(lang)]
        for c in cs:
            if not (gen.wf_py(c) and O.in_domain(c)):
                ctx.fail('shipped_not_wf', f'inventory category {c} of targets.{lang} is outside the domain of the theorems', {'text': str(c), 'lang': lang})
        inv[lang] = list(dict.fromkeys(pool.add(c) for c in cs))
        if not quick:      # thorough: a contiguous copy of the inventory at the head of the Coq table (the row cases address it by offset)
            row_off[lang] = len(ctab.cats)
            for i in inv[lang]:
                ctab.cats.append(pool.cats[i])
                ctab.idx.setdefault(gcat(pool.cats[i]), len(ctab.cats) - 1)
        for c in cs:       # the Coq-side domain predicate holds of every shipped category
            cases.append(f'D {ctab.add(c)} true')
            descr.append(('domain', str(c), lang, True))
    new_cats = {}      # result categories outside the inventories, for the closure rounds
    known = set(pool.idx)
    rows = []          # thorough: one Coq case per row of each inventory
    for lang in ('en', 'en_rebank'):
        ix = inv[lang]
        if quick:
            pairs = [(rng.choice(ix), rng.choice(ix)) for _ in range(12000)]
            got = stream(f'inventory:{lang}', pairs, None, 250)
        else:
            pairs = [(i, j) for i in ix for j in ix]
            got, _ = evaluate(pool.cats, pairs)
            digest(f'inventory:{lang}', pairs, got)
            rows.append((lang, ix, got))
        for (i, j), (res, _, _) in got.items():
            if res[0] == 'ok':
                for r in res[1]:
                    if gcat(r.cat) not in known:
                        new_cats.setdefault(gcat(r.cat), r.cat)

    # ---- 2. all small categories over a small alphabet -----------------------------------------------------
    atoms = [gen.mk_atom(b, f) for b in ('S', 'N', 'NP') for f in (None, 'X', 'nb', 'dcl', 'b')] + [Atom(','), Atom('conj'), Atom('LRB')]
    small2 = [pool.add(c) for c in gen.enum_cats(atoms, ['/', '\\', '|'], 2)]
    pairs = [(i, j) for i in small2 for j in small2]
    if quick:
        rng.shuffle(pairs)      # quick: all 980100 pairs unless the machine is too loaded to get through them in 25 s
    stream('small<=2', pairs, 1200 if quick else 6000, 250 if quick else 1500, budget=25 if quick else None)
    if not quick:
        def rand_small(n):
            if n == 1:
                return rng.choice(atoms)
            k = rng.randint(1, n - 1)
            return Functor(rand_small(k), rng.choice('/\\|'), rand_small(n - k))
        cs3 = [pool.add(rand_small(3)) for _ in range(40000)]
        allsmall = cs3 + cs3 + small2
        pairs = [(rng.choice(cs3), rng.choice(allsmall)) for _ in range(400000)] + [(rng.choice(allsmall), rng.choice(cs3)) for _ in range(400000)]
        stream('small<=3', pairs, 8000, 1500)

    # ---- 3. instances of every schema built from parts (identical parts, and parts differing in features) --------
    parts = []
    for lang in ('en', 'en_rebank'):
        for i in inv[lang]:
            subterms(pool.cats[i], parts)
    parts = [c for c in {gcat(c): c for c in parts}.values() if gen.size(c) <= 3] + atoms

    def vary(c):
        """the same category with some features changed (variable, absent, 'nb', another value)"""
        if c.is_functor:
            return Functor(vary(c.left), c.slash, vary(c.right))
        if c.base in gen.puncts() or rng.random() < 0.5:
            return c
        return gen.mk_atom(c.base, rng.choice([None, 'X', 'nb', 'dcl', 'b', 'em']))
    def vary_one(c):
        """the same category with the feature of exactly ONE atom replaced by a concrete value that clashes with it (or fills an empty slot)"""
        leaves = []

        def walk(x, path):
            if x.is_functor:
                walk(x.left, path + (0,)); walk(x.right, path + (1,))
            elif x.base not in gen.puncts():
                leaves.append(path)
        walk(c, ())
        if not leaves:
            return c, c
        target = rng.choice(leaves)
        val = [None]

        def rebuild(x, path):
            if x.is_functor:
                return Functor(rebuild(x.left, path + (0,)), x.slash, rebuild(x.right, path + (1,)))
            if path != target:
                return x
            return gen.mk_atom(x.base, val[0])
        # both occurrences get a value at that atom: two different concrete ones (a clash), or a concrete one against a variable / no feature
        v1, v2 = rng.sample(['dcl', 'b', 'em', 'ng'], 2)
        if rng.random() < 0.3:
            v2 = rng.choice(['X', None])
        val = [v1]
        first = rebuild(c, ())
        val[0] = v2
        return first, rebuild(c, ())
    big_parts = [c for c in parts if gen.size(c) >= 3] or parts
    built = []
    for it_ in range(150 if quick else 3000):
        a, b, c, d = (rng.choice(parts) for _ in range(4))
        if it_ % 3 == 0:
            b = rng.choice(big_parts)          # a shared part with at least three atoms ...
        b2 = b if rng.random() < 0.5 else vary(b)
        if it_ % 3 == 0:
            b, b2 = vary_one(b)                 # ... whose two occurrences differ at exactly one atom
        if rng.random() < 0.15:
            a = b                                   # modifier
        if rng.random() < 0.1:
            b = b2 = rng.choice([Atom('N'), Atom('NP'), gen.mk_atom('NP', 'nb'), gen.mk_atom('N', 'X')])
        f, bk, o = rng.choice('/|'), rng.choice('\\|'), rng.choice('/\\|')
        built += [(Functor(a, f, b), b2), (b2, Functor(a, bk, b)),
                  (Functor(a, f, b), Functor(b2, rng.choice('/|'), c)), (Functor(b2, f, c), Functor(a, bk, b)),
                  (Functor(a, f, b), Functor(Functor(b2, rng.choice('/|'), c), o, d)), (Functor(Functor(b2, f, c), o, d), Functor(a, bk, b)),
                  (Functor(a, '\\', b), b2), (Functor(b2, '\\', c), Functor(a, '/', b)), (Functor(Functor(b2, f, c), o, d), Functor(a, '/', b))]
        p = rng.choice([Atom(','), Atom(';'), Atom('conj'), Atom('.'), Atom('LRB'), Atom('LQU'), Atom('RRB'), Atom(':')])
        built += [(p, a), (a, p), (p, Functor(a, '/', Functor(a, '\\', b)))]
    built += [(Category.parse(s), Category.parse(t)) for s, t in [
        ('S[dcl]', 'S[em]\\S[em]'), ('S[dcl]', 'S[em]/S[em]'), ('S[em]', 'S[em]\\S[em]'), ('conj', 'NP\\NP'), ('conj', 'NP[nb]\\NP'), (',', 'NP\\NP'),
        (',', 'S[ng]\\NP'), (',', 'S[pss]\\NP'), (',', 'S[dcl]\\NP'), (',', 'S[dcl]/S[dcl]'), (';', 'S[dcl]/S[dcl]'), (',', 'S[ng]\\NP[nb]'),
        ('LRB', 'NP'), ('LQU', 'S[dcl]'), ('RQU', 'NP'), ('NP', 'RQU'), (',', ','), ('conj', 'conj'), ('NP/NP', 'S\\NP'), ('NP[nb]/N', 'S[dcl]\\NP[expl]'),
        ('(S/NP)/PP', 'VP/S'), ('(S/NP)/PP', 'VP\\S'), ('S[X]/(NP[X]/N[X])', '(NP[conj]/N[num])/PP'), ('S[X]/NP[X]', 'NP[dcl]'), ('S/NP[X]', 'NP[dcl]'),
        ('NP[X]/NP', 'S\\NP'), ('NP/NP', 'S\\NP[X]'), ('N/N', 'S\\N'), ('(N/N)/PP', 'S\\N')]]
    stream('schema-instances', [(pool.add(x), pool.add(y)) for x, y in built], None, 200 if quick else 2000)

    # ---- 4. rule closure: categories derived by the rules, combined with the lexical ones --------------------
    allinv = inv['en'] + inv['en_rebank']
    for rnd in range(1 if quick else 2):
        fresh = [pool.add(c) for c in new_cats.values()]
        if not fresh:
            break
        n = 3000 if quick else 60000
        pairs = [(rng.choice(fresh), rng.choice(allinv)) for _ in range(n)] + [(rng.choice(allinv), rng.choice(fresh)) for _ in range(n)] \
            + [(rng.choice(fresh), rng.choice(fresh)) for _ in range(n // 3)]
        got = stream(f'closure:{rnd + 1}', pairs, 700 if quick else 6000, 150 if quick else 1500)
        known = set(pool.idx)
        new_cats = {}
        for (i, j), (res, _, _) in got.items():
            if res[0] == 'ok':
                for r in res[1]:
                    if gcat(r.cat) not in known:
                        new_cats.setdefault(gcat(r.cat), r.cat)

    # ---- 5. malformed stream (outside the domain of the theorems; model and implementation must still agree) ----
    ja = [gen.mk_atom('S', gen.JA_FEATS[0]), gen.mk_atom('NP', gen.JA_FEATS[3]), gen.mk_atom('S', gen.JA_FEATS[1]), gen.mk_atom('NP', gen.JA_FEATS[5])]
    odd = ja + [Atom(''), gen.mk_atom('', 'dcl'), Atom('1'), Atom('*START*'), gen.mk_atom('conj', 'X'), gen.mk_atom('S', ''), Atom('S[dcl]'), Atom('N '), Atom('NP\\NP')]
    oddcats = odd + gen.enum_cats(odd[:7] + atoms[:3], ['/', '\\'], 2)
    mal = []
    for _ in range(250 if quick else 3000):
        a, b = rng.choice(oddcats), rng.choice(oddcats + atoms + [pool.cats[i] for i in rng.sample(allinv, 5)])
        mal.append((a, b) if rng.random() < 0.5 else (b, a))
    mal += [(Functor(ja[0], '/', ja[1]), ja[3]), (Functor(ja[0], '/', gen.mk_atom('NP', 'nb')), ja[1]), (Functor(ja[0], '/', ja[1]), Atom('NP'))]
    stream('malformed', [(pool.add(x), pool.add(y)) for x, y in mal], None, 300 if quick else 3000)
    for c in oddcats[:60] + [pool.cats[i] for i in small2[:40]]:
        cases.append(f'D {ctab.add(c)} {gbool(gen.wf_py(c) and O.in_domain(c))}')
        descr.append(('domain', str(c), 'synthetic', gen.wf_py(c) and O.in_domain(c)))

    # ---- 6. the seen-rule gate and the unary rules (same generated file; the theorems of C14 are about them) --------
    seen_src = gen.model_file('seen_rules.en.jsonnet')
    seen_all = [(Category.parse(a).clear_features('X', 'nb'), Category.parse(b).clear_features('X', 'nb')) for a, b in rng.sample(seen_src, 40)]
    for _ in range(120 if quick else 1500):
        a, b = rng.choice(seen_all)
        x, y = (a, b) if rng.random() < 0.6 else (pool.cats[rng.choice(allinv)], pool.cats[rng.choice(allinv)])
        if rng.random() < 0.5:
            x = Functor(x.left, x.slash, gen.mk_atom('NP', 'nb')) if x.is_functor and str(x.right) == 'NP' else x
        s = rng.sample(seen_all, rng.randint(0, 6))
        res = list(en.apply_binary_rules(x, y, set(s)))
        cases.append(f'BS {ctab.add(x)} {ctab.add(y)} [' + ';'.join(f'({ctab.add(p)},{ctab.add(q)})' for p, q in s) + f'] {gres(res)}')
        descr.append(('seen', str(x), str(y), sig(('ok', res))))
        ctx.count('seen:nonempty' if res else 'seen:empty')
    _, _, utable = gen.grammar('en')
    gt = '[' + ';'.join(f'({ctab.add(k)},[' + ';'.join(str(ctab.add(v)) for v in vs) + '])' for k, vs in utable.items()) + ']'
    for x in list(utable) + [pool.cats[i] for i in rng.sample(allinv, 40)]:
        res = list(en.apply_unary_rules(x, utable))
        cases.append(f'U {ctab.add(x)} {gt} {gres(res)}')
        descr.append(('unary', str(x), '', sig(('ok', res))))
        for r in res:
            ctx.count(f'rule:{r.op_string}{r.op_symbol}')

    # ---- thorough: every pair of both inventories, one Coq case per row ------------------------------------
    for lang, ix, got in rows:
        off = row_off[lang]
        pos = {i: k for k, i in enumerate(ix)}
        by_row = {}
        for (i, j), (res, _, _) in got.items():
            by_row.setdefault(i, []).append((pos[j], res))
        for i in ix:
            ent = sorted(by_row.get(i, []), key=lambda e: e[0])
            if any(res[0] == 'err' for _, res in ent):
                for k, res in ent:
                    add_case(i, ix[k], res, f'inventory:{lang}')
                continue
            cases.append(f'Row {off} {len(ix)}%nat {pos[i]} [' + ';'.join(f'({k},{gres(res[1])})' for k, res in ent) + ']')
            descr.append((f'row:{lang}', str(pool.cats[i]), f'all {len(ix)} columns', len(ent)))

    # ---- the Coq side -----------------------------------------------------------------------------------
    ok = compile_table(ctx, ctab.cats, labels)
    if ok:
        bad = ctx.coq_cases('grammar', PRE, cases, chunk=150 if quick else 100, describe=lambda i: descr[i])
        for i in (bad or [])[:10]:
            ctx.notes.append(f'model/implementation disagreement on {descr[i]!r}')
    ctx.stats['coq_table_categories'] = len(ctab.cats)
    ctx.stats['implementation_categories'] = len(pool.cats)
    ctx.stats['oracle_failures'] = nfail[0]
    for d in descr[:2] + descr[len(descr) // 2: len(descr) // 2 + 2]:
        ctx.sample({'case': d})
    ctx.trusted += ['hand-written models coq/Cat.v, coq/Unify.v, coq/GramPrims.v of depccg/cat.py, depccg/unification.py and the rule loop (tied by the correspondence cases of this run)',
                    'translator translate/gen_grammar.py, translate/gen_tables.py (validated on every run by the same correspondence: generated Gallina grammar vs Python grammar)',
                    'coq/EnSpec.v: the declarative schemata Justified_en (read it: it is the meaning of the theorems)']
    return ctx.finish(
        level='proof',
        rule='cases = ordered category pairs on which depccg.grammar.en.apply_binary_rules is run: pairs of the shipped inventories targets.en / '
             'targets.en_rebank (quick: 24000 random pairs, all firing ones kept; thorough: all pairs), all pairs of the 990 categories of <= 2 atoms (quick: in random order, as many as 25 s allow - see stats pairs:small<=2) over '
             '{S,N,NP}x{none,X,nb,dcl,b} + {",",conj,LRB} with slashes / \\ | (thorough: + 800000 random pairs with a 3-atom member), instances of every schema '
             'built from inventory sub-categories with identical and feature-perturbed matched parts, rule closure (results paired with lexical categories), '
             'a malformed stream (feature triples, empty names) for the correspondence only, seen-rule sets and the unary table; non-trivial = at least one rule fires; '
             'distinct by the pair of category texts',
        assumptions=['domain of the theorems and of the oracle: well-formed categories (CatFacts.wf) whose features are unary or absent',
                     'reading of "never composes over a bare N or NP": the argument of the secondary (right) functor, as matched, is not N / NP without feature; '
                     'results whose primary functor composes over a bare N/NP while the secondary carries a feature are counted in stats, not failed'])


def compile_table(ctx, cats, labels):
    """work/C03/Tbl.vo: the interned categories (in parallel sub-tables) and the label templates"""
    t0 = time.time()
    n = 400
    parts = [cats[k:k + n] for k in range(0, len(cats), n)] or [[]]
    flags = ['-R', COQ, 'Depccg', '-Q', ctx.work, f'W{ctx.pid}']
    head = 'From Coq Require Import List NArith.\nImport ListNotations.\nRequire Import Cat GramPrims.\nOpen Scope N_scope.\n'
    procs = []
    for k, p in enumerate(parts):
        fn = os.path.join(ctx.work, f'T{k}.v')
        with open(fn, 'w') as f:
            f.write(head + f'Definition t{k} : list cat := [\n' + ';\n'.join(gcat(c) for c in p) + '].\n')
        procs.append(subprocess.Popen(['timeout', '600', env.COQC] + flags + [fn], stdout=subprocess.PIPE, stderr=subprocess.STDOUT, text=True))
        if len(procs) % NPROC == 0:
            for q in procs:
                q.wait()
    outs = [q.communicate()[0] for q in procs]
    ok = all(q.returncode == 0 for q in procs)
    if ok:
        fn = os.path.join(ctx.work, 'Tbl.v')
        with open(fn, 'w') as f:
            f.write(head + ''.join(f'Require Import W{ctx.pid}.T{k}.\n' for k in range(len(parts))))
            f.write('Definition TT : list (list cat) := [' + '; '.join(f't{k}' for k in range(len(parts))) + '].\n')
            f.write(f'Definition TSIZE : N := {n}.\n')
            f.write('Definition L : list cres := [' + ';\n'.join(
                f'{{| rcat := Atom [] FNone; op_string := {lit(a)}; op_symbol := {lit(b)}; head_is_left := {gbool(h)} |}}' for (a, b, h) in labels) + '].\n')
        rc, out, err, _ = common.sh(['timeout', '600', env.COQC] + flags + [fn])
        ok = rc == 0
        outs.append(out + err)
    ctx.obligation('correspondence: category table compiles', ok, '' if ok else '\n'.join(outs)[-1500:])
    ctx.stats['table_s'] = round(time.time() - t0, 1)
    return ok


def replay(data):
    """re-run the recorded failing pairs on the implementation with the oracle"""
    n = 0
    for f in data.get('failures', []):
        d = f.get('data', {})
        if 'x' not in d:
            print('not replayable:', f.get('desc'))
            continue
        x, y = Category.parse(d['x']), Category.parse(d['y'])
        res = list(en.apply_binary_rules(x, y))
        bad = O.check_pair(x, y, res)
        print(f"{d['x']}  {d['y']}  =>  {[(str(r.cat), r.op_string, r.op_symbol, r.head_is_left) for r in res]}")
        for k, why in bad:
            n += 1
            print(f'  VIOLATION[{k}]: {why}')
    print(f'replayed: {n} violation(s)')
    return 1 if n else 0
