"""C06 - Pattern matching of categories succeeds exactly when it should (depccg/unification.py)."""
import json, os, subprocess, sys
import env
import gen
import c06_obs
from gallina import lit, gcat, glist
from depccg.cat import Category, Atom, Functor, UnaryFeature, TernaryFeature

sys.path.insert(0, os.path.join(env.VERIF, 'translate'))
import gen_unif  # noqa: E402

PRE = '''From Coq Require Import List NArith Bool.
Import ListNotations.
Require Import Cat CatFacts Unify UnifySpec.
Open Scope N_scope.
Fixpoint list_eqb {A} (e : A -> A -> bool) (a b : list A) := match a, b with [], [] => true | x :: a', y :: b' => e x y && list_eqb e a' b' | _, _ => false end.
Definition err_eqb (a b : err) : bool := match a, b with KeyErr, KeyErr | AttrErr, AttrErr | AssertErr, AssertErr | Twice, Twice | TypeErr, TypeErr | IndexErr, IndexErr => true | _, _ => false end.
Definition res_eqb {A} (e : A -> A -> bool) (a b : res A) : bool := match a, b with Ok_ x, Ok_ y => e x y | Err x, Err y => err_eqb x y | _, _ => false end.
Definition rc_eqb := res_eqb cat_eqb.
(* one case: patterns, inputs, the names read, and what Python did:
   pre = reads before the call, flag = answer or exception, reads = reads after the call, second = second call.
   The model has no object state after an exception, so reads/second are compared only when the call answered. *)
Definition Chk (px py x y : cat) (names : list text) (pre : list (res cat)) (flag : res bool) (reads : list (res cat)) (second : res bool) : bool :=
  list_eqb rc_eqb (map (uread (UFresh px py)) names) pre &&
  match ucall (UFresh px py) x y with
  | Err e => res_eqb Bool.eqb (Err e) flag && match unify px py x y with Err e' => err_eqb e e' | _ => false end
  | Ok_ (b, o) =>
      res_eqb Bool.eqb (Ok_ b) flag && list_eqb rc_eqb (map (uread o) names) reads &&
      match ucall o x y with Err e2 => res_eqb Bool.eqb (Err e2) second | Ok_ _ => false end &&
      match unify px py x y with
      | Ok_ (Some st) => b && list_eqb rc_eqb (map (uget st) names) reads
      | Ok_ None => negb b
      | Err _ => false
      end &&
      Bool.eqb b (matchesb px py x y)       (* the specification decides the answer (unify_success_b) *)
  end.
'''

SL = ['/', '\\', '|']
VARS = 'abcde'


# ---------------------------------------------------------------------------------------------
# generators
def rand_pattern(rng, nvars, depth):
    vs = VARS[:nvars]

    def go(d):
        if d == 0 or rng.random() < 0.3:
            v = rng.choice(vs)
            if rng.random() < 0.05:          # a feature on a pattern atom is ignored by the matcher
                return Atom(v, UnaryFeature(rng.choice(['X', 'dcl'])))
            return Atom(v)
        return Functor(go(d - 1), rng.choice(SL), go(d - 1))
    return go(depth)


def rand_feat(rng, system):
    if system == 'en':
        return gen.mk_atom('Q', rng.choice(gen.EN_FEATS)).feature
    f = rng.choice(gen.JA_FEATS)
    if rng.random() < 0.15:
        f = tuple((k, rng.choice([v, 'X1', 'X2', 'z'])) for k, v in f)
    return TernaryFeature(*f)


def nice_atom(rng, system):
    """atoms without punctuation names (those carry no features and add little here)"""
    if system == 'en':
        return Atom(rng.choice(['S', 'N', 'NP', 'PP']), rand_feat(rng, 'en'))
    return Atom(rng.choice(['S', 'NP']), rand_feat(rng, 'ja'))


def nice_cat(rng, system, depth):
    if depth == 0 or rng.random() < 0.4:
        return nice_atom(rng, system) if rng.random() < 0.9 else gen.rand_atom(rng, system)
    return Functor(nice_cat(rng, system, depth - 1), rng.choice(SL[:2] if rng.random() < 0.9 else SL), nice_cat(rng, system, depth - 1))


def refeature(rng, c, system, friendly):
    """same skeleton, features re-drawn: kept, made lenient/variable, or random"""
    if isinstance(c, Atom):
        if c.base in gen.puncts():
            return c
        r = rng.random()
        if r < (0.6 if friendly else 0.3):
            return c
        if system == 'en':
            if r < (0.9 if friendly else 0.5):
                return Atom(c.base, UnaryFeature(rng.choice([None, 'X', 'nb'])))
            return Atom(c.base, rand_feat(rng, 'en'))
        if r < (0.9 if friendly else 0.5):
            f = c.feature
            if isinstance(f, TernaryFeature):      # generalise some values to variables
                items = tuple((k, (f'X{i + 1}' if rng.random() < 0.6 else v)) for i, (k, v) in enumerate(f.items()))
                return Atom(c.base, TernaryFeature(*items))
        return Atom(c.base, rand_feat(rng, 'ja'))
    return Functor(refeature(rng, c.left, system, friendly), c.slash, refeature(rng, c.right, system, friendly))


def instantiate(rng, p, envd, system, friendly):
    if isinstance(p, Atom):
        if p.base in envd:
            c = refeature(rng, envd[p.base], system, friendly)
        else:
            c = nice_cat(rng, system, rng.choice([0, 0, 1, 1, 2]))
            envd[p.base] = c
        return c
    s = p.slash
    if s == '|':
        s = rng.choice(SL)
    elif rng.random() < 0.04:
        s = '|'
    return Functor(instantiate(rng, p.left, envd, system, friendly), s, instantiate(rng, p.right, envd, system, friendly))


def subterms(c, path=()):
    yield path, c
    if isinstance(c, Functor):
        yield from subterms(c.left, path + ('l',))
        yield from subterms(c.right, path + ('r',))


def replace_at(c, path, new):
    if not path:
        return new
    if path[0] == 'l':
        return Functor(replace_at(c.left, path[1:], new), c.slash, c.right)
    return Functor(c.left, c.slash, replace_at(c.right, path[1:], new))


def perturb(rng, c, system, kind):
    subs = list(subterms(c))
    if kind == 'feat':
        atoms = [(p, a) for p, a in subs if isinstance(a, Atom) and a.base not in gen.puncts()]
        if not atoms:       # punctuation atoms carry no feature (such values cannot even be printed and read back)
            return nice_cat(rng, system, 1)
        p, a = rng.choice(atoms)
        return replace_at(c, p, Atom(a.base, rand_feat(rng, system)))
    if kind == 'slash':
        fs = [(p, f) for p, f in subs if isinstance(f, Functor)]
        if not fs:
            return nice_cat(rng, system, 1)
        p, f = rng.choice(fs)
        return replace_at(c, p, Functor(f.left, rng.choice([s for s in SL if s != f.slash]), f.right))
    if kind == 'base':
        atoms = [(p, a) for p, a in subs if isinstance(a, Atom)]
        p, a = rng.choice(atoms)
        return replace_at(c, p, Atom(rng.choice([b for b in ['S', 'N', 'NP', 'PP'] if b != a.base]), a.feature))
    # structure
    p, s = rng.choice(subs)
    return replace_at(c, p, nice_cat(rng, system, 0 if isinstance(s, Functor) else rng.choice([1, 2])))


# ---- structural perturbations of ONE occurrence of a variable's binding (stream 'shared-*') ----------------------
def flatten(c):
    """the atoms and the slashes of c from left to right (what remains of c when the brackets are forgotten)"""
    if isinstance(c, Atom):
        return [c], []
    la, ls = flatten(c.left)
    ra, rs = flatten(c.right)
    return la + ra, ls + [c.slash] + rs


def with_shape(rng, atoms_, slashes):
    """a category with exactly these atoms and slashes from left to right, nested at random"""
    if len(atoms_) == 1:
        return atoms_[0]
    k = rng.randrange(len(slashes))
    return Functor(with_shape(rng, atoms_[:k + 1], slashes[:k]), slashes[k], with_shape(rng, atoms_[k + 1:], slashes[k + 1:]))


def shaped_cat(rng, system, n, atom=None):
    """a category with exactly n atoms, every nesting possible"""
    atom = atom or nice_atom
    return with_shape(rng, [atom(rng, system) for _ in range(n)], [rng.choice(SL[:2] if rng.random() < 0.93 else SL) for _ in range(n - 1)])


def rotations(c):
    """every category obtained from c by moving ONE pair of brackets: (A s B) t C <-> A s (B t C) at one node"""
    out = []
    for p, s in subterms(c):
        if isinstance(s, Functor):
            if isinstance(s.left, Functor):
                out.append(replace_at(c, p, Functor(s.left.left, s.left.slash, Functor(s.left.right, s.slash, s.right))))
            if isinstance(s.right, Functor):
                out.append(replace_at(c, p, Functor(Functor(s.left, s.slash, s.right.left), s.right.slash, s.right.right)))
    return out


STRUCT_KINDS = ['rebracket', 'rebracket', 'rotate', 'rotate', 'flip', 'base', 'addarg', 'droparg', 'same']


def struct_perturb(rng, c, system, kind):
    """another category that differs from c in its STRUCTURE in one specific way (features are left where they are);
    None when c is too small for this kind.  Whether a match must then fail is not decided here: the oracle / the model judge."""
    subs = list(subterms(c))
    fs = [(p, f) for p, f in subs if isinstance(f, Functor)]
    if kind == 'same':
        return c
    if kind == 'rebracket':         # same atoms and slashes left to right, any other nesting
        at, sl = flatten(c)
        if len(at) < 3:
            return None
        for _ in range(20):
            d = with_shape(rng, at, sl)
            if skel(d) != skel(c):
                return d
        return None
    if kind == 'rotate':            # one pair of brackets moved
        rs = rotations(c)
        return rng.choice(rs) if rs else None
    if kind == 'flip':              # one slash replaced
        if not fs:
            return None
        p, f = rng.choice(fs)
        other = [s for s in SL[:2] if s != f.slash] if rng.random() < 0.85 else [s for s in SL if s != f.slash]
        return replace_at(c, p, Functor(f.left, rng.choice(other), f.right))
    if kind == 'base':              # one atom renamed (its feature stays)
        atoms_ = [(p, a) for p, a in subs if isinstance(a, Atom)]
        p, a = rng.choice(atoms_)
        names = ['S', 'NP'] if system == 'ja' and rng.random() < 0.7 else ['S', 'N', 'NP', 'PP']
        return replace_at(c, p, Atom(rng.choice([b for b in names if b != a.base]), a.feature))
    if kind == 'addarg':            # one more argument: on the outside, or on one sub-category
        p, s = rng.choice(subs) if rng.random() < 0.6 else ((), c)
        extra = nice_atom(rng, system)
        new = Functor(s, rng.choice(SL[:2]), extra) if rng.random() < 0.7 else Functor(extra, rng.choice(SL[:2]), s)
        return replace_at(c, p, new)
    if kind == 'droparg':           # one argument (or one result) removed
        if not fs:
            return None
        p, f = rng.choice(fs)
        return replace_at(c, p, f.left if rng.random() < 0.7 else f.right)
    raise ValueError(kind)


def occurrences(ppx, ppy):
    """[(variable, side, leaf number)] of the two patterns"""
    return [(v, 0, i) for i, v in enumerate(pattern_names(ppx))] + [(v, 1, i) for i, v in enumerate(pattern_names(ppy))]


def build_occ(rng, p, side, envd, special, counter=None):
    """the pattern with every variable replaced by its binding; the occurrence `special` = (variable, side, leaf number, category)
    gets its own category; a '|' of the pattern (it matches any slash) becomes any slash"""
    counter = counter if counter is not None else [0]
    if isinstance(p, Atom):
        i = counter[0]
        counter[0] += 1
        if special is not None and (p.base, side, i) == special[:3]:
            return special[3]
        return envd[p.base]
    l = build_occ(rng, p.left, side, envd, special, counter)
    r = build_occ(rng, p.right, side, envd, special, counter)
    return Functor(l, p.slash if p.slash != '|' else rng.choice(SL), r)


def mix_systems(rng, c):
    """replace some leaf features by features of the other system"""
    if isinstance(c, Atom):
        if c.base in gen.puncts() or rng.random() < 0.5:
            return c
        other = 'ja' if isinstance(c.feature, UnaryFeature) else 'en'
        return Atom(c.base, rand_feat(rng, other))
    return Functor(mix_systems(rng, c.left), c.slash, mix_systems(rng, c.right))


def pattern_names(p):
    if isinstance(p, Atom):
        return [p.base]
    return pattern_names(p.left) + pattern_names(p.right)


# ---------------------------------------------------------------------------------------------
# the independent oracle: the property re-stated on Python values (no use of the model, of unifies, ^, ==)
def fkey(f):
    if isinstance(f, UnaryFeature):
        return ('u', f.value)
    return ('t', tuple(tuple(kv) for kv in f.items()))


def skel(c):
    if isinstance(c, Atom):
        return ('A', c.base)
    return ('F', skel(c.left), c.slash, skel(c.right))


def ckey(c):
    if isinstance(c, Atom):
        return ('A', c.base, fkey(c.feature))
    return ('F', ckey(c.left), c.slash, ckey(c.right))


def leaves(c):
    if isinstance(c, Atom):
        return [c.feature]
    return leaves(c.left) + leaves(c.right)


def o_binds(p, t):
    if isinstance(p, Atom):
        return [(p.base, t)]
    if isinstance(t, Atom):
        return None
    if not (p.slash == t.slash or p.slash == '|' or t.slash == '|'):
        return None
    a, b = o_binds(p.left, t.left), o_binds(p.right, t.right)
    if a is None or b is None:
        return None
    return a + b


def is_ter(f):
    return isinstance(f, TernaryFeature)


def lenient(f):
    return isinstance(f, UnaryFeature) and f.value in (None, 'nb', 'X')


def is_var(f):
    if isinstance(f, UnaryFeature):
        return f.value == 'X'
    return any(v.startswith('X') for _, v in f.items())


def sub(a, b):
    """a accepts b: True / False / 'raise' (a triple asked about a unary feature)"""
    if not is_ter(a):
        return lenient(a) or fkey(a) == fkey(b)
    if fkey(a) == fkey(b):
        return True
    if not is_ter(b):
        return 'raise'
    if [k for k, _ in a.items()] != [k for k, _ in b.items()]:
        return False
    return all(v == w or v.startswith('X') for (_, v), (_, w) in zip(a.items(), b.items()))


def o_compat(a, b):
    """equal, or one side is absent / 'nb' / a variable (unary); one triple generalises the other (triples);
    'raise' when the two systems meet and the first feature is not lenient"""
    r = sub(a, b)
    if r is True or r == 'raise':
        return r
    return sub(b, a)


def last_of(v, bs):
    r = None
    for w, c in bs:
        if w == v:
            r = c
    return r


def expected(px, py, x, y):
    """what the property says must be observed: dict(flag=..., bx=, by=, comps=[(a, b)] in test order)"""
    bx, by = o_binds(px, x), o_binds(py, y)
    if bx is None or by is None:
        return {'flag': ('ok', False), 'why': 'shape'}
    allb = bx + by
    for v, c in allb:
        for w, d in allb:
            if v == w and skel(c) != skel(d):
                return {'flag': ('ok', False), 'why': 'agree'}
    order = []
    for v, _ in bx:
        if v not in order:
            order.append(v)
    comps = []
    for v in order:
        cy = last_of(v, by)
        if cy is not None:
            comps += list(zip(leaves(last_of(v, bx)), leaves(cy)))
    for a, b in comps:
        r = o_compat(a, b)
        if r == 'raise':
            return {'flag': ('err', 'AttrErr'), 'why': 'mixed', 'bx': bx, 'by': by, 'comps': comps}
        if r is False:
            return {'flag': ('ok', False), 'why': 'feature', 'bx': bx, 'by': by, 'comps': comps}
    return {'flag': ('ok', True), 'why': 'match', 'bx': bx, 'by': by, 'comps': comps}


def instantiation(g, comps):
    """the feature that the variable feature g ends up standing for: its partner at the last compared position where
    g was the accepting side (None: g was never instantiated)"""
    r = None
    for a, b in comps:
        if sub(a, b) is True:
            if is_var(a) and fkey(a) == fkey(g):
                r = b
        elif is_var(b) and fkey(b) == fkey(g):
            r = a
    return r


def check_case(ctx, case, obs):
    """fires ctx.fail on a concrete violation of the property"""
    px, py, x, y, names = case['ppx'], case['ppy'], case['x'], case['y'], case['names']
    data = {'px': case['px'], 'py': case['py'], 'x': str(x), 'y': str(y), 'kind': case['kind']}
    exp = expected(px, py, x, y)

    def fail(kind, desc):
        n = getattr(ctx, 'c06_listed', 0)
        if n >= 35 and hasattr(ctx, 'count'):     # leave room in the (capped) failure list for the hash-seed stage
            ctx.count('oracle_failures_not_listed')
            return
        ctx.c06_listed = n + 1
        ctx.fail(kind, f"Unification({case['px']!r}, {case['py']!r})({str(x)!r}, {str(y)!r}): {desc}", data)

    got = obs['flag']
    if got[0] == 'ok' and not isinstance(got[1], bool):
        fail('answer_not_bool', f'returned {got[1]!r}')
        return
    if got != exp['flag']:
        fail('wrong_answer', f"answered {got}, the property requires {exp['flag']} ({exp['why']})")
        return
    if any(p[0] != 'err' or p[1] != 'AssertErr' for p in obs['pre']):
        fail('read_before_call', f"a binding could be read before the matcher was called: {obs['pre']}")
    if obs['second'] != ('err', 'Twice'):
        fail('answers_twice', f"a second call did not raise RuntimeError: {obs['second']}")
    if got == ('ok', False):
        if any(p[0] != 'err' or p[1] != 'AssertErr' for p in obs['reads']):
            fail('read_after_failure', f"after a failed match a binding could be read: {[(k, str(v)) for k, v in obs['reads']]}")
        return
    if got[0] == 'err':
        return      # the property says nothing about the object after an exception
    allb = exp['bx'] + exp['by']
    feats_in = {fkey(f) for f in leaves(x) + leaves(y)}
    for v, (k, c) in zip(names, obs['reads']):
        c0 = last_of(v, allb)
        if c0 is None:
            if (k, c) != ('err', 'KeyErr'):
                fail('unbound_readable', f'uni[{v!r}] for a name that is in neither pattern gave {(k, str(c))}')
            continue
        if k != 'ok':
            fail('bound_unreadable', f'uni[{v!r}] raised {c} after a successful match')
            continue
        if skel(c) != skel(c0):
            fail('binding_skeleton', f'uni[{v!r}] = {str(c)!r} is not the matched sub-category {str(c0)!r} up to features')
            continue
        for f, f0 in zip(leaves(c), leaves(c0)):
            inst = instantiation(f0, exp['comps']) if is_var(f0) else None
            want = f0 if inst is None else inst
            if fkey(f) != fkey(want):
                fail('binding_feature', f'uni[{v!r}] = {str(c)!r}: feature {str(f)!r} where the sub-category {str(c0)!r} has {str(f0)!r}'
                                        f' (expected {str(want)!r})')
                break
            if fkey(f) not in feats_in:
                fail('binding_feature_foreign', f'uni[{v!r}] = {str(c)!r}: feature {str(f)!r} occurs in neither input')
                break


# ---------------------------------------------------------------------------------------------
def gres_cat(p):
    return f'(Ok_ {gcat(p[1])})' if p[0] == 'ok' else f'(Err {p[1]})'


def gres_bool(p):
    if p[0] == 'ok':
        return '(Ok_ true)' if p[1] is True else '(Ok_ false)'
    return f'(Err {p[1]})'


def known_err(p):
    return p[0] == 'ok' or p[1] in ('AttrErr', 'KeyErr', 'AssertErr', 'Twice', 'TypeErr', 'IndexErr')


def make_cases(ctx, n_total):
    rng = ctx.rng
    gpairs = [(l, px, py) for (l, _, px, py) in gen_unif.pattern_pairs(env.REPO)]
    ctx.stats['grammar_pattern_pairs'] = len(gpairs)
    cases = []

    def add(kind, px, py, x, y):
        ppx, ppy = Category.parse(px), Category.parse(py)
        names = []
        for v in pattern_names(ppx) + pattern_names(ppy):
            if v not in names:
                names.append(v)
        names.append(rng.choice(['q', 'z', 'S', 'a0', 'ab']))
        cases.append({'kind': kind, 'px': px, 'py': py, 'ppx': ppx, 'ppy': ppy, 'x': x, 'y': y, 'names': names})

    def inst_pair(px, py, system, friendly=True):
        ppx, ppy = Category.parse(px), Category.parse(py)
        envd = {}
        x = instantiate(rng, ppx, envd, system, friendly)
        y = instantiate(rng, ppy, envd, system, friendly)
        return x, y

    def one(kind, px, py, system):
        x, y = inst_pair(px, py, system, friendly=rng.random() < 0.7)
        r = rng.random()
        if r < 0.45:
            pk = 'inst'
        else:
            pk = rng.choice(['feat', 'feat', 'slash', 'base', 'struct'])
            if rng.random() < 0.5:
                x = perturb(rng, x, system, pk)
            else:
                y = perturb(rng, y, system, pk)
        add(f'{kind}:{system}:{pk}', px, py, x, y)

    # every grammar pair appears with every kind of input at least a few times
    budget = n_total
    n_g = int(budget * 0.45)
    i = 0
    while i < n_g:
        lang, px, py = gpairs[i % len(gpairs)]
        one('grammar-' + lang, px, py, 'ja' if lang == 'ja' and rng.random() < 0.8 else rng.choice(['en', 'ja']))
        i += 1
    for _ in range(int(budget * 0.25)):
        nv = rng.randint(1, 5)
        px, py = str(rand_pattern(rng, nv, rng.randint(0, 3))), str(rand_pattern(rng, nv, rng.randint(0, 2)))
        one('random-pattern', px, py, rng.choice(['en', 'ja']))
    for _ in range(int(budget * 0.12)):
        if rng.random() < 0.5:
            lang, px, py = rng.choice(gpairs)
        else:
            nv = rng.randint(1, 5)
            px, py = str(rand_pattern(rng, nv, rng.randint(0, 2))), str(rand_pattern(rng, nv, rng.randint(0, 2)))
        system = rng.choice(['en', 'ja'])
        add(f'random-pair:{system}', px, py, nice_cat(rng, system, rng.randint(0, 3)), nice_cat(rng, system, rng.randint(0, 3)))
    # separate stream: mixed feature systems (exceptions are possible here)
    for _ in range(int(budget * 0.10)):
        if rng.random() < 0.6:
            lang, px, py = rng.choice(gpairs)
        else:
            nv = rng.randint(1, 4)
            px, py = str(rand_pattern(rng, nv, rng.randint(0, 2))), str(rand_pattern(rng, nv, rng.randint(0, 2)))
        sx = rng.choice(['en', 'ja'])
        x, y = inst_pair(px, py, sx)
        r = rng.random()
        if r < 0.4:
            y = mix_systems(rng, y)
        elif r < 0.8:
            x = mix_systems(rng, x)
        else:
            x, y = mix_systems(rng, x), mix_systems(rng, y)
        add('mixed', px, py, x, y)
    # separate stream: a shared variable bound to a DEEP category of arbitrary shape (functor arguments inside the left spine,
    # right-nested results, ...) with concrete features; the other side carries the same category with exactly ONE leaf feature
    # changed (incompatible) - or none: every leaf position must be compared with its own counterpart
    def deep_cat(system, depth):
        if depth == 0 or rng.random() < 0.15:
            if system == 'en':
                return Atom(rng.choice(['S', 'N', 'NP', 'PP']), UnaryFeature(rng.choice(['dcl', 'b', 'em', 'ng', 'pss', 'thr', 'expl'])))
            return Atom(rng.choice(['S', 'NP']), TernaryFeature(*rng.choice(gen.JA_FEATS[:1] + gen.JA_FEATS[2:5] + gen.JA_FEATS[6:7])))
        return Functor(deep_cat(system, depth - 1), rng.choice(SL[:2]), deep_cat(system, depth - 1))

    for _ in range(int(budget * 0.12)):
        lang, px, py = rng.choice(gpairs)
        ppx, ppy = Category.parse(px), Category.parse(py)
        system = rng.choice(['en', 'ja'])
        shared_vars = [v for v in pattern_names(ppx) if v in pattern_names(ppy)]
        envx = {v: deep_cat(system, rng.choice([0, 1, 2])) for v in set(pattern_names(ppx) + pattern_names(ppy))}
        if shared_vars:
            v = rng.choice(shared_vars)
            envx[v] = deep_cat(system, rng.choice([2, 3, 3, 4]))
        envy = dict(envx)
        kind = 'deep-same'
        if shared_vars and rng.random() < 0.7:
            c = envx[v]
            atoms = [(pth, a) for pth, a in subterms(c) if isinstance(a, Atom)]
            pth, a = rng.choice(atoms)
            if system == 'en':
                nf = UnaryFeature(rng.choice([f for f in ['dcl', 'b', 'em', 'ng', 'pss', 'thr', 'expl'] if f != a.feature.value]))
            else:
                nf = TernaryFeature(*rng.choice([f for f in gen.JA_FEATS[:1] + gen.JA_FEATS[2:5] + gen.JA_FEATS[6:7] if TernaryFeature(*f) != a.feature]))
            envy[v] = replace_at(c, pth, Atom(a.base, nf))
            kind = 'deep-one-leaf-clash'
        try:
            x, y = build(ppx, envx), build(ppy, envy)
        except KeyError:
            continue
        add(f'{kind}:{system}', px, py, x, y)
    # separate stream: one variable feature meets several different values (which instantiation is kept must not
    # depend on the iteration order of a set)
    while len(cases) < budget:
        n = rng.randint(2, 5)
        feats = rng.sample(['dcl', 'b', 'em', 'ng', 'pss', 'adj', 'to'], n)

        def chain(fs, bases=('NP', 'N', 'S', 'PP')):
            c = Atom(rng.choice(bases), UnaryFeature(fs[0]))
            for f in fs[1:]:
                c = Functor(c, rng.choice(['/', '\\']), Atom(rng.choice(bases), UnaryFeature(f)))
            return c
        ys = chain(feats)
        xs = refeat_all(ys, 'X') if rng.random() < 0.7 else refeat_some(rng, ys)
        px, py = rng.choice([('a/b', 'b'), ('b', 'a\\b'), ('a/b', 'b/c')])
        ppx, ppy = Category.parse(px), Category.parse(py)
        envx = {'a': Atom('S', UnaryFeature('X')), 'b': xs, 'c': Atom('N', UnaryFeature('X'))}
        envy = {'a': Atom('S', UnaryFeature('X')), 'b': ys, 'c': Atom('N', UnaryFeature('X'))}
        x = build(ppx, envx)
        y = build(ppy, envy)
        if rng.random() < 0.3:
            x, y = build(ppx, envy), build(ppy, envx)
        add('xconf', px, py, x, y)
    # separate stream (on top of the budget): ONE occurrence of a variable that occurs twice (mostly: once in each pattern) is bound to a
    # STRUCTURAL variant of what the other occurrences are bound to - re-bracketed (same atoms and slashes from left to right, other
    # nesting), one pair of brackets moved, one slash flipped, one atom renamed, one argument added / removed - or to the same category
    # (control).  The leaf features are mostly left as they are, so that nothing but the structure can decide; both feature systems.
    n_struct, tries = int(budget * 0.2), 0
    made = 0
    while made < n_struct and tries < 20 * n_struct:
        tries += 1
        if rng.random() < 0.7:
            lang, px, py = rng.choice(gpairs)
            src = 'g'
        else:
            nv = rng.randint(1, 3)
            px, py = str(rand_pattern(rng, nv, rng.randint(0, 2))), str(rand_pattern(rng, nv, rng.randint(0, 2)))
            src = 'r'
        ppx, ppy = Category.parse(px), Category.parse(py)
        occ = occurrences(ppx, ppy)
        nx, ny = pattern_names(ppx), pattern_names(ppy)
        shared = sorted({v for v in nx if v in ny})
        twice = sorted({v for v, _, _ in occ if sum(1 for o in occ if o[0] == v) >= 2})
        if not twice:
            continue
        v = rng.choice(shared) if shared and rng.random() < 0.85 else rng.choice(twice)
        system = rng.choice(['en', 'ja'])
        kind = STRUCT_KINDS[made % len(STRUCT_KINDS)] if rng.random() < 0.8 else rng.choice(STRUCT_KINDS)
        size = {'rebracket': [3, 3, 4, 4, 5], 'rotate': [3, 3, 4, 5], 'flip': [2, 3, 3, 4], 'droparg': [2, 3, 3, 4]}.get(kind, [1, 2, 3, 4])
        atom = nice_atom if rng.random() < 0.7 else (lambda r, s: deep_cat(s, 0))          # random features incl. absent / variable, or concrete ones only
        envd = {w: shaped_cat(rng, system, rng.choice([1, 1, 2, 3]), atom) for w in set(nx + ny)}
        envd[v] = shaped_cat(rng, system, rng.choice(size), atom)
        c2 = struct_perturb(rng, envd[v], system, kind)
        if c2 is None:
            continue
        r = rng.random()
        if r >= 0.55:
            c2 = refeature(rng, c2, system, friendly=r < 0.85)
        which = rng.choice([o for o in occ if o[0] == v])
        special = which + (c2,)
        x, y = build_occ(rng, ppx, 0, envd, special), build_occ(rng, ppy, 1, envd, special)
        add(f'shared-{kind}:{system}:{src}', px, py, x, y)
        made += 1
    rng.shuffle(cases)
    # fixed corpus (run first): the suite's own examples, boundary cases, and the order-dependent outcomes of mixed systems
    head, cases[:] = list(cases), []
    for px, py, x, y in CORPUS:
        add('corpus', px, py, Category.parse(x), Category.parse(y))
    cases.extend(head)
    return cases


JA1, JAX, JAX2 = 'S[mod=nm,form=base,fin=f]', 'S[mod=X1,form=X2,fin=X3]', 'S[mod=X1,form=X2,fin=f]'
CORPUS = [
    ('(((a/b)/c)/d)/e', 'f', '(((a/b)/c)/d)/e', 'f'), ('a/b', 'c', '(((a/b)/c)/d)/e', 'f'),
    ('a/b', 'b', 'S[X]/NP[X]', 'NP[mod]'),
    ('(a\\b)/c', 'c', f'({JA1}\\{JA1})/{JA1}', JA1), ('(a\\b)/c', 'c', f'({JAX}\\{JAX})/{JAX}', JA1), ('(a\\b)/c', 'c', f'({JAX2}\\{JAX2})/{JAX2}', JA1),
    # shape
    ('a/b', 'b', 'S', 'NP'), ('a/b', 'b', 'S\\NP', 'NP'), ('a/b', 'b', 'S|NP', 'NP'), ('a|b', 'b', 'S\\NP', 'NP'), ('(b/c)|d', 'a\\b', '(S/NP)\\N', 'PP\\S'),
    ('a', 'b', 'S/NP', '(S\\NP)/NP'),
    # agreement (also inside one pattern; the last binding is the one kept)
    ('a/a', 'b', 'S[b]/S[dcl]', 'N'), ('a/a', 'b', 'S/NP', 'N'), ('a/b', 'b', 'S/(NP/N)', 'NP'), ('a/b', 'b', 'S/NP', 'NP/N'), ('(a/b)/a', 'a', '(S[X]/N)/S[b]', 'S[dcl]'),
    # agreement is about the nesting too: the same atoms and slashes from left to right, bracketed differently, are different sub-categories
    ('a/b', 'b', 'S/((S\\NP)/NP)', 'S\\(NP/NP)'), ('a/b', 'b', 'S/((S\\NP)/NP)', '(S\\NP)/NP'), ('a/a', 'b', '((S/NP)/NP)/(S/(NP/NP))', 'N'),
    ('b', 'a\\b', f'({JA1}\\{JA1})\\{JA1}', f'{JA1}\\({JA1}\\({JA1}\\{JA1}))'),
    # features: nb, absent, X, clash, one variable feature meeting two values
    ('a/b', 'b', 'NP[nb]/N', 'N[nb]'), ('a/b', 'b', 'S/NP[nb]', 'NP[conj]'), ('a/b', 'b', 'S/NP', 'NP[conj]'), ('a/b', 'b', 'S/NP[dcl]', 'NP[b]'),
    ('a/b', 'b', 'S/NP[dcl]', 'NP[X]'), ('a/b', 'b', 'S[X]/(NP[X]/N[X])', 'NP[dcl]/N[b]'), ('a/b', 'b', 'S[X]/(NP[dcl]/N[b])', 'NP[X]/N[X]'),
    ('a/b', 'b', 'S/NP[case=X1,mod=nm,fin=f]', 'NP[case=ga,mod=X2,fin=f]'), ('a/b', 'b', 'S/NP[case=X1,mod=X2,fin=f]', 'NP[case=ga,mod=nm,fin=f]'),
    ('a/b', 'b', 'S/NP[case=ga,mod=nm,fin=f]', 'NP[mod=ga,case=nm,fin=f]'),
    # mixed systems: the first test that is not true decides between False and AttributeError
    ('a/b', 'b', 'S[X]/(NP[X]/N[dcl])', 'NP[b]/N[case=nc,mod=nm,fin=f]'), ('a/b', 'b', 'S/(NP[dcl]/N[dcl])', 'NP[b]/N[case=nc,mod=nm,fin=f]'),
    ('a/b', 'b', 'S/(NP[dcl]/N[dcl])', 'NP[case=nc,mod=nm,fin=f]/N[b]'), ('a/b', 'b', 'S/NP', 'NP[case=nc,mod=nm,fin=f]'), ('a/b', 'b', 'S/NP[case=nc,mod=nm,fin=f]', 'NP'),
    ('a/b', 'b', 'S/NP[X]', 'NP[case=nc,mod=nm,fin=f]'),
]


def refeat_all(c, v):
    if isinstance(c, Atom):
        return Atom(c.base, UnaryFeature(v))
    return Functor(refeat_all(c.left, v), c.slash, refeat_all(c.right, v))


def refeat_some(rng, c):
    if isinstance(c, Atom):
        return Atom(c.base, UnaryFeature('X')) if rng.random() < 0.6 else c
    return Functor(refeat_some(rng, c.left), c.slash, refeat_some(rng, c.right))


def build(p, envd):
    if isinstance(p, Atom):
        return envd[p.base]
    return Functor(build(p.left, envd), p.slash if p.slash != '|' else '/', build(p.right, envd))


def seed_runs(ctx, sample):
    """the same inputs in fresh interpreters under PYTHONHASHSEED 0..3: every observable must be identical"""
    path = os.path.join(ctx.work, 'seed_cases.json')
    json.dump([{'px': c['px'], 'py': c['py'], 'x': str(c['x']), 'y': str(c['y']), 'names': c['names']} for c in sample], open(path, 'w'))
    outs = {}
    procs = []
    for s in (0, 1, 2, 3):
        e = dict(os.environ)
        e['PYTHONHASHSEED'] = str(s)
        procs.append((s, subprocess.Popen([sys.executable, '-B', os.path.join(env.HARNESS, 'c06_obs.py'), path], env=e,
                                          stdout=subprocess.PIPE, stderr=subprocess.PIPE, text=True)))
    ok = True
    for s, p in procs:
        out, err = p.communicate(timeout=600)
        if p.returncode != 0:
            ctx.obligation(f'hash-seed run PYTHONHASHSEED={s}', False, err[-800:])
            ok = False
            continue
        outs[s] = json.loads(out)
    if not ok:
        return
    ctx.obligation(f'hash-seed runs (PYTHONHASHSEED 0..3, {len(sample)} cases each) completed', True)
    for i, c in enumerate(sample):
        here = c06_obs.plain(c['obs'])
        for s in (0, 1, 2, 3):
            o = outs[s][i]
            if o != json.loads(json.dumps(here)):
                ctx.fail('hash_seed_dependence',
                         f"Unification({c['px']!r}, {c['py']!r})({str(c['x'])!r}, {str(c['y'])!r}) observed under PYTHONHASHSEED={s}: "
                         f"{o['flag']} {o['reads']} but in this process: {here['flag']} {here['reads']}",
                         {'px': c['px'], 'py': c['py'], 'x': str(c['x']), 'y': str(c['y']), 'kind': c['kind'], 'seed': s})
                break
        ctx.case(('seed', c['px'], c['py'], str(c['x']), str(c['y'])), nontrivial=c['obs']['flag'] == ('ok', True))
    ctx.stats['hash_seed_cases'] = len(sample)


def run(ctx):
    rng = ctx.rng
    ctx.build(['P_C06.vo'], gens=('tables', 'unif'))
    ctx.theorems('P_C06')

    n_total = 2000 if ctx.quick else 40000
    cases = make_cases(ctx, n_total)
    gall, descr = [], []
    for c in cases:
        obs = c06_obs.observe(c['px'], c['py'], c['x'], c['y'], c['names'])
        c['obs'] = obs
        check_case(ctx, c, obs)
        flag = obs['flag']
        ctx.count(f"kind:{c['kind'].split(':')[0]}")
        ctx.count('answer:' + (str(flag[1]) if flag[0] == 'ok' else flag[1]))
        exp = expected(c['ppx'], c['ppy'], c['x'], c['y'])
        ctx.count('oracle:' + exp['why'])
        if c['kind'].startswith('shared-'):
            ctx.count(f"{c['kind'].split(':')[0]}:{c['kind'].split(':')[1]}:oracle:{exp['why']}")
        key = (c['px'], c['py'], str(c['x']), str(c['y']))
        ctx.case(key, nontrivial=exp['why'] in ('match', 'feature', 'agree', 'mixed'))
        allp = obs['pre'] + obs['reads'] + [flag, obs['second']]
        if not all(known_err(p) for p in allp) or (obs['second'][0] == 'ok') or (flag[0] == 'ok' and not isinstance(flag[1], bool)):
            # an exception kind outside the model's enum: cannot be expressed as a Gallina term, so it is a mismatch by itself
            gall.append('false')
        else:
            gall.append(f"Chk {gcat(c['ppx'])} {gcat(c['ppy'])} {gcat(c['x'])} {gcat(c['y'])} {glist(c['names'], lit)} "
                        f"{glist(obs['pre'], gres_cat)} {gres_bool(flag)} {glist(obs['reads'], gres_cat)} {gres_bool(obs['second'])}")
        descr.append((c['kind'], c['px'], c['py'], str(c['x']), str(c['y']), str(flag), [(k, str(v)) for k, v in obs['reads']]))

    bad = ctx.coq_cases('unify', PRE, gall, describe=lambda i: descr[i])
    for i in (bad or [])[:10]:
        ctx.notes.append(f'model/implementation disagreement on {descr[i]!r}')

    # object churn: the same matches on freshly parsed, short-lived category objects (what a parser does all day) must read the same
    # bindings as on the long-lived objects above - a binding is a function of the category VALUES, not of object identity or history
    from depccg.cat import Category
    pool = [c for c in cases if c['obs']['flag'] == ('ok', True) and gen.wf_py(c['x']) and gen.wf_py(c['y'])]
    n_churn = 0
    for rep in range(2 if ctx.quick else 6):
        for c in rng.sample(pool, min(len(pool), 1200 if ctx.quick else 6000)):
            x2, y2 = Category.parse(str(c['x'])), Category.parse(str(c['y']))
            if x2 != c['x'] or y2 != c['y']:
                continue
            p2 = c06_obs.plain(c06_obs.observe(c['px'], c['py'], x2, y2, c['names']))
            del x2, y2
            n_churn += 1
            if p2 != c06_obs.plain(c['obs']):
                ctx.fail('binding_depends_on_history', f"Unification({c['px']!r}, {c['py']!r})({str(c['x'])!r}, {str(c['y'])!r}) on freshly built, short-lived category objects "
                         f"(after {n_churn} earlier matches in this process) answers {p2['flag']} with bindings {p2['reads']}; on the first, long-lived objects it answered "
                         f"{c06_obs.plain(c['obs'])['flag']} with {c06_obs.plain(c['obs'])['reads']}",
                         {'px': c['px'], 'py': c['py'], 'x': str(c['x']), 'y': str(c['y']), 'names': c['names'], 'kind': 'churn'})
                break
    ctx.stats['churn_matches'] = n_churn

    # hash seeds: all value-conflict cases plus a random sample
    conf = [c for c in cases if c['kind'] == 'xconf']
    rest = [c for c in cases if c['kind'] != 'xconf' and c['obs']['flag'] == ('ok', True)]
    n_s = 150 if ctx.quick else 1500
    rest = [c for c in rest if gen.wf_py(c['x']) and gen.wf_py(c['y'])]      # the inputs travel as text
    sample = conf[:n_s] + rng.sample(rest, min(len(rest), n_s))
    seed_runs(ctx, sample)

    for c in cases[:3] + [c for c in cases if c['obs']['flag'] == ('ok', True)][:2] + [c for c in cases if c['obs']['flag'][0] == 'err'][:1]:
        ctx.sample({'patterns': [c['px'], c['py']], 'x': str(c['x']), 'y': str(c['y']), 'kind': c['kind'], 'answer': str(c['obs']['flag']),
                    'bindings': {v: str(r[1]) for v, r in zip(c['names'], c['obs']['reads'])}})
    ctx.trusted += ['hand-written model coq/Unify.v of depccg/unification.py and of Feature.unifies / is_variable (tied by the correspondence cases of this run)',
                    'hand-written model coq/Cat.v of depccg/cat.py (category values, ^)',
                    'translator translate/gen_unif.py (pattern texts of the Unification(...) calls) and translate/gen_tables.py (punctuations)',
                    "the model's keys (v, None) / (v, Some i) stand for the strings v and f'{v}{i}': injective for single-letter variables (all grammar patterns; checked by the translator)"]
    return ctx.finish(
        level='proof',
        rule='cases = (pattern pair, x, y) -> (reads before the call, answer or exception kind, every binding uni[v] for the pattern variables '
             'and one unbound name, second call); patterns: every Unification(...) pair of grammar/en.py and ja.py plus random patterns with <= 5 '
             'variables incl. repeated ones; inputs: the patterns instantiated with random categories (both feature systems) and then perturbed '
             '(feature / slash / base / structure), random pairs, a mixed-feature-system stream, a stream where one variable feature meets several '
             'values, a stream where one occurrence of a variable that occurs twice is bound to a structural variant of the binding of the other '
             'occurrences (re-bracketed with the same atoms and slashes from left to right, one pair of brackets moved, one slash flipped, one atom '
             'renamed, one argument added / removed, or unchanged), features mostly untouched, both feature systems; each case is compared with the Coq model (ucall/uread/unify/uget and the specification matchesb) and judged by the independent '
             'oracle; a sample is re-run under PYTHONHASHSEED 0..3; non-trivial = the answer is decided after the shape test; distinct by (patterns, x, y)',
        assumptions=['pattern variables are single letters (so that the f"{v}{index}" keys of the code are an injective image of (variable, leaf index))',
                     'after an AttributeError inside the matching loop (mixed feature systems only) the Python object keeps success=True and its '
                     'bindings stay readable; the model has no object state after an exception and the property does not speak about it: not compared'])


class _ReplayCtx:
    def __init__(self):
        self.fails = []

    def fail(self, kind, desc, data):
        self.fails.append((kind, desc))


def replay(data):
    """re-run the recorded failing inputs on the implementation; exit 1 iff a violation reproduces"""
    rc = _ReplayCtx()
    for f in data.get('failures', []):
        d = f['data']
        px, py, x, y = d['px'], d['py'], Category.parse(d['x']), Category.parse(d['y'])
        names = []
        for v in pattern_names(Category.parse(px)) + pattern_names(Category.parse(py)):
            if v not in names:
                names.append(v)
        names.append('q')
        case = {'kind': d.get('kind', 'replay'), 'px': px, 'py': py, 'ppx': Category.parse(px), 'ppy': Category.parse(py), 'x': x, 'y': y, 'names': names}
        obs = c06_obs.observe(px, py, x, y, names)
        n0 = len(rc.fails)
        check_case(rc, case, obs)
        state = 'REPRODUCED' if len(rc.fails) > n0 else 'not reproduced on the current source'
        print(f"{f['kind']}: Unification({px!r}, {py!r})({d['x']!r}, {d['y']!r}) -> {c06_obs.plain(obs)['flag']} {c06_obs.plain(obs)['reads']}: {state}")
    for b in data.get('broken_obligations', []):
        print('broken obligation:', b[0] if isinstance(b, (list, tuple)) else (b.get('name') if isinstance(b, dict) else b))
    if rc.fails:
        print(f'VIOLATION property=C06 ({len(rc.fails)} recorded failure(s) reproduce)')
    return 1 if rc.fails else 0
