"""C09 - A* family + glue; see astar_checks.py and glue_checks.py"""
import astar_checks, glue_checks
from props.c01 import RULES


def run(ctx):
    astar_checks.run_family(ctx, 'c09', 'P_C09')
    glue_checks.run_glue(ctx, 'c09', 60 if ctx.quick else 900)
    ctx.trusted += ['implementation-level model coq/AStarImpl.v (tied to parsing.h by trace validation on every run)',
                    'glue model coq/Glue.v tree_of (tied to parsing.pyx retrieve_tree: the Tree returned for every recorded goal item equals the model tree)',
                    'harness/decy.py (mechanical, fail-closed de-cythonizer of parsing.pyx) + depccg_verif_rt.py (its runtime) + driver.cpp',
                    'float32 arithmetic is exact on the dyadic score grid used']
    return ctx.finish(level='proof', rule=RULES['01'] + '; plus batches of 1-4 random sentences through the real depccg.parsing.run (en / ja / en with seen rules / synthetic multi-label grammars), 1-4 best, placeholder cases',
                      assumptions=['exact arithmetic on the dyadic grid; float32 rounding of arbitrary reals is outside the model',
                                   'heap tie-breaking abstracted (every maximal pop allowed); 1-best theorems need head-uniform grammars and penalty >= 0'])


def replay(data):
    r1 = astar_checks.replay(data, 'c09')
    r2, _ = glue_checks.replay(data, 'c09')
    return 1 if (r1 or r2) else 0
