"""C11 - batch results align with inputs and do not depend on batch history.

Coq: P_C11.v (chunking/collection, memo state machine, id-independence of the search, the search reading the memo
incrementally = the category-level search from every memo state, the batch loop end to end, the wrapper run: shapes first,
chunked = unchunked, failure locality).
Correspondence: GlueMemo.chunks_py vs depccg.parsing._chunks (exact, ValueError of the empty list included); the memo state
machine of GlueMemo.v replayed on the recorded invocations of the user's rule functions vs the category table and the C++
cache entries the real call ended with; the wrapper model GlueMemoRun.run vs the real depccg.parsing.run with
depccg._parsing.run replaced by a probe that reports how it was called (which branch, which chunks, which process ids,
which exception - multiprocessing.Pool included).
Oracle (independent, on the real depccg.parsing.run through the shim, multiprocessing.Pool included): alignment, equality
with parsing alone / warmed / elsewhere, failure locality, shape rejection before any rule callback."""
import math, multiprocessing, time, types
import numpy
import glue, gen
import depccg_verif_rt as rt
from gallina import lit, gcat, gbool, gnat, glist
from depccg.cat import Category
from depccg.types import Token, ScoringResult, CombinatorResult

PRE = '''From Coq Require Import List NArith ZArith Bool Arith.
Import ListNotations.
Require Import Cat Tree GramPrims AStar Glue GlueMemo.
Open Scope N_scope.
Definition mk c a b h := {| rcat := c; op_string := a; op_symbol := b; head_is_left := h |}.
Definition dcatn := (Atom []%list FNone).
'''

# ---------------------------------------------------------------------------------------------------------
# rule functions handed to depccg.parsing.run: picklable (Pool pickles them for every task), pure, memoised at harness
# level (the real English grammar costs ~1 s per cold call otherwise), counting every invocation in a counter that
# forked workers share, optionally logging (in-process calls only) and optionally slow for chosen categories (to let a
# later chunk finish before an earlier one)
_CALLS = multiprocessing.Value('l', 0)
_MEMO = {}          # name -> {args: results}; module-level so that forked workers inherit the warm table
_TABLES = {}        # name -> (binary table, unary table) of synthetic grammars
_LOG = None         # list while an in-process call is being recorded
_SLOW = {}          # name -> (set of categories, seconds)


def calls_reset():
    with _CALLS.get_lock():
        _CALLS.value = 0


def calls():
    return _CALLS.value


_SEEN = None        # when a set: the (arity, categories) keys the rule functions were asked for during the current in-process call
_DUP = []


class Rule:
    def __init__(self, name, arity):
        self.name, self.arity = name, arity

    def __call__(self, *a):
        with _CALLS.get_lock():
            _CALLS.value += 1
        if _SEEN is not None:
            k_ = (self.arity,) + tuple(a)
            if k_ in _SEEN:
                _DUP.append(k_)
            _SEEN.add(k_)
        slow = _SLOW.get(self.name)
        if slow and a[0] in slow[0]:
            time.sleep(slow[1])
        memo = _MEMO.setdefault((self.name, self.arity), {})
        r = memo.get(a)
        if r is None:
            r = memo[a] = tuple(self._apply(*a))
        if _LOG is not None:
            _LOG.append((self.arity,) + tuple(a) + (r,))
        return list(r)

    def _apply(self, *a):
        if self.name in _TABLES:
            return _TABLES[self.name][2 - self.arity].get(a if self.arity == 2 else a[0], [])
        binary, unary, _ = gen.grammar(self.name)
        return binary(*a) if self.arity == 2 else unary(*a)


_syn_count = [0]


def synthetic(rng, ncat, with_dead=False):
    """table grammar over real Category objects (several, differently labelled results per pair; unary chains are acyclic);
    with_dead adds a category without rules that is no root"""
    atoms = ['A', 'B', 'C', 'D', 'E', 'F', 'G', 'H'][:ncat]
    cats = [Category.parse(a) for a in atoms]
    extra = [Category.parse(s) for s in ('A/B', 'B\\C', '(A/B)/C', 'D[x]')]     # created by rules only: extend the category table
    pool = cats + extra
    table, utable = {}, {}
    for x in pool:
        for y in pool:
            if rng.random() < (0.45 if x in cats and y in cats else 0.25):
                outs = [rng.choice(pool) for _ in range(rng.choice([1, 1, 2, 3]))]
                table[(x, y)] = [CombinatorResult(cat=c, op_string=f'r{i}{x}{y}', op_symbol=f'<{i}>', head_is_left=rng.random() < 0.5) for i, c in enumerate(outs)]
    for i, x in enumerate(pool[:-1]):
        if rng.random() < 0.35:
            outs = rng.sample(pool[i + 1:], min(len(pool) - i - 1, rng.choice([1, 2])))
            utable[x] = [CombinatorResult(cat=c, op_string=f'u{j}{x}', op_symbol=f'<u{j}>', head_is_left=True) for j, c in enumerate(outs)]
    roots = [c for c in pool if rng.random() < 0.5] or [cats[0]]
    if rng.random() < 0.5:
        roots.append(Category.parse('R[out]'))      # a root that is neither lexical nor derivable
    if with_dead:
        cats = cats + [Category.parse('Z')]
    _syn_count[0] += 1
    name = f'syn{_syn_count[0]}'
    _TABLES[name] = (table, utable)
    return name, cats, roots


def setup(rng, kind, with_dead=False):
    if kind in ('en', 'ja'):
        cats, roots, _, _ = glue.real_setup(kind)
        name = kind
    else:
        name, cats, roots = synthetic(rng, rng.randint(3, 6), with_dead)
    return name, cats, roots, Rule(name, 2), Rule(name, 1)


# ---------------------------------------------------------------------------------------------------------
def make_sentence(rng, sid, K, n, ties=False, dead=None):
    """scores on the dyadic grid; tokens stamped with the sentence id so that 'result i belongs to sentence i' is observable"""
    if dead is not None:     # only the rule-less category survives the beam: this sentence has no derivation
        tag = numpy.array([[(0.0 if c == dead else -(48 + rng.randint(0, 16)) / 8.0) for c in range(K)] for _ in range(n)], dtype=numpy.float32)
    elif ties:
        tag = numpy.array([[-rng.choice([0, 1, 2, 3]) / 8.0 for _ in range(K)] for _ in range(n)], dtype=numpy.float32)
    else:
        tag = numpy.array([[-v / 8.0 for v in rng.sample(range(0, max(40, K) + 1), K)] for _ in range(n)], dtype=numpy.float32)
    dep = numpy.array([[-rng.randint(0, 3 if ties else 40) / 8.0 for _ in range(n + 1)] for _ in range(n)], dtype=numpy.float32)
    toks = []
    full = rng.random() < 0.5
    for j in range(n):
        t = gen.rand_token(rng, 'en', full=full, plain=True)
        t['word'] = f"{t['word']}_{sid}_{j}"
        toks.append(t)
    s = glue.Sentence(toks, tag, dep)
    s.sid = sid
    s.dead = dead is not None
    return s


def tree_sig(t):
    if t.is_leaf:
        return ('L', str(t.cat), tuple(t.token.items()))
    return (len(t.children), str(t.cat), t.op_string, t.op_symbol, t.head_is_left if len(t.children) == 2 else None) + tuple(tree_sig(c) for c in t.children)


def result_sig(rs):
    """everything observable of one sentence's result: per tree the auto_extended text, the structure and the score"""
    return tuple((glue.auto_str(st.tree), tree_sig(st.tree), float(st.score)) for st in rs)


def is_failure(rs):
    return len(rs) == 1 and glue.is_placeholder(rs[0])


class FastSleep(types.SimpleNamespace):
    """depccg.parsing waits for its tasks with time.sleep(1); pacing only - the harness shortens the nap"""

    def __init__(self):
        super().__init__(**{k: getattr(time, k) for k in dir(time) if not k.startswith('__')})
        self.sleep = lambda s: time.sleep(min(s, 0.02))


def call_run(P, sents, cats, roots, binary, unary, kw, record=False):
    rt.RECORD = [] if record else None
    try:
        res = P.run([s.tokens for s in sents], [ScoringResult(s.tag, s.dep) for s in sents], cats, roots, binary, unary, **kw)
        rec = rt.RECORD
    finally:
        rt.RECORD = None
    return res, rec


# ---------------------------------------------------------------------------------------------------------
def scenario(ctx, P, si, kind, N, mode, stats_only=False):
    """one batch under many schedules; returns nothing, reports through ctx"""
    rng = ctx.rng
    name, cats, roots, binary, unary = setup(rng, kind, with_dead=(mode == 'dead'))
    K = len(cats)
    nbest = rng.choice([1, 2, 3])
    nmax = 5 if (kind == 'ja' or nbest == 1) and not (kind == 'en' and ctx.quick) else 4     # n-best keeps every derivation in the chart
    pen8 = rng.choice([0, 1, 2])
    pruning = rng.choice([4, 6, 16]) if kind == 'en' else rng.choice([3, 50, 50])
    use_beta = rng.random() < 0.3
    theta_odd = rng.choice([31, 63, 95])
    kw = dict(unary_penalty=pen8 / 8.0, beta=math.exp(-theta_odd / 16.0), use_beta=use_beta, pruning_size=pruning, nbest=nbest)
    ties = rng.random() < 0.25
    if mode == 'maxlen':
        kw['max_length'] = rng.choice([1, 2, 3])
    elif mode == 'maxstep':
        kw['max_step'] = rng.randint(1, 7)
    elif mode == 'dead':
        kw.update(use_beta=True, beta=math.exp(-63 / 16.0), pruning_size=50)
    sents = []
    for i in range(N):
        dead = (K - 1) if (mode == 'dead' and rng.random() < 0.35) else None
        n = rng.randint(1, nmax)
        if mode == 'slowfirst':
            n = nmax if i < 2 else 1
        sents.append(make_sentence(rng, f'{si}.{i}', K, n, ties=ties, dead=dead))
    base = {'scenario': si, 'grammar': name, 'kind': kind, 'mode': mode, 'kw': {k: (v if not isinstance(v, float) else repr(v)) for k, v in kw.items()},
            'categories': [str(c) for c in cats], 'roots': [str(c) for c in roots],
            'sentences': [{'n': len(s.tokens), 'tag8': (s.tag * 8).astype(int).tolist(), 'dep8': (s.dep * 8).astype(int).tolist()} for s in sents[:6]]}
    ctx.count(f'scenario:{kind}:{mode}')

    def guarded(what, idx, kw_):
        try:
            res, _ = call_run(P, [sents[i] for i in idx], cats, roots, binary, unary, kw_)
            return res
        except Exception as e:      # noqa
            ctx.fail('exception', f'{what}: depccg.parsing.run raised {type(e).__name__}: {str(e)[:200]} on a well-formed batch',
                     dict(base, what=what, order=list(idx), error=repr(e)[:300]))
            return None

    # ---- reference: every sentence alone, in a fresh call (cold category table, empty cache)
    alone = []
    for i in range(N):
        r = guarded(f'sentence {i} alone', [i], kw)
        if r is None:
            return
        if len(r) != 1:
            ctx.fail('result_count', f'scenario {si}: 1 sentence in, {len(r)} result lists out', dict(base, what='alone', index=i))
            return
        alone.append(r[0])
    asig = [result_sig(r) for r in alone]
    afail = [is_failure(r) for r in alone]
    for i, s in enumerate(sents):
        ctx.count('alone:failed' if afail[i] else 'alone:parsed')
        # what must fail by construction, whatever the search does
        must = (mode == 'maxlen' and len(s.tokens) > kw['max_length']) or (mode == 'maxstep' and kw['max_step'] < 2 * len(s.tokens)) or s.dead
        if must:
            ctx.count(f'must_fail:{mode}')
            if not afail[i]:
                ctx.fail('failure_not_placeholder', f'scenario {si} sentence {i} ({mode}) cannot be parsed under these settings but its result is not the lone placeholder',
                         dict(base, index=i, got=[x[0] for x in asig[i]]))
        if not afail[i]:
            if not (1 <= len(alone[i]) <= nbest) or any(glue.is_placeholder(st) for st in alone[i]):
                ctx.fail('placeholder_among_parses', f'scenario {si} sentence {i}: {len(alone[i])} trees for nbest={nbest}, or the placeholder next to real parses',
                         dict(base, index=i))
    if stats_only:
        return

    def compare(what, idx, res, kw_desc):
        """oracle (i)-(iii) for one schedule: idx[k] = which sentence was k-th in the batch"""
        if res is None:
            return
        if len(res) != len(idx):
            ctx.fail('result_count', f'scenario {si} {what}: {len(idx)} sentences in, {len(res)} result lists out', dict(base, what=what, order=list(idx), **kw_desc))
            return
        for k, i in enumerate(idx):
            s = sents[i]
            moved = (k != 0) or len(idx) > 1
            ctx.case((si, what, k, i, tuple(idx) if len(idx) < 8 else hash(tuple(idx)), repr(kw_desc)), nontrivial=moved and len(s.tokens) > 1)
            rs = res[k]
            data = dict(base, what=what, order=list(idx), position=k, sentence=i, **kw_desc)
            if not isinstance(rs, list) or not rs:
                ctx.fail('empty_result', f'scenario {si} {what}: result {k} is {rs!r}', data)
                continue
            if not is_failure(rs):
                for st in rs:      # (i) the trees at position k are trees of the k-th sentence
                    lv = [dict(l.token) for l in st.tree.leaves]
                    if lv != [dict(t) for t in s.tokens]:
                        ctx.fail('misaligned', f'scenario {si} {what}: result {k} carries the tokens {[t.get("word") for t in lv]} but sentence {k} of the batch is {[t["word"] for t in s.tokens]}', data)
                        break
            sig = result_sig(rs)
            if sig != asig[i]:
                if afail[i] != is_failure(rs):
                    kind_ = 'failure_not_local'
                    desc = (f'scenario {si} {what}: sentence {i} at position {k} ' + ('fails alone but has parses in the batch' if afail[i] else 'parses alone but yields the placeholder (or a placeholder mixture) in the batch'))
                else:
                    same_scores = [x[2] for x in sig] == [x[2] for x in asig[i]]
                    kind_ = 'history_dependent_tie' if same_scores else 'history_dependent'
                    desc = (f'scenario {si} {what}: sentence {i} at position {k} differs from parsing it alone' + (' (same scores, different trees)' if same_scores else ''))
                ctx.fail(kind_, desc, dict(data, alone=[(x[0], x[2]) for x in asig[i]], batch=[(x[0], x[2]) for x in sig]))

    # ---- (a) the whole batch in one in-process call (one table, one cache for all sentences)
    big = dict(kw, processes=rng.randint(1, 4), max_chunk_size=100)
    compare('in-process', list(range(N)), guarded('whole batch in-process', list(range(N)), big), {'processes': big['processes'], 'max_chunk_size': 100})
    # ---- (b) schedules: rotations, permutations, subsets; Pool whenever the batch exceeds max_chunk_size
    sched = []
    if N >= 4:
        for _ in range(3 if ctx.quick else 4):
            r = rng.randrange(N)
            sched.append(('rotation', list(range(r, N)) + list(range(r))))
        for _ in range(2 if ctx.quick else 3):
            p = list(range(N))
            rng.shuffle(p)
            sched.append(('permutation', p))
        for _ in range(2 if ctx.quick else 3):
            p = rng.sample(range(N), rng.randint(4, N))
            sched.append(('subset', p))
        if mode == 'slowfirst':
            sched.append(('identity', list(range(N))))
    for what, idx in sched:
        procs = rng.randint(1, 4)
        lim = rng.randint(3, max(3, len(idx) - 1)) if rng.random() < 0.85 else rng.randint(len(idx), 100)
        kw_ = dict(kw, processes=procs, max_chunk_size=lim)
        forks = len(idx) > lim
        ctx.count('schedule:pool' if forks else 'schedule:in-process')
        ctx.count(f'schedule:{what}')
        if forks:
            ctx.count(f'pool:processes={procs}')
            ctx.count(f'pool:chunks={len(list(P._chunks(list(idx), procs)))}')
        if mode == 'slowfirst' and forks:
            _SLOW[name] = (set(cats), 0.0015)      # every rule call on lexical categories naps: the first chunk finishes last
        try:
            res = guarded(f'{what} processes={procs} max_chunk_size={lim}', idx, kw_)
        finally:
            _SLOW.pop(name, None)
        compare(f'{what}{"/pool" if forks else ""}', idx, res, {'processes': procs, 'max_chunk_size': lim})
    # ---- (c) warmed: a sentence after others in the same call
    for _ in range(2 if ctx.quick else 5):
        if N < 2:
            break
        i = rng.randrange(N)
        others = rng.sample([j for j in range(N) if j != i], min(N - 1, rng.randint(1, 6)))
        idx = others + [i]
        compare('warmed', idx, guarded('warmed', idx, dict(kw, max_chunk_size=100)), {'max_chunk_size': 100})
    if si < 3:
        ctx.sample({'scenario': si, 'grammar': name, 'mode': mode, 'sentences': N, 'failed_alone': sum(afail), 'kw': base['kw'],
                    'first_result': [(x[0], x[2]) for x in asig[0]][:2]})


# ---------------------------------------------------------------------------------------------------------
def malformed(ctx, P, count):
    """(iv): shape mismatches are rejected before any rule function runs"""
    rng = ctx.rng
    for it in range(count):
        kind = rng.choice(['ja', 'syn', 'syn', 'en'])
        name, cats, roots, binary, unary = setup(rng, kind)
        K = len(cats)
        N = rng.randint(1, 9)
        sents = [make_sentence(rng, f'm{it}.{i}', K, rng.randint(1, 3)) for i in range(N)]
        doc = [s.tokens for s in sents]
        scores = [ScoringResult(s.tag, s.dep) for s in sents]
        j = rng.randrange(N)
        n = len(doc[j])
        z = lambda r, c: numpy.zeros((r, c), dtype=numpy.float32)      # noqa
        what = rng.choice(['tag_rows', 'dep_shape', 'score_count', 'tag_columns', 'tag_columns_all', 'float64', 'form_mismatch', 'tokens_vs_rows', 'tokens_vs_rows'])
        where_first = True
        if what == 'tag_rows':
            scores[j] = ScoringResult(z(n + rng.choice([-1, 1, 2]), K), scores[j].dep_scores)
        elif what == 'dep_shape':
            r, c = rng.choice([(n, n), (n, n + 2), (n + 1, n + 1), (n + 1, n + 2), (max(n - 1, 0), n + 1)])
            scores[j] = ScoringResult(scores[j].tag_scores, z(r, c))
        elif what == 'score_count':
            if rng.random() < 0.5 or N == 1:
                scores = scores + [scores[-1]]
            else:
                scores = scores[:-1]
        elif what == 'tag_columns':
            scores[j] = ScoringResult(z(n, K + rng.choice([-1, 1])), scores[j].dep_scores)
        elif what == 'tag_columns_all':      # consistent among themselves, but not with the category list
            d = rng.choice([-1, 1])
            scores = [ScoringResult(z(len(t), K + d), s.dep_scores) for t, s in zip(doc, scores)]
        elif what == 'tokens_vs_rows':       # tag and dep agree with each other, not with the tokens
            d = rng.choice([1, 1, -1, 2]) if n > 1 else rng.choice([1, 2])
            scores[j] = ScoringResult(z(n + d, K), z(n + d, n + d + 1))
            if rng.random() < 0.7:
                # ... while a sentence of the SAME batch legitimately has exactly these shapes (before or after the misfit): validity of a
                # shape is relative to the sentence's own tokens
                twin = make_sentence(rng, f'm{it}.twin', K, n + d)
                at = rng.randint(0, len(sents))
                sents.insert(at, twin)
                doc.insert(at, twin.tokens)
                scores.insert(at, ScoringResult(twin.tag, twin.dep))
                if at <= j:
                    j += 1
                N += 1
                what = 'tokens_vs_rows_twin_' + ('before' if at <= j else 'after')
        elif what == 'float64':
            tgt = rng.choice(['tag', 'dep'])
            if tgt == 'tag':
                scores[j] = ScoringResult(scores[j].tag_scores.astype(numpy.float64), scores[j].dep_scores)
            else:
                scores[j] = ScoringResult(scores[j].tag_scores, scores[j].dep_scores.astype(numpy.float64))
            where_first = (j == 0)
        elif what == 'form_mismatch':
            if rng.random() < 0.5:
                doc, scores = doc[0], scores          # one sentence, many score results
            else:
                doc, scores = doc, scores[0]          # many sentences, one score result
        if what in ('tag_rows', 'dep_shape', 'tag_columns', 'tokens_vs_rows') and rng.random() < 0.3:
            # the single-sentence calling convention (a list of tokens and ONE scoring result) is validated like a batch of one
            doc, scores = doc[j], scores[j]
            what = 'flat_' + what
        lim = rng.choice([100, 100, 2, 3])
        calls_reset()
        err = None
        try:
            P.run(doc, scores, cats, roots, binary, unary, nbest=rng.choice([1, 2]), processes=rng.randint(1, 3), max_chunk_size=lim)
        except Exception as e:      # noqa
            err = e
        c = calls()
        ctx.count(f'malformed:{what}')
        ctx.case(('malformed', it, what, j, N, lim), nontrivial=True)
        data = {'what': what, 'position': j, 'sentences': N, 'max_chunk_size': lim, 'grammar': name, 'lengths': [len(s.tokens) for s in sents],
                'shapes': ([(list(s.tag_scores.shape), list(s.dep_scores.shape), str(s.tag_scores.dtype), str(s.dep_scores.dtype)) for s in scores] if isinstance(scores, list) else 'single')}
        if err is None:
            ctx.fail('malformed_accepted', f'input with {what} at sentence {j} was accepted', data)
        elif what == 'float64':
            # an element-type error is only seen when the sentence is reached (typed buffer assignment in the loop);
            # the property speaks about shapes, so only 'first sentence => nothing parsed' is checked here
            ctx.count('float64:calls_before_rejection>0' if c else 'float64:calls_before_rejection=0')
            if where_first and c and N <= lim:
                ctx.fail('parsed_before_type_check', f'{c} rule-function calls happened before the float64 array of the first sentence was rejected', data)
        elif c:
            ctx.fail('parsed_before_type_check', f'{c} rule-function calls happened before the input with {what} at sentence {j} was rejected ({type(err).__name__})', data)
    # the single-sentence form is accepted and gives one result list
    name, cats, roots, binary, unary = setup(rng, 'ja')
    s = make_sentence(rng, 'single', len(cats), 2)
    try:
        r = P.run(s.tokens, ScoringResult(s.tag, s.dep), cats, roots, binary, unary)
        if len(r) != 1:
            ctx.fail('result_count', f'single-sentence form: {len(r)} result lists', {'what': 'single form'})
    except Exception as e:      # noqa
        ctx.fail('exception', f'single-sentence form raised {type(e).__name__}: {e}', {'what': 'single form'})


# ---------------------------------------------------------------------------------------------------------
def big_cache(ctx, P, n_sent):
    """a batch over the whole shipped English inventory (425 tags, wide beam): the rule cache and the category table of ONE call grow to
    tens of thousands of entries; every sentence must still come back exactly as when it is parsed alone"""
    rng = ctx.rng
    cats = [Category.parse(s_) for s_ in gen.inventory('en')]
    roots = [Category.parse(r_) for r_ in ('S[dcl]', 'S[wq]', 'S[q]', 'NP')]
    binary, unary = Rule('en', 2), Rule('en', 1)
    kw = dict(unary_penalty=0.125, beta=1e-5, use_beta=False, pruning_size=rng.choice([15, 17]), nbest=1, max_chunk_size=100)
    templates = [['NP', '(S[dcl]\\NP)/NP', 'NP'], ['NP[nb]/N', 'N', 'S[dcl]\\NP'], ['NP', '(S[dcl]\\NP)/NP', 'NP[nb]/N', 'N'], ['NP[nb]/N', 'N/N', 'N', 'S[dcl]\\NP'],
                 ['NP', 'S[dcl]\\NP', '(S\\NP)\\(S\\NP)'], ['N', '(S[dcl]\\NP)/PP', 'PP/NP', 'NP']]
    idx = {str(c): i for i, c in enumerate(cats)}
    templates = [t for t in templates if all(x in idx for x in t)] or [[str(cats[0])]]
    sents = []
    for i in range(n_sent):
        tpl = rng.choice(templates)
        s_ = make_sentence(rng, f'big.{i}', len(cats), len(tpl))
        for j, t in enumerate(tpl):          # a parse exists inside the beam; the rest of the beam is random
            s_.tag[j, idx[t]] = 0.125
        sents.append(s_)
    base = {'scenario': 'big_cache', 'sentences': n_sent, 'kw': {k: repr(v) for k, v in kw.items()}, 'lengths': [len(s_.tokens) for s_ in sents]}
    calls_reset()
    global _SEEN
    _SEEN = set()
    del _DUP[:]
    try:
        whole, _ = call_run(P, sents, cats, roots, binary, unary, kw)
    except Exception as e:      # noqa
        _SEEN = None
        ctx.fail('exception', f'big-cache batch: depccg.parsing.run raised {type(e).__name__}: {str(e)[:200]} on a well-formed batch of {n_sent} sentences '
                 f'after {calls()} rule-function calls (= cache entries) in this call', dict(base, error=repr(e)[:300]))
        return
    _SEEN = None
    # the memo contract of GlueMemo.v (a cached key is never recomputed within one call): the rule functions are asked at most once per key
    ctx.obligation(f'big-cache batch of {n_sent}: no rule-function key is requested twice within one call (the rule cache only grows)', not _DUP,
                   f'{len(_DUP)} repeated requests, first: {[str(x) for x in _DUP[0]] if _DUP else None}')
    ctx.stats['big_cache:rule_cache_entries'] = max(ctx.stats.get('big_cache:rule_cache_entries', 0), calls())
    if len(whole) != n_sent:
        ctx.fail('result_count', f'big-cache batch: {n_sent} sentences in, {len(whole)} result lists out', base)
        return
    for i, s_ in enumerate(sents):
        try:
            alone, _ = call_run(P, [s_], cats, roots, binary, unary, kw)
        except Exception as e:      # noqa
            ctx.fail('exception', f'big-cache: sentence {i} alone raised {type(e).__name__}: {str(e)[:200]}', dict(base, index=i))
            continue
        ctx.case(('big', i, n_sent), nontrivial=True)
        ctx.count('big_cache:' + ('failed' if is_failure(alone[0]) else 'parsed'))
        if result_sig(alone[0]) != result_sig(whole[i]):
            ctx.fail('history_dependent', f'big-cache batch: sentence {i} differs from parsing it alone (the call had made {ctx.stats["big_cache:rule_cache_entries"]} rule-function calls)',
                     dict(base, index=i, alone=[(x[0], x[2]) for x in result_sig(alone[0])], batch=[(x[0], x[2]) for x in result_sig(whole[i])]))


# ---------------------------------------------------------------------------------------------------------
def many_categories(ctx, P):
    """one call whose category table grows to several thousand DERIVED categories (a product grammar: every pair of the m lexical
    categories creates its own category D_ij, every D_ij has its own unary result V_ij) and then parses short target sentences whose
    derived categories have ids congruent to the ids of their lexical categories modulo 256 ... 4096: every sentence must come back
    exactly as when it is parsed alone, all its parses (n-best) included.  The ids are predicted from the recorded order of the
    rule-function invocations (new categories are numbered in the order the rule functions first return them)."""
    global _LOG
    rng = ctx.rng
    m = rng.choice([66, 70, 74])
    T = [Category.parse(f'T{i}') for i in range(m)]
    U = [Category.parse(f'U{i}') for i in range(m)]
    R = Category.parse('R')
    table, utable = {}, {}
    D, V = {}, {}
    for i in range(m):
        utable[T[i]] = [CombinatorResult(cat=U[i], op_string=f'u{i}', op_symbol='<u>', head_is_left=True)]
        for j in range(m):
            D[i, j] = Category.parse(f'D{i}x{j}')
            V[i, j] = Category.parse(f'V{i}x{j}')
            table[(T[i], T[j])] = [CombinatorResult(cat=D[i, j], op_string=f'd{i}_{j}', op_symbol='<d>', head_is_left=(i + j) % 2 == 0)]
            utable[D[i, j]] = [CombinatorResult(cat=V[i, j], op_string=f'v{i}_{j}', op_symbol='<v>', head_is_left=True)]

    class Lazy(dict):        # the m^3 pairs (U_i, D_jk), (D_ij, U_k), (V_ij, T_k), (T_i, V_jk) are not enumerated
        def get(self, k, dflt=None):
            if k in self:
                return self[k]
            x, y = (str(c) for c in k)
            lab = {('U', 'D'): 'ud', ('D', 'U'): 'du', ('V', 'T'): 'vt', ('T', 'V'): 'tv'}.get((x[0], y[0]))
            if lab is None:
                return dflt if dflt is not None else []
            return [CombinatorResult(cat=R, op_string=f'{lab}:{x}:{y}', op_symbol=f'<{lab}>', head_is_left=lab in ('ud', 'vt'))]
    _syn_count[0] += 1
    name = f'product{_syn_count[0]}'
    _TABLES[name] = (Lazy(table), utable)
    binary, unary = Rule(name, 2), Rule(name, 1)
    kw = dict(unary_penalty=0.125, beta=1e-3, use_beta=True, pruning_size=m, nbest=6, max_step=400000, max_chunk_size=1000)

    def sentence(sid, tags):
        s_ = make_sentence(rng, sid, m, len(tags))
        for j, t in enumerate(tags):
            if t is None:       # every lexical category survives the beam
                s_.tag[j, :] = numpy.array([-rng.randint(0, 3) / 8.0 for _ in range(m)], dtype=numpy.float32)
            else:               # exactly one does
                s_.tag[j, :] = -20.0
                s_.tag[j, t] = -rng.randint(0, 3) / 8.0
        return s_
    history = sentence('hist', [None, None])        # no derivation (D and V are no roots): the search exhausts all m^2 pairs
    base = {'scenario': 'many_categories', 'lexical_categories': m, 'kw': {k: repr(v) for k, v in kw.items()}}
    _LOG = []
    try:
        call_run(P, [history], T, [R], binary, unary, kw)
        log = _LOG
    except Exception as e:      # noqa
        _LOG = None
        ctx.fail('exception', f'product grammar over {m} lexical categories: depccg.parsing.run raised {type(e).__name__}: {str(e)[:200]}', dict(base, error=repr(e)[:300]))
        return
    finally:
        _LOG = None
    ids = list(T)
    known = set(ids)
    for ent in log:
        for r in ent[-1]:
            if r.cat not in known:
                known.add(r.cat)
                ids.append(r.cat)
    ctx.stats['many_categories:category_table'] = len(ids)
    rev = {v: k for k, v in D.items()}
    targets = []
    for p_ in (256, 512, 1024, 2048, 4096):
        for i in [0, 1, 2] + rng.sample(range(3, m), 3):
            hits = [ids[q] for q in range(p_ + i, len(ids), p_) if ids[q] in rev][:2]
            for d_ in hits:
                j, k_ = rev[d_]
                targets.append((i, j, k_))
                targets.append((j, k_, i))
    ctx.stats['many_categories:congruent_targets'] = len(targets)
    targets += [tuple(rng.randrange(m) for _ in range(rng.choice([2, 3, 3, 4]))) for _ in range(12)]
    rng.shuffle(targets)
    sents = [sentence(f'mc{i}', list(t)) for i, t in enumerate(targets)]
    batch = sents[:1] + [history] + sents[1:]
    try:
        whole, _ = call_run(P, batch, T, [R], binary, unary, kw)
    except Exception as e:      # noqa
        ctx.fail('exception', f'product grammar: depccg.parsing.run raised {type(e).__name__}: {str(e)[:200]} on a well-formed batch', dict(base, error=repr(e)[:300]))
        return
    if len(whole) != len(batch):
        ctx.fail('result_count', f'product grammar: {len(batch)} sentences in, {len(whole)} result lists out', base)
        return
    whole = whole[:1] + whole[2:]
    for i, (s_, t) in enumerate(zip(sents, targets)):
        try:
            alone, _ = call_run(P, [s_], T, [R], binary, unary, kw)
        except Exception as e:      # noqa
            ctx.fail('exception', f'product grammar: sentence {i} alone raised {type(e).__name__}: {str(e)[:200]}', dict(base, index=i))
            continue
        ctx.case(('many_categories', m, i, t), nontrivial=len(t) > 2)
        ctx.count('many_categories:' + ('failed' if is_failure(alone[0]) else f'parses={len(alone[0])}'))
        if len(t) == 3 and len(alone[0]) != 4:
            ctx.fail('wrong_parse_count', f'product grammar: the three-token sentence with lexical categories {t} has exactly four derivations, {len(alone[0])} returned (nbest=6)',
                     dict(base, index=i, lexical=list(t)))
        if result_sig(alone[0]) != result_sig(whole[i]):
            ctx.fail('history_dependent', f'product grammar: the sentence with lexical categories {t} differs from parsing it alone once the call has created {len(ids)} categories',
                     dict(base, index=i, lexical=list(t), alone=[(x[0], x[2]) for x in result_sig(alone[0])], batch=[(x[0], x[2]) for x in result_sig(whole[i])]))


# ---------------------------------------------------------------------------------------------------------
def chunk_checks(ctx, P):
    """model GlueMemo.chunks_py vs the real _chunks (exact, the ValueError of the empty list included), plus the property restated on the real function"""
    cases, descr = [], []
    for L in range(0, 61):
        for k in range(0, 9):
            try:
                got = [list(c) for c in P._chunks(list(range(L)), k)]
            except ValueError:
                got = None
            e = 'None' if got is None else '(Some ([' + ';'.join('[' + ';'.join(str(v) for v in c) + ']' for c in got) + '])%nat)'
            cases.append(f'chunks_agree {L}%nat {k}%nat {e}')
            descr.append({'len': L, 'num_chunks': k, 'real': got})
            ctx.case(('chunks', L, k), nontrivial=L > max(k, 1))
            if got is None:
                ctx.count('chunks:ValueError(empty list)')
                if L > 0:
                    ctx.fail('chunks_raise', f'_chunks raised on a list of {L} elements, {k} chunks', {'len': L, 'num_chunks': k})
                continue
            flat = [v for c in got for v in c]
            if flat != list(range(L)):
                ctx.fail('chunks_lose_or_repeat', f'_chunks(range({L}), {k}) concatenates to {flat}', {'len': L, 'num_chunks': k, 'chunks': got})
            elif any(not c for c in got):
                ctx.fail('chunks_empty', f'_chunks(range({L}), {k}) has an empty chunk', {'len': L, 'num_chunks': k, 'chunks': got})
    ctx.coq_cases('chunks', PRE, cases, chunk=140, describe=lambda i: descr[i])


# ---------------------------------------------------------------------------------------------------------
# the wrapper depccg.parsing.run against GlueMemoRun.run: the parser is replaced by a probe
PRE_RUN = '''From Coq Require Import List NArith ZArith Bool Arith.
Import ListNotations.
Require Import Cat Filter GlueMemoRun.
Open Scope N_scope.
'''
_PROBE_FAIL = False     # module-level: forked workers inherit it


def _probe_run(doc, scoring_results, categories, apply_binary_rules, apply_unary_rules, possible_root_cats, process_id=0, **kwargs):
    """stands in for depccg._parsing.run: per sentence (process_id, num_tags, sentences in this call, tokens)"""
    if _PROBE_FAIL:
        raise RuntimeError('probe-inner')
    assert len(doc) == len(scoring_results)
    return [[(int(process_id), int(kwargs['num_tags']), len(doc), len(tokens))] for tokens in doc]


def _gmat(a):
    rows = ['[' + ';'.join(str(int(v)) for v in r) + ']' for r in a]
    return f'(mkMat {a.shape[1]}%nat ([' + ';'.join(rows) + '])%Z)'


def _gsc(sr):
    return f'(mkSc {_gmat(sr[0])} {_gmat(sr[1])})'


def wrapper_checks(ctx, P, count):
    global _PROBE_FAIL
    import depccg._parsing as DP
    rng = ctx.rng
    cats = [Category.parse(c) for c in ('S', 'N', 'NP', 'S/NP', 'N/N')]
    z = lambda r, c: numpy.array([[rng.randint(-9, 9) for _ in range(c)] for _ in range(r)], dtype=numpy.float32).reshape((r, c))      # noqa
    cases, descr = [], []
    orig = DP.run
    DP.run = _probe_run
    try:
        for it in range(count):
            K = rng.choice([1, 3, 5])
            N = rng.choice([0, 1, 1, 2, 3, 4, 5, 7])
            words = [[rng.choice(['a', 'the', 'Dog', 'ü', '猫']) for _ in range(rng.choice([0, 1, 1, 2, 3]) if rng.random() < 0.15 else rng.randint(1, 3))] for _ in range(N)]
            doc = [[Token.of_word(w) for w in ws] for ws in words]
            scores = [ScoringResult(z(len(ws), K), z(len(ws), len(ws) + 1)) for ws in words]
            what = rng.choice(['ok'] * 9 + ['single', 'tag_rows', 'dep_shape', 'score_count', 'tag_columns', 'tag_columns_all', 'tokens_vs_rows', 'form_mismatch'])
            j = rng.randrange(N) if N else 0
            n = len(words[j]) if N else 0
            dform = sform = 'many'
            if N and what == 'tag_rows':
                scores[j] = ScoringResult(z(n + rng.choice([1, 2]), K), scores[j][1])
            elif N and what == 'dep_shape':
                r, c = rng.choice([(n, n), (n, n + 2), (n + 1, n + 1), (n + 1, n + 2)])
                scores[j] = ScoringResult(scores[j][0], z(r, c))
            elif N and what == 'score_count':
                scores = scores + [scores[-1]] if rng.random() < 0.5 else scores[:-1]
            elif N and what == 'tag_columns':
                scores[j] = ScoringResult(z(n, K + 1), scores[j][1])
            elif N and what == 'tag_columns_all':
                scores = [ScoringResult(z(len(ws), K + 1), s[1]) for ws, s in zip(words, scores)]
            elif N and what == 'tokens_vs_rows':
                scores[j] = ScoringResult(z(n + 1, K), z(n + 1, n + 2))
            elif N and what == 'form_mismatch':
                if rng.random() < 0.5:
                    dform = 'one'
                else:
                    sform = 'one'
            elif N and what == 'single':
                dform = sform = 'one'
            if (dform == 'one' and not words[0]) or (sform == 'one' and not scores):
                continue        # DocOne [] / no score to pass: covered by C17's stream
            doc_arg = doc[0] if dform == 'one' else doc
            sc_arg = scores[0] if sform == 'one' else scores
            mcs = rng.choice([-1, 0, 1, 2, 3, 3, 100])
            procs = rng.choice([-1, 0, 1, 2, 2, 3, 4])
            _PROBE_FAIL = rng.random() < 0.12
            try:
                res = P.run(doc_arg, sc_arg, cats[:K], [cats[0]], None, None, processes=procs, max_chunk_size=mcs)
                real = 'OOk [' + ';'.join('(%d,%d,%d,%d)%%nat' % tuple(q) for r in res for q in r) + ']'
                kind = 'ok:pool' if any(q[0] > 0 or q[2] < len(res) for r in res for q in r) else 'ok:in-process'
            except IndexError:
                real, kind = 'OErr 1%nat', 'IndexError'
            except RuntimeError as e:
                real, kind = ('OErr 4%nat', 'parser raised') if str(e) == 'probe-inner' else ('OErr 2%nat', 'RuntimeError(_type_check)')
            except ValueError:
                real, kind = 'OErr 3%nat', 'ValueError(Pool)'
            except Exception as e:      # noqa  - outside the model: reported as a disagreement
                real, kind = None, 'other:' + type(e).__name__
            ctx.count(f'wrapper:{kind}')
            ctx.case(('wrapper', it, what, N, mcs, procs, _PROBE_FAIL), nontrivial=N > 1)
            gd = f'(DocOne {glist(words[0], lit)})' if dform == 'one' else f'(DocMany {glist(words, lambda w: glist(w, lit))})'
            gs = f'(ScOne {_gsc(scores[0])})' if sform == 'one' else f'(ScMany {glist(scores, _gsc)})'
            cases.append('false' if real is None else f'run_agrees {gbool(_PROBE_FAIL)} {K}%nat {gd} {gs} ({mcs})%Z ({procs})%Z ({real})')
            descr.append({'what': what, 'sentences': N, 'lengths': [len(w) for w in words], 'doc_form': dform, 'scores_form': sform, 'max_chunk_size': mcs,
                          'processes': procs, 'parser_raises': _PROBE_FAIL, 'real': real, 'kind': kind})
            # the property restated on the real wrapper: well-formed, parser fine, processes >= 1 => one result per sentence, in order, whatever the schedule
            if what == 'ok' and N and all(words) and not _PROBE_FAIL and (procs >= 1 or N <= mcs):
                if kind.startswith('ok'):
                    if [q[3] for r in res for q in r] != [len(w) for w in words] or len(res) != N:
                        ctx.fail('wrapper_misaligned', f'run returned results for sentences of lengths {[q[3] for r in res for q in r]}, the batch has {[len(w) for w in words]}', descr[-1])
                else:
                    ctx.fail('wrapper_rejected_wellformed', f'run raised {kind} on a well-formed batch (processes={procs}, max_chunk_size={mcs})', descr[-1])
    finally:
        DP.run = orig
        _PROBE_FAIL = False
    ctx.coq_cases('wrapper', PRE_RUN, cases, chunk=max(1, len(cases) // 16 + 1), describe=lambda i: descr[i])


def memo_checks(ctx, P, count):
    """the recorded invocations of the user's rule functions, replayed on the model, give the table and the cache entries
    the real call ended with"""
    global _LOG
    rng = ctx.rng
    cases, descr = [], []
    tries = 0
    while len(cases) < count and tries < count * 4:
        tries += 1
        kind = rng.choice(['ja', 'syn', 'syn', 'en'])
        name, cats, roots, binary, unary = setup(rng, kind)
        if rng.random() < 0.3:       # roots that are not in the category list extend the table before the first sentence
            roots = roots + [Category.parse(rng.choice(['X', 'Y/X', 'S[q]']))]
        if rng.random() < 0.3:
            rng.shuffle(roots)
        K = len(cats)
        nmax = 2 if kind == 'en' else 4
        sents = [make_sentence(rng, f'c{tries}.{i}', K, rng.randint(1, nmax)) for i in range(rng.randint(1, 4))]
        kw = dict(unary_penalty=rng.choice([0, 1]) / 8.0, use_beta=False, pruning_size=2 if kind == 'en' else rng.choice([2, 3, 50]), nbest=rng.choice([1, 2, 3]),
                  max_chunk_size=100, max_length=rng.choice([250, 250, 2]), max_step=rng.choice([300000, 300000, rng.randint(2, 30)]))
        _LOG = []
        try:
            res, rec = call_run(P, sents, cats, roots, binary, unary, kw, record=True)
            log = _LOG
        except Exception as e:      # noqa
            ctx.fail('exception', f'depccg.parsing.run raised {type(e).__name__}: {str(e)[:200]} on a well-formed batch', {'grammar': name, 'error': repr(e)[:300]})
            continue
        finally:
            _LOG = None
        if not rec:
            ctx.count('memo:nothing_observable(no sentence parsed)')
            continue
        if len(log) > 260:
            ctx.count('memo:log_too_long_for_coq')
            continue
        final = list(rec[0]['fargs']['categories'])
        obs = {}
        for r in rec:
            if r['fargs']['categories'] is not rec[0]['fargs']['categories']:
                ctx.fail('table_not_shared', 'two sentences of one call were given different category tables', {'grammar': name})
            obs.update(r['cached'])
        # universe of categories of this case
        uni, uid = [], {}

        def g(c):
            if c not in uid:
                uid[c] = len(uni)
                uni.append(c)
            return f'(g {uid[c]}%nat)'

        def gres(r):
            return f'(mk {g(r.cat)} {lit(r.op_string)} {lit(r.op_symbol)} {gbool(r.head_is_left)})'
        calls_ = []
        for e in log:
            if e[0] == 2:
                calls_.append(f'CBin {g(e[1])} {g(e[2])} [' + ';'.join(gres(r) for r in e[3]) + ']')
            else:
                calls_.append(f'CUn {g(e[1])} [' + ';'.join(gres(r) for r in e[2]) + ']')
        ok_ids = True
        obs_s = []
        for (x, y), ents in sorted(obs.items()):
            key = f'KUn {x}%nat' if y == rt.UINT_MAX else f'KBin {x}%nat {y}%nat'
            items = []
            for cid, a, b, h in ents:
                if not 0 <= cid < len(final):
                    ok_ids = False
                    break
                items.append(f'({cid}%nat, mk {g(final[cid])} {lit(a)} {lit(b)} {gbool(h)})')
            obs_s.append(f'({key}, [' + ';'.join(items) + '])')
        body = (f'replay_agrees [{";".join(g(c) for c in cats)}] [{";".join(g(c) for c in roots)}] [{";".join(calls_)}] '
                f'[{";".join(g(c) for c in final)}] [{";".join(obs_s)}]')
        term = ('(let u := [' + ';'.join(gcat(c) for c in uni) + '] in let g := (fun i : nat => nth i u dcatn) in ' + body + ')') if ok_ids else 'false'
        cases.append(term)
        descr.append({'grammar': name, 'sentences': len(sents), 'calls': len(log), 'table_before': len(cats), 'table_after': len(final), 'cache_entries_observed': len(obs)})
        ctx.case(('memo', tries, name, len(log), len(final)), nontrivial=len(final) > len(cats) and len(log) > 3)
        ctx.count(f'memo:{kind}')
        ctx.count('memo:table_grew' if len(final) > len(cats) else 'memo:table_unchanged')
        # the same pair of categories is never asked twice within one call (cache hit instead)
        keys = [e[:-1] for e in log]
        if len(set(keys)) != len(keys):
            dup = next(k for k in keys if keys.count(k) > 1)
            ctx.fail('rule_function_called_twice', f'the rule function was invoked twice for {[str(c) for c in dup[1:]]} within one call: the cache did not remember it (or ids were reassigned)',
                     {'grammar': name, 'args': [str(c) for c in dup[1:]]})
    ctx.coq_cases('memo', PRE, cases, chunk=max(1, len(cases) // 16 + 1), describe=lambda i: descr[i])
    ctx.stats['memo_cases'] = len(cases)


# ---------------------------------------------------------------------------------------------------------
def run(ctx):
    ctx.build(['P_C11.vo'])
    ctx.theorems('P_C11')
    # the same end-to-end statements with the CONCRETE pop policy (libstdc++ heap twin) in place of an abstract one
    ctx.build(['P_C11_d.vo'])
    ctx.theorems('P_C11_d')
    P = glue.parsing()
    real_time = P.time
    P.time = FastSleep()
    try:
        chunk_checks(ctx, P)
        memo_checks(ctx, P, 24 if ctx.quick else 240)
        wrapper_checks(ctx, P, 240 if ctx.quick else 2400)
        malformed(ctx, P, 40 if ctx.quick else 400)
        t0 = time.time()
        for n_big in ((7, 12) if ctx.quick else (7, 10, 13, 18, 25, 40)):      # several batches: the cache passes any given size at different moments of a search
            big_cache(ctx, P, n_big)
        n_big = 16
        while ctx.stats.get('big_cache:rule_cache_entries', 0) < 26000 and n_big <= 64:      # ... and at least one of them is really big
            big_cache(ctx, P, n_big)
            n_big *= 2
        ctx.stats['big_cache_s'] = round(time.time() - t0, 1)
        t0 = time.time()
        many_categories(ctx, P)
        ctx.stats['many_categories_s'] = round(time.time() - t0, 1)
        rng = ctx.rng
        if ctx.quick:
            plan = [('syn', 45, 'normal'), ('ja', 30, 'normal'), ('en', 8, 'normal'), ('syn', 24, 'dead'), ('ja', 20, 'maxlen'), ('syn', 20, 'maxstep'),
                    ('syn', 12, 'slowfirst'), ('syn', 1, 'normal'), ('ja', 3, 'maxstep'), ('en', 14, 'normal'), ('en', 6, 'maxlen'), ('ja', 45, 'normal'),
                    ('syn', 45, 'maxlen'), ('ja', 12, 'slowfirst'), ('syn', 30, 'normal'), ('en', 5, 'maxstep'), ('syn', 2, 'normal')] * 2
        else:
            plan = []
            for k in range(500):
                kind = rng.choice(['syn', 'syn', 'ja', 'ja', 'en'])
                mode = rng.choice(['normal', 'normal', 'normal', 'maxlen', 'maxstep', 'dead' if kind == 'syn' else 'normal', 'slowfirst' if kind != 'en' else 'normal'])
                N = rng.choice([1, 2, 3, 5, 8, 13, 21, 30, 45]) if kind != 'en' else rng.choice([1, 2, 4, 8, 14, 22])
                plan.append((kind, N, mode))
        for si, (kind, N, mode) in enumerate(plan):
            t0 = time.time()
            scenario(ctx, P, si, kind, N, mode)
            ctx.stats[f'scenario_s:{si}:{kind}:{N}:{mode}'] = round(time.time() - t0, 1)
    finally:
        P.time = real_time
    # the concrete pop policy: libstdc++'s binary heap over operator< (scores only) is category-blind (P_DSearch.v C11_d_*), and the
    # deterministic twin built on it predicts the real pop order, ties included, from the problem alone
    import dsearch_cases
    dsearch_cases.run_dsearch(ctx, 500 if ctx.quick else 12000)
    ctx.trusted += ['twin-under-memo model coq/DSearchMemo.v dmstep: composition of DSearch.dstep (tied by exact pop-trace prediction), Heap.v (tied to libstdc++) and GlueMemo.memo_step (tied by replay)',
                    'memo model coq/GlueMemo.v (tied to parsing.pyx/parsing.h: replay of the recorded rule-function invocations gives the real final category table and the real cache entries)',
                    'chunk model coq/GlueMemo.v chunks_py (tied to parsing.py _chunks exactly for all lengths 0..60 x 0..8 chunks, the ValueError of the empty list included)',
                    'wrapper model coq/GlueMemoRun.v run (tied to parsing.py run with depccg._parsing.run replaced by a probe: branch taken, chunk sizes, process ids, result order, exception class for well-formed and malformed inputs, processes -1..4, max_chunk_size -1..100, real multiprocessing.Pool); its _type_check part is coq/Filter.v (tied in C17)',
                    'search-under-memo model coq/GlueMemoSearch.v mreach: composition of AStarImpl.jstep (tied by pop-trace validation) and GlueMemo.memo_step (tied by the replay above); the order of the lookups within one loop iteration is left free in the model',
                    'implementation-level search model coq/AStarImpl.v (tied to parsing.h by trace validation in C01/C02/C09/C10/C16)',
                    'harness/decy.py + depccg_verif_rt.py + driver.cpp (running parsing.pyx / parsing.h for real)']
    return ctx.finish(
        level='proof',
        rule='batches of 1-45 sentences (n <= 5, dyadic scores, rows with and without equal scores) with the real en/ja grammars and synthetic multi-result grammars, nbest 1-3, beam on/off; '
             'each batch parsed sentence by sentence in fresh calls, then whole, rotated, permuted, as subsets (processes 1-4, max_chunk_size 3..100, multiprocessing.Pool whenever the batch exceeds it), and warmed; '
             'failure mixtures: max_length 1-3, max_step 1-7, sentences whose only admitted tag has no rules; malformed stream: 8 kinds of shape/type mismatch at random positions; '
             'non-trivial = a multi-token sentence compared at a position/history other than alone; distinct by (scenario, schedule, position)',
        assumptions=['what the model cannot exhibit - OS scheduling of the worker processes and pickling of arguments/results inside multiprocessing - is exercised (Pool really forks; slow first chunks make later chunks finish first), not proved',
                     'the wait loop of depccg.parsing.run naps with time.sleep(1); the harness shortens the nap to 20 ms (pacing only)',
                     'the set of possible results of a sentence is proved history-independent end to end (C11_batch_equals_alone, C11_same_sentence_same_result_under_any_history); WHICH of several equal-priority pops the std::priority_queue takes is modelled by coq/Heap.v + DSearch.v (literal libstdc++ sift-up/sift-down, tied to the real library and to the real pop traces, ties included) and proved to depend on the scores only (C11_d_search_is_category_blind: a bi-unique renaming of the derived category ids gives position-wise related traces and equal scores); and the twin is threaded through the incremental memo (P_C11_d.v: C11_d_same_sentence_same_outcome_under_any_history, C11_d_batch_is_a_function_of_the_batch, with no policy hypothesis); the heap-driven choice is not exhibited as a value of the abstract policy_t (its push order differs from the list order of jstep: ex_c11_d_push_order_differs); the order of equal tag scores is by lexical id = position in the input category list, which no history changes',
                     'an element-type mismatch (float64) is detected when the sentence is reached, not up front: checked only as "raises; nothing parsed if it is the first sentence"',
                     'depccg._parsing.run is a parameter of the wrapper model; "per sentence" (C11_chunked_equals_unchunked) is what C11_batch_equals_alone says of its loop up to the tie-breaking above',
                     'math.ceil(len/num) is float division in Python, integer ceiling in the model: identical for every list a machine can hold below 2^53 elements'])
