"""C19 - Whatever the parser can return can be rendered in every offered format.

Theorems (coq/P_C19.v): the label vocabularies of the two grammars are closed under the Prolog tables; every tree whose leaf
tokens have at least 'word' and whose labels are of the language's grammar - the failure placeholder included - renders in
every format offered for the language; a batch renders iff each sentence does.  Everything they mention is regenerated from
the source by translate/gen_render.py (strict token keys, label lookups, vocabularies, CLI lists).
Tie: model outcome (Ok / KeyErr k / LabelErr l) against what to_string really does (returns / KeyError / anything else) on
batches mixing licensed derivations, trees carrying every label of the vocabularies, the placeholder, and a malformed stream
(labels outside the grammar, tokens without 'word'); the vocabularies against the labels the real rule functions emit.
Oracle (independent of the model): on the licensed / labelled / placeholder batches every offered format must return, with
exactly one record per tree of every sentence."""
import copy
import gen
import render_common as rc
from gallina import lit

from depccg.cat import Category
from depccg.tree import Tree, ScoredTree
from depccg.types import Token

PRE = '''From Coq Require Import List NArith Bool.
Import ListNotations.
Require Import Cat Tree GenRender Render.
Open Scope N_scope.
'''


def vocab(lang):
    """(binary pairs, unary pairs) as the translator read them from grammar/<lang>.py"""
    try:
        b, u = rc.gen_render.grammar_labels(rc.env.REPO, lang)
    except rc.gen_render.Fail:
        return [], []           # the translator obligation (translate:render) is already broken; the oracle still runs
    return b, u


def in_domain_batches(ctx, lang):
    """(kind, batch): everything C19 quantifies over"""
    rng = ctx.rng
    binl, unl = vocab(lang)
    # 1. every label of the vocabularies on a node, full and bare tokens, alone and next to failed sentences
    reps = 2 if ctx.quick else 12
    for kind, pairs in (('binary', binl), ('unary', unl)):
        for ops, sym in pairs:
            for full in (True, False):
                for _ in range(reps):
                    t = rc.labelled_tree(rng, lang, kind, ops, sym, full)
                    b = [[ScoredTree(t, rc.score(rng))]]
                    r = rng.random()
                    if r < 0.4:
                        b.insert(rng.randint(0, 1), rc.placeholder())
                    elif r < 0.7:
                        b.append(rc.sentence(rng, lang))
                        b.insert(rng.randint(0, 2), rc.placeholder())
                    yield f'label:{kind}:{ops}/{sym}', b
    # 2. the placeholder alone, first, last, repeated, as every sentence
    yield 'failed', [rc.placeholder()]
    yield 'failed', [rc.placeholder(), rc.placeholder()]
    for _ in range(6 if ctx.quick else 60):
        s = [rc.sentence(rng, lang) for _ in range(rng.randint(1, 3))]
        yield 'failed-first', [rc.placeholder()] + s
        yield 'failed-last', s + [rc.placeholder()]
    # 3. licensed derivations of the real rule functions over the shipped lexicon and unary table
    for _ in range(60 if ctx.quick else 1500):
        yield 'licensed', rc.licensed_batch(rng, lang)
    # 4. the deepest derivations a sentence below the default --max-length (250 tokens) can have: one leaf added per step
    for _ in range(2 if ctx.quick else 12):
        t = gen.deep_chain(rng, lang, depth=rng.randint(150, 249), full_tokens=rng.random() < 0.5)
        b = [[ScoredTree(t, rc.score(rng))]]
        if rng.random() < 0.5:
            b.insert(rng.randint(0, 1), rc.sentence(rng, lang))
        yield 'deep', b


def malformed_batches(ctx, lang):
    """outside the domain of C19: only the model is compared with the implementation here"""
    rng = ctx.rng
    other = 'ja' if lang == 'en' else 'en'
    ob, ou = vocab(other)
    weird = [('unk', '<unk>'), ('', ''), ('FA', '>'), ('lex', '<lex>'), ('word', 'word'), ('conj2', '<Φ>'), ('fx', '>Bx')] + ob + ou
    for ops, sym in weird:
        for kind in ('binary', 'unary'):
            if lang == 'en' and kind == 'binary' and ops.startswith('conj'):
                continue
            t = rc.labelled_tree(rng, lang, kind, ops, sym, rng.random() < 0.5)
            b = [[ScoredTree(t, rc.score(rng))]]
            if rng.random() < 0.5:
                b.insert(rng.randint(0, 1), rc.sentence(rng, lang))
            yield f'foreign-label:{kind}', b
    for _ in range(25 if ctx.quick else 400):
        # tokens without 'word' (e.g. what a caller gets back after an in-place rename), somewhere in a batch
        t = gen.licensed_tree(rng, lang, nleaves=rng.randint(1, 4), full_tokens=rng.random() < 0.5)
        toks = t.tokens
        victim = rng.choice(toks)
        mode = rng.choice(['drop', 'rename', 'only-lemma'])
        w = victim.pop('word')
        if mode == 'rename':
            victim['surf'] = w
        elif mode == 'only-lemma':
            victim.clear()
            victim['lemma'] = w
        b = [[ScoredTree(t, rc.score(rng))]]
        if rng.random() < 0.6:
            b.insert(rng.randint(0, 1), rc.sentence(rng, lang))
        if rng.random() < 0.3:
            b.append(rc.placeholder())
        yield f'no-word:{mode}', b
    for _ in range(25 if ctx.quick else 400):
        b = [[ScoredTree(gen.rand_tree(rng, lang, nleaves=rng.randint(1, 5), full_tokens=rng.random() < 0.5, cats=[Category.parse(s) for s in rng.sample(gen.inventory(lang), 6) if '/' in s or '\\' in s] or None), rc.score(rng))]
             for _ in range(rng.randint(1, 3))]
        yield 'arbitrary', b


def check_batch(lang, fs, batch, fail, kind=''):
    """the property on the implementation; returns {format: what to_string did}"""
    res = {}
    for f in fs:
        r = rc.render(lang, rc.fresh(batch), f)        # one rendering of fresh objects: histories are C18's subject
        res[f] = r
        if r[0] != 'ok':
            which = [i for i, sent in enumerate(batch, 1) if rc.render(lang, rc.fresh([sent]), f)[0] != 'ok']
            fail('render_raises', f'[{lang}] to_string(format={f!r}) raises {r[1:]!r} on a batch of {len(batch)} sentence(s) ({kind}); '
                                  f'sentences that fail alone: {which or "none - only the batch fails"}',
                 {'lang': lang, 'format': f, 'batch': rc.enc_batch(batch), 'kind': kind})
            continue
        miss = rc.records(f, r[1], batch)
        if miss:
            fail('records_missing', f'[{lang}] to_string(format={f!r}) returned, but not one record per tree of every sentence: {miss}',
                 {'lang': lang, 'format': f, 'batch': rc.enc_batch(batch), 'kind': kind})
    # the same result objects rendered in one format after another (what a caller that writes several files does): still no error
    import random as _r
    rr = _r.Random(hash((lang, kind, len(batch))) & 0xffffffff)
    if len(fs) >= 2:
        for _ in range(2):
            f1, f2 = rr.sample(fs, 2)
            b = rc.fresh(batch)
            r1 = rc.render(lang, b, f1)
            r2 = rc.render(lang, b, f2)
            if r1[0] == 'ok' and res.get(f2, ('ok',))[0] == 'ok' and r2[0] != 'ok':
                fail('render_raises_after_other_format', f'[{lang}] to_string(format={f2!r}) raises {r2[1:]!r} on results that were rendered as {f1!r} before '
                     f'(it succeeds on a fresh copy); batch of {len(batch)} sentence(s) ({kind})',
                     {'lang': lang, 'format': f2, 'first_format': f1, 'batch': rc.enc_batch(batch), 'kind': kind})
    return res


def run(ctx):
    rng = ctx.rng
    ctx.build(['P_C19.vo'], gens=('tables', 'render'))
    ctx.theorems('P_C19')
    formats, cli = rc.cli_formats()
    cases, descr = [], []

    def add_case(lang, kind, batch, res):
        cases.append(f'Chk19 {lit(lang)} {rc.gbatch(batch)} [' + ';'.join(f'({lit(f)},{rc.robs(r)})' for f, r in res.items()) + ']')
        descr.append((lang, kind, {f: (r[0] if r[0] == 'ok' else r) for f, r in res.items() if r[0] != 'ok'} or 'all ok'))

    for lang in ('en', 'ja'):
        fs = formats[lang]
        ctx.stats[f'formats:{lang}'] = fs
        ctx.stats[f'not_run:{lang}'] = [f for f in cli[lang] if f not in fs]
        # vocabulary tie: what the real rule functions emit must be inside what the translator read from the grammar source
        binl, unl = vocab(lang)
        eb, eu = rc.emitted_labels(lang, limit=None if not ctx.quick else 1500, rng=rng)
        ctx.stats[f'labels_emitted:{lang}'] = {'binary': sorted(map(list, eb)), 'unary': sorted(map(list, eu))}
        outside = [(p, w) for p, w in list(eb.items()) if p not in binl] + [(p, w) for p, w in list(eu.items()) if p not in unl]
        ctx.obligation(f'vocabulary:{lang}: every label pair the rule functions emit on the shipped lexicon is in the translated vocabulary',
                       not outside, f'emitted but not in the generated vocabulary: {outside[:5]}')
        never = [p for p in binl if p not in eb] + [p for p in unl if p not in eu]
        ctx.stats[f'labels_in_vocabulary_not_emitted_on_shipped_data:{lang}'] = [list(p) for p in never]
        for kind, batch in in_domain_batches(ctx, lang):
            res = check_batch(lang, fs, batch, ctx.fail, kind)
            add_case(lang, kind, batch, res)
            sig = rc.batch_sig(batch)
            for f in fs:
                ctx.case((lang, f, sig), nontrivial=len(batch) > 1 or not batch[0][0].tree.is_leaf)
            ctx.count(f'domain:{lang}:{kind.split(":")[0]}')
            if len(ctx.samples) < 2 and kind.startswith('label:unary'):
                ctx.sample({'lang': lang, 'kind': kind, 'sentences': len(batch), 'prolog': res.get('prolog', ('', ''))[1][-300:]})
        for kind, batch in malformed_batches(ctx, lang):
            res = {f: rc.render(lang, rc.fresh(batch), f) for f in fs}
            add_case(lang, kind, batch, res)
            sig = rc.batch_sig(batch)
            for f, r in res.items():
                ctx.case((lang, f, sig, 'malformed'), nontrivial=True)
                ctx.count(f'malformed:{lang}:{kind.split(":")[0]}:{r[0]}')
            if len(ctx.samples) < 5 and any(r[0] != 'ok' for r in res.values()):
                ctx.sample({'lang': lang, 'kind': kind, 'outcomes': {f: (r[0] if r[0] == 'ok' else list(r)) for f, r in res.items()}})
    bad = ctx.coq_cases('outcome', PRE, cases, chunk=40, describe=lambda i: descr[i])
    for i in (bad or [])[:10]:
        ctx.notes.append(f'model/implementation disagreement on the outcome of rendering: {descr[i]!r}')
    ctx.trusted += ['hand-written model coq/Render.v (interprets the generated tables; tied by the correspondence cases of this run)',
                    'translator translate/gen_render.py: strict-key / label-lookup analysis of depccg/printer/*.py and depccg/tree.py, label vocabularies of '
                    'grammar/en.py and grammar/ja.py (CombinatorResult literals, _unary_rule_symbol returns), --format choices of argparse.py, dispatch walk of to_string',
                    'translator translate/gen_tables.py (prolog._op_mapping, prolog._ja_combinators); agreement of the two translators is theorem C19_prolog_lookups',
                    'harness/render_common.py render(): a KeyError raised in depccg/types.py, depccg/tree.py or on a source line mentioning `token` counts as a missing '
                    'token key, any other KeyError raised in depccg/printer as a missing table entry']
    return ctx.finish(
        level='proof',
        rule='cases = to_string(batch, format=f) for every offline format f of the language: batches with every (op_string, op_symbol) pair of the '
             'translated grammar vocabulary on a binary / unary node above licensed material (full and bare tokens), the failure placeholder alone / '
             'first / last / between parsed sentences, random licensed derivations over the shipped lexicon and unary table (n-best lists), chains of 150-249 binary steps (the deepest derivations below --max-length), and a '
             'malformed stream (labels of the other grammar, unk, tokens without word, arbitrary trees) on which only model and implementation are '
             'compared; non-trivial = more than one sentence or an inner node; distinct by (language, format, batch)',
        assumptions=['formats jigg_xml_ccg2lambda and ccg2lambda enter depccg.semantics (nltk) and cannot run here: listed in unmodelled_formats, not claimed',
                     'domain of C19_render_total: every leaf token has the key word (the parser copies the caller\'s tokens; the placeholder has only word), leaves '
                     'carry the default label of Tree.make_terminal, inner nodes a label pair of the language\'s rule functions',
                     'English nodes labelled conj are given a functor category in the generated cases, as both conjunction rules produce (prolog reads node.cat.left '
                     'there); the model does not cover category-shape preconditions of a printer',
                     'token values are strings acceptable as XML attribute values (lxml rejects control characters)',
                     'json_of(tree, full=True) reads a non-existent attribute; `full` is not reachable from to_string and is ignored'])


def replay(data):
    bad = 0
    formats, _ = rc.cli_formats()
    for f in data.get('failures', []):
        d = f['data']
        msgs = []
        if 'first_format' in d:
            b = rc.dec_batch(d['batch'])
            r1, r2 = rc.render(d['lang'], b, d['first_format']), rc.render(d['lang'], b, d['format'])
            if r2[0] != 'ok':
                msgs.append(('render_raises_after_other_format', repr(r2[1:])))
        else:
            check_batch(d['lang'], [d['format']], rc.dec_batch(d['batch']), lambda kind, desc, dd: msgs.append((kind, desc)), d.get('kind', ''))
        print(('STILL FAILS: ' if msgs else 'no longer fails: ') + f['desc'][:300])
        bad += bool(msgs)
    if not data.get('failures'):
        print('replay names broken obligations only:', [b if isinstance(b, str) else b.get('name') for b in data.get('broken_obligations', [])])
    return 1 if bad else 0
