"""C16 - A* family; see astar_checks.py"""
import astar_checks, glue_checks

RULES = {
    '01': 'random sentences (n<=4 quick / 5 thorough) over random head-uniform table grammars with acyclic unary rules and over the real en/ja rule functions with a small lexicon, dyadic score grid, penalties {0,1/8,1/4}, pruning, beta, root sets, step budgets; non-trivial = the search popped more items than the sentence has tokens; distinct by (matrices, roots, configuration)',
}


def run(ctx):
    astar_checks.run_family(ctx, 'c16', 'P_C16')
    glue_checks.run_glue(ctx, 'c16', 60 if ctx.quick else 450)
    ctx.trusted += ['implementation-level model coq/AStarImpl.v (tied to parsing.h by trace validation: every pop, its in/out score, span, head, the status, the goal derivations and scores of each run are accepted by the model inside coqc)',
                    'harness/driver.cpp + depccg_verif_rt.py (ctypes bridge, compiled against the repository header on every run) and the DEPCCG_VERIF pop hook',
                    'float32 arithmetic is exact on the dyadic score grid used (scores k/8, |k| small); rounding on arbitrary reals is not modelled']
    return ctx.finish(level='proof', rule=RULES['01'],
                      assumptions=['exact arithmetic: theorems are about integer-scaled scores; float32 rounding of arbitrary log-probabilities is outside the model',
                                   'libstdc++ tie-breaking among equal priorities is abstracted: theorems hold for every maximal-priority pop, the hook supplies the actual order',
                                   'theorems with dedup (1-best) need a head-uniform grammar and unary penalty >= 0'])


def replay(data):
    r1 = astar_checks.replay(data, 'c16')
    r2, _ = glue_checks.replay(data, 'c16')
    return 1 if (r1 or r2) else 0
