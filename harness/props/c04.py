"""C04 - Japanese combinatory rules are sound; unary labels follow the shape.   (+ the Japanese half of C14)

correspondence T.C: the GENERATED coq/GenJa.v (apply_binary_rules / apply_unary_rules, translated from
depccg/grammar/ja.py on this run) against the real depccg.grammar.ja functions - exact comparison of result lists
(category, op_string, op_symbol, head flag; exceptions as a small enum) inside coqc.
oracle (independent of the model and of depccg.unification): justified_ja(x, y, result) and unary_label(x) below
re-state the schemata of coq/JaSpec.v on plain Category values and are run on every result the real code returns.
"""
import collections, itertools, multiprocessing, os, random
import gen, gram_corr
from gram_corr import ERR
from gallina import lit, gcat, gbool, glist
from depccg.cat import Category, Atom, Functor, TernaryFeature, UnaryFeature
from depccg.grammar import ja

R = collections.namedtuple('R', 'cat op_string op_symbol head_is_left')
NPROC = int(os.environ.get('VERIF_NPROC', '16'))


class Pool:
    """interns atoms and texts as Coq definitions so that case files stay small (numeral lists are slow to read)"""

    def __init__(self):
        self.atoms, self.texts, self.defs = {}, {}, []

    def text(self, s):
        if s not in self.texts:
            self.texts[s] = f'T{len(self.texts)}_'
            self.defs.append(f'Definition {self.texts[s]} : text := {lit(s)}.')
        return self.texts[s]

    def cat(self, c):
        if isinstance(c, Atom):
            k = gcat(c)
            if k not in self.atoms:
                self.atoms[k] = f'A{len(self.atoms)}_'
                self.defs.append(f'Definition {self.atoms[k]} : cat := {k}.')
            return self.atoms[k]
        return f'(Fun {self.cat(c.left)} {self.text(c.slash)} {self.cat(c.right)})'

    def res(self, r):
        return f'(mk {self.cat(r.cat)} {self.text(r.op_string)} {self.text(r.op_symbol)} {gbool(r.head_is_left)})'

    def result(self, out):
        kind, v = out
        return '(Ok_ ' + glist(v, self.res) + ')' if kind == 'ok' else f'(Err {v})'

    def table(self, cats, name='tbl'):
        body = ';\n'.join(self.cat(c) for c in cats)
        self.defs.append(f'Definition {name} : list cat := [{body}].\nDefinition g_{name} (i : nat) : cat := nth i {name} (Atom [] FNone).')

    def utable(self, tbl):
        return '[' + ';'.join(f'({self.cat(k)},{glist(v, self.cat)})' for k, v in tbl.items()) + ']'

    def preamble(self):
        return gram_corr.pre('GenJa') + '\n'.join(self.defs) + '\n'

# =================================================================================================
#  the oracle: the schemata of the property, on Category values
# =================================================================================================
SYMS = {'>': 'fa', '<': 'ba', '>B': 'fc', '<B1': 'bx', '<B2': 'bx', '<B3': 'bx', '<B4': 'bx', '>Bx1': 'fx', '>Bx2': 'fx', '>Bx3': 'fx', 'SSEQ': 'other'}


def is_fun(c):
    return isinstance(c, Functor)


def feats(c):
    return feats(c.left) + feats(c.right) if is_fun(c) else [c.feature]


def skel(c):
    return (skel(c.left), c.slash, skel(c.right)) if is_fun(c) else c.base


def triple(f):
    return tuple(f.items()) if isinstance(f, TernaryFeature) else None


def same(f, g):
    return type(f) is type(g) and (triple(f) == triple(g) if isinstance(f, TernaryFeature) else f.value == g.value)


def covers(f, g):
    a, b = triple(f), triple(g)
    if a is None or b is None:
        return False
    return [k for k, _ in a] == [k for k, _ in b] and all(v == w or v.startswith('X') for (_, v), (_, w) in zip(a, b))


def subsumes(f, g):
    return same(f, g) or covers(f, g)


def compatible(f, g):
    return subsumes(f, g) or subsumes(g, f)


def variable(f):
    a = triple(f)
    return a is not None and any(v.startswith('X') for _, v in a)


def matches(b, b2):
    return skel(b) == skel(b2) and all(compatible(f, g) for f, g in zip(feats(b), feats(b2)))


def cat_same(a, b):
    if is_fun(a) != is_fun(b):
        return False
    if is_fun(a):
        return a.slash == b.slash and cat_same(a.left, b.left) and cat_same(a.right, b.right)
    return a.base == b.base and same(a.feature, b.feature)


def binds_to(P, f, g):
    """a comparison of P binds the variable triple f to g: f is the side that subsumes the other (the side of x is asked first)"""
    return variable(f) and any((same(f, p) and same(g, q) and subsumes(f, g)) or
                               (same(g, p) and same(f, q) and not subsumes(g, f) and subsumes(f, g)) for p, q in P)


def bound(P, f):
    return variable(f) and any((same(f, p) and subsumes(f, q)) or (same(f, q) and not subsumes(p, f) and subsumes(f, p)) for p, q in P)


def inst(P, c, c2):
    """c2 is c where every variable triple some comparison binds is replaced, as a whole, by a triple it is bound to; the rest is kept"""
    if is_fun(c) != is_fun(c2):
        return False
    if is_fun(c):
        return c.slash == c2.slash and inst(P, c.left, c2.left) and inst(P, c.right, c2.right)
    if c.base != c2.base:
        return False
    f, g = c.feature, c2.feature
    return binds_to(P, f, g) if bound(P, f) else same(f, g)


def unwrap(c, n):
    """peel n outer arguments: (core, [(slash, arg), ...]) innermost first; None if c is not that deep"""
    outs = []
    for _ in range(n):
        if not is_fun(c):
            return None
        outs.append((c.slash, c.right))
        c = c.left
    return c, list(reversed(outs))


def inst_wrapped(P, a, c, outs, core_slash, res):
    """res == wrap(a' core_slash c', outs') with everything instantiated from P and the outer slashes kept"""
    u = unwrap(res, len(outs))
    if u is None:
        return False
    core, outs2 = u
    if not (is_fun(core) and core.slash == core_slash and inst(P, a, core.left) and inst(P, c, core.right)):
        return False
    return all(s == s2 and inst(P, d, d2) for (s, d), (s2, d2) in zip(outs, outs2))


FWD, BWD = ('/', '|'), ('\\', '|')
ROOTS = None


def roots():
    """the root categories, read from the source text of ja.py (not from the imported module's objects)"""
    global ROOTS
    if ROOTS is None:
        import ast, env
        mod = ast.parse(open(os.path.join(env.REPO, 'depccg', 'grammar', 'ja.py'), encoding='utf-8').read())
        for n in mod.body:
            if isinstance(n, ast.Assign) and getattr(n.targets[0], 'id', None) == '_possible_root_categories':
                ROOTS = [Category.parse(e.args[0].value) for e in n.value.elts]
    return ROOTS


def justified_ja(x, y, r):
    """None if result r of (x, y) is justified by the schema its symbol names, else the reason"""
    sym, res = r.op_symbol, r.cat
    if r.head_is_left is not False:
        return 'the head is not the right child'
    if sym not in SYMS:
        return f'unknown symbol {sym!r}'
    if r.op_string != SYMS[sym]:
        return f'rule name {r.op_string!r} does not go with symbol {sym!r}'
    if sym == 'SSEQ':
        if not (any(cat_same(x, c) for c in roots()) and any(cat_same(y, c) for c in roots())):
            return 'SSEQ between non-root categories'
        return None if cat_same(res, y) else 'SSEQ does not yield the right category'
    if sym in ('>', '>B', '>Bx1', '>Bx2', '>Bx3'):
        if not (is_fun(x) and x.slash in FWD):
            return 'primary functor is not a/b'
        a, b = x.left, x.right
        modifier, other = cat_same(a, b), y
        if sym == '>':
            n, b2, c, outs, core_slash = None, y, None, [], None
        else:
            n = {'>B': 0, '>Bx1': 0, '>Bx2': 1, '>Bx3': 2}[sym]
            u = unwrap(y, n)
            if u is None or not is_fun(u[0]):
                return 'secondary functor is too shallow'
            core, outs = u
            if core.slash not in (FWD if sym == '>B' else BWD):
                return 'secondary functor has the wrong slash'
            b2, c = core.left, core.right
            core_slash = '/' if sym in ('>B', '>Bx1') else '\\'
    else:   # '<', '<B1'..'<B4'
        if not (is_fun(y) and y.slash in BWD):
            return 'primary functor is not a\\b'
        a, b2 = y.left, y.right
        modifier, other = cat_same(a, b2), x
        if sym == '<':
            n, b, c, outs, core_slash = None, x, None, [], None
        else:
            n = int(sym[2]) - 1
            u = unwrap(x, n)
            if u is None or not is_fun(u[0]):
                return 'secondary functor is too shallow'
            core, outs = u
            if core.slash not in BWD:
                return 'secondary functor has the wrong slash'
            b, c = core.left, core.right
            core_slash = '\\'
    if not matches(b, b2):
        return f'{b} does not match {b2}'
    if modifier:
        return None if cat_same(res, other) else 'a modifier functor must return the other category unchanged'
    P = list(zip(feats(b), feats(b2)))
    if n is None:
        return None if inst(P, a, res) else f'result {res} is not {a} with feature variables instantiated from the inputs'
    if not inst_wrapped(P, a, c, outs, core_slash, res):
        return f'result {res} is not the composition the schema {sym} describes (core slash {core_slash!r}, outer slashes of the secondary functor kept)'
    return None


def unary_label(x):
    """the label the property gives a unary step on x; None = outside the domain (result atom without a triple)"""
    a = x
    while is_fun(a):
        a = a.left
    t = triple(a.feature)
    if t is None:
        return None
    sk = skel(x)
    if ('mod', 'adn') in t:
        return 'ADNext' if sk == 'S' else 'ADNint'
    if ('mod', 'adv') in t:
        if sk == ('S', '\\', 'NP'):
            return 'ADV1'
        if sk == (('S', '\\', 'NP'), '\\', 'NP'):
            return 'ADV2'
        return 'ADV0'
    return 'OTHER'


def ternary(c):
    return all(isinstance(f, TernaryFeature) for f in feats(c))


def ground(c):
    return not any(variable(f) for f in feats(c))


def expected_complete(x, y):
    """completeness (identical matched parts, no variable values): the (symbol, category) pairs that must be returned"""
    out = []
    if not (ternary(x) and ternary(y) and ground(x) and ground(y)):
        return out
    if is_fun(x) and x.slash == '/':
        a, b = x.left, x.right
        mod = cat_same(a, b)
        if cat_same(b, y):
            out.append(('>', y if mod else a))
        if is_fun(y) and cat_same(b, y.left):
            if y.slash == '/':
                out.append(('>B', y if mod else Functor(a, '/', y.right)))
            if y.slash == '\\':
                out.append(('>Bx1', y if mod else Functor(a, '/', y.right)))
    if is_fun(y) and y.slash == '\\':
        a, b = y.left, y.right
        mod = cat_same(a, b)
        if cat_same(b, x):
            out.append(('<', x if mod else a))
        if is_fun(x) and x.slash == '\\' and cat_same(b, x.left):
            out.append(('<B1', x if mod else Functor(a, '\\', x.right)))
    if any(cat_same(x, c) for c in roots()) and any(cat_same(y, c) for c in roots()):
        out.append(('SSEQ', y))
    return out


# =================================================================================================
#  running the implementation (in worker processes for the large streams)
# =================================================================================================
_CATS = []


def eval_pair(x, y, seen=None):
    try:
        rs = ja.apply_binary_rules(x, y) if seen is None else ja.apply_binary_rules(x, y, seen)
        return 'ok', [R(r.cat, r.op_string, r.op_symbol, r.head_is_left) for r in rs]
    except Exception as e:      # noqa
        return 'err', ERR.get(type(e).__name__, 'TypeErr')


def check_pair(x, y, out):
    """oracle on one evaluated pair: list of (kind, reason)"""
    probs = []
    kind, v = out
    in_domain = gen.wf_py(x) and gen.wf_py(y) and ternary(x) and ternary(y)
    if kind == 'err':
        if in_domain:
            probs.append(('binary_raises', f'apply_binary_rules raised {v}'))
        return probs
    for r in v:
        if in_domain:
            why = justified_ja(x, y, r)
            if why:
                probs.append(('unjustified', f'result {r.cat} [{r.op_symbol}]: {why}'))
        elif r.head_is_left is not False:
            probs.append(('unjustified', f'result {r.cat} [{r.op_symbol}]: the head is not the right child'))
    if in_domain:
        got = [(r.op_symbol, r.cat) for r in v]
        for sym, c in expected_complete(x, y):
            if not any(s == sym and cat_same(c, c2) for s, c2 in got):
                probs.append(('incomplete', f'schema {sym} applies (identical parts, no variables) and should give {c}; returned {[(s, str(c2)) for s, c2 in got]}'))
    return probs


def _chunk(args):
    lo, hi, pairs = args
    out = []
    for i, j in pairs[lo:hi]:
        x, y = _CATS[i], _CATS[j]
        o = eval_pair(x, y)
        probs = check_pair(x, y, o)
        if o[0] == 'ok' and not o[1] and not probs:
            out.append(None)       # the common case: nothing fires
        else:
            out.append((o, probs))
    return out


_PAIRS = []


def _chunk2(rng_):
    lo, hi = rng_
    return _chunk((lo, hi, _PAIRS))


def run_pairs(cats, pairs, parallel=True):
    """evaluate index pairs over `cats`; returns list of (out, problems)"""
    global _CATS, _PAIRS
    _CATS, _PAIRS = cats, pairs
    n = len(pairs)
    if not parallel or n < 4000:
        res = _chunk((0, n, pairs))
    else:
        step = max(500, n // (NPROC * 8))
        with multiprocessing.get_context('fork').Pool(NPROC) as pool:
            parts = pool.map(_chunk2, [(lo, min(n, lo + step)) for lo in range(0, n, step)])
        res = [r for p in parts for r in p]
    return [(('ok', []), []) if r is None else r for r in res]


# =================================================================================================
#  generators
# =================================================================================================
S_FEATS = [(('mod', 'nm'), ('form', 'base'), ('fin', 'f')), (('mod', 'adn'), ('form', 'base'), ('fin', 'f')),
           (('mod', 'X1'), ('form', 'base'), ('fin', 'f')), (('mod', 'X1'), ('form', 'X2'), ('fin', 'f')), (('mod', 'X1'), ('form', 'X2'), ('fin', 'X3'))]
NP_FEATS = [(('case', 'ga'), ('mod', 'nm'), ('fin', 'f')), (('case', 'o'), ('mod', 'nm'), ('fin', 'f')),
            (('case', 'X1'), ('mod', 'nm'), ('fin', 'f')), (('case', 'nc'), ('mod', 'X1'), ('fin', 'X2')), (('case', 'X1'), ('mod', 'X2'), ('fin', 'X3'))]
BASE_FEATS = {'S': S_FEATS, 'NP': NP_FEATS}
SYN_ATOMS = [gen.mk_atom(b, f) for b, fs in BASE_FEATS.items() for f in fs]


def rand_sub(rng, depth=2, slashes=('/', '\\')):
    if depth == 0 or rng.random() < 0.45:
        return rng.choice(SYN_ATOMS)
    return Functor(rand_sub(rng, depth - 1, slashes), rng.choice(slashes), rand_sub(rng, depth - 1, slashes))


def vary(rng, c, p_gen=0.3, p_other=0.08):
    """a category with the skeleton of c: each triple kept, generalised (some values -> variables), specialised, or (rarely) replaced"""
    if is_fun(c):
        return Functor(vary(rng, c.left, p_gen, p_other), c.slash, vary(rng, c.right, p_gen, p_other))
    t = triple(c.feature)
    u = rng.random()
    if u < p_other:
        t = rng.choice(BASE_FEATS.get(c.base, [t]))
    elif u < p_other + p_gen:
        k = rng.randint(1, 3)
        idx = rng.sample(range(3), k)
        t = tuple((key, f'X{i + 1}' if i in idx else v) for i, (key, v) in enumerate(t))
    elif u < p_other + 2 * p_gen:
        consts = {'mod': ['nm', 'adn', 'adv'], 'form': ['base', 'cont'], 'fin': ['f', 't'], 'case': ['ga', 'o', 'nc']}
        t = tuple((key, rng.choice(consts.get(key, ['z'])) if v.startswith('X') else v) for key, v in t)
    return gen.mk_atom(c.base, t)


def clash_one(rng, c):
    """c with exactly ONE leaf triple replaced by another concrete triple of the same base (an incompatibility at one position of a possibly
    deep sub-category: whichever leaf it is, the patterns must not match)"""
    leaves = []

    def walk(x, path):
        if is_fun(x):
            walk(x.left, path + (0,)); walk(x.right, path + (1,))
        else:
            leaves.append(path)
    walk(c, ())
    target = rng.choice(leaves)

    def rebuild(x, path):
        if is_fun(x):
            return Functor(rebuild(x.left, path + (0,)), x.slash, rebuild(x.right, path + (1,)))
        if path != target:
            return x
        others = [f for f in BASE_FEATS.get(x.base, []) if f != triple(x.feature)]
        return gen.mk_atom(x.base, rng.choice(others)) if others else x
    return rebuild(c, ())


def wrap(core, outs):
    for s, d in outs:
        core = Functor(core, s, d)
    return core


PATTERNS = ['>', '<', '>B', '<B1', '<B2', '<B3', '<B4', '>Bx1', '>Bx2', '>Bx3']


def instantiate(rng, sym, modifier=False, bar=0.06):
    """an (x, y) pair built by instantiating the pattern pair of `sym` with random sub-categories"""
    def sl(default):
        return '|' if rng.random() < bar else default
    anysl = lambda: rng.choice(['/', '\\', '\\', '|'] if rng.random() < 0.15 else ['/', '\\'])   # noqa
    b = rand_sub(rng, rng.choice([0, 1, 1, 2, 3]))
    u_ = rng.random()
    b2 = clash_one(rng, b) if u_ < 0.2 else (vary(rng, b) if u_ < 0.85 else b)
    a = (b if sym[0] == '>' else b2) if modifier else rand_sub(rng, rng.choice([0, 1, 1, 2]))
    c = rand_sub(rng, rng.choice([0, 0, 1]))
    if sym == '>':
        return Functor(a, sl('/'), b), b2
    if sym == '<':
        return b, Functor(a, sl('\\'), b2)
    if sym == '>B':
        return Functor(a, sl('/'), b), Functor(b2, sl('/'), c)
    if sym.startswith('<B'):
        n = int(sym[2]) - 1
        outs = [(anysl(), rand_sub(rng, rng.choice([0, 0, 1]))) for _ in range(n)]
        return wrap(Functor(b, sl('\\'), c), outs), Functor(a, sl('\\'), b2)
    n = int(sym[3]) - 1
    outs = [(anysl(), rand_sub(rng, rng.choice([0, 0, 1]))) for _ in range(n)]
    return Functor(a, sl('/'), b), wrap(Functor(b2, sl('\\'), c), outs)


# =================================================================================================
#  transient objects: categories that are built, used as rule inputs and dropped, many times in one process
# =================================================================================================
def fresh(rng, c, p_gen=0.0, p_other=0.0):
    """a NEW object tree with the value of c (or, with p_gen/p_other > 0, a variation of it); categories outside the triple system are re-parsed"""
    if ternary(c):
        return vary(rng, c, p_gen, p_other)
    return Category.parse(str(c))


def partner_for(rng, carry):
    """an (x, y, shape) pair of short-lived objects in which `carry` (a rule result of the step before) is one of the two inputs: as the
    functor side of an application / composition, or as the argument of a new modifier (X/X, X\\X) or non-modifier functor"""
    loose = (lambda c: fresh(rng, c, 0.15, 0.03)) if rng.random() < 0.3 else (lambda c: fresh(rng, c))      # noqa
    sub = lambda: rand_sub(rng, rng.choice([0, 0, 1]))          # noqa
    if is_fun(carry) and rng.random() < 0.6:
        arg = loose(carry.right)
        u = rng.random()
        if carry.slash == '/':
            if u < 0.5:
                return carry, arg, 'result/arg'
            if u < 0.75:
                return carry, Functor(arg, '/', sub()), 'result/comp'
            return carry, Functor(arg, '\\', sub()), 'result/xcomp'
        if u < 0.6:
            return arg, carry, 'arg\\result'
        return Functor(arg, '\\', sub()), carry, 'comp\\result'
    b = loose(carry)
    a = fresh(rng, b) if rng.random() < 0.5 else rand_sub(rng, rng.choice([0, 1, 1, 2]))      # modifier / non-modifier
    if rng.random() < 0.5:
        return Functor(a, '/', b), carry, 'new/result'
    return carry, Functor(a, '\\', b), 'result\\new'


def transient_stream(sub_seed, n_steps, on_step):
    """rule application on TRANSIENT category objects.  Every step builds its two inputs anew - parsed from the text of a pair of
    seen_rules.ja (the pairs of the treebank's derivations: most of them combine), instantiated from a pattern pair (modifier and non-modifier
    functors alternate), or built around a result of the step before (categories reachable by rule application used as inputs of the
    next step, as a client re-deriving a derivation does) - applies the rules, hands everything to on_step(step, shape, x, y, out, problems) and
    drops inputs and results; only one result is carried into the next step.  A result is a function of the two category VALUES: the same
    oracle as for the long-lived inventories must accept every step, whatever objects lived (and died) before it.
    All randomness comes from sub_seed, so that a replay can run the same sequence again."""
    rng = random.Random(sub_seed)
    listed = gen.model_file('seen_rules.ja.jsonnet')
    carry = None
    for step in range(n_steps):
        u = rng.random()
        if carry is not None and u < 0.5:
            x, y, shape = partner_for(rng, carry)
        elif u < 0.75:
            a, b = rng.choice(listed)
            x, y, shape = Category.parse(a), Category.parse(b), 'parsed'
        else:
            sym = rng.choice(PATTERNS)
            mod = rng.random() < 0.5
            x, y = instantiate(rng, sym, modifier=mod)
            shape = f'instantiated:{"modifier" if mod else "non-modifier"}'
        out = eval_pair(x, y)
        probs = check_pair(x, y, out)
        on_step(step, shape, x, y, out, probs)
        carry = None
        if out[0] == 'ok' and out[1] and rng.random() < 0.85:
            carry = rng.choice(out[1]).cat
            if gen.size(carry) > 12:
                carry = None
        del x, y, out, probs


# =================================================================================================
def run(ctx):
    rng = ctx.rng
    quick = ctx.quick
    ctx.build(['P_C04.vo', 'P_C14_ja.vo'], gens=('tables', 'grammar_ja', 'jaroots'))      # ja.py only
    ctx.theorems('P_C04')
    ctx.theorems('P_C14_ja')

    fired = collections.Counter()
    nonmod = collections.Counter()
    state = {'reported': 0}

    def record(x, y, out, probs, stream, extra=None, note=''):
        nt = out[0] == 'ok' and bool(out[1])
        ctx.case(('b', str(x), str(y)), nontrivial=nt)
        if out[0] == 'ok':
            for r in out[1]:
                fired[r.op_symbol] += 1
                if not (cat_same(r.cat, x) or cat_same(r.cat, y)):
                    nonmod[r.op_symbol] += 1
        else:
            ctx.count(f'binary:{stream}:err:{out[1]}')
        for kind, why in probs:
            ctx.fail(kind, f'ja.apply_binary_rules({str(x)!r}, {str(y)!r}){note}: {why}', dict({'x': str(x), 'y': str(y), 'stream': stream}, **(extra or {})))

    def used_table(pool, cats, idx_pairs):
        """a table holding only the categories the given index pairs use; returns old index -> table position"""
        used = sorted({i for p in idx_pairs for i in p})
        pos = {i: k for k, i in enumerate(used)}
        pool.table([cats[i] for i in used])
        return pos

    def bin_case(pool, xt, yt, out, seen='None'):
        return f'BinJa {xt} {yt} {seen} {pool.result(out)}'

    # ---- 1. the shipped inventory: every ordered pair is evaluated and checked by the oracle --------------------
    inv = [Category.parse(s) for s in gen.inventory('ja')]
    allp = [(i, j) for i in range(len(inv)) for j in range(len(inv))]
    if quick:
        allp = rng.sample(allp, 70000)
    res = run_pairs(inv, allp)
    firing = [k for k, (o, _) in enumerate(res) if o[0] != 'ok' or o[1]]
    for (i, j), (o, probs) in zip(allp, res):
        record(inv[i], inv[j], o, probs, 'inventory')
    ctx.stats['inventory_pairs'] = len(allp)
    ctx.stats['inventory_firing_pairs'] = len(firing)
    if quick:
        fs = set(firing)
        sel = rng.sample(firing, min(len(firing), 1200)) + rng.sample([k for k in range(len(allp)) if k not in fs], 600)
    else:
        sel = list(range(len(allp)))
    pool = Pool()
    pool.table(inv)
    cases = [bin_case(pool, f'(g_tbl {allp[k][0]})', f'(g_tbl {allp[k][1]})', res[k][0]) for k in sel]
    ctx.coq_cases('binary_inventory', pool.preamble(), cases, chunk=300 if quick else 3000,
                  describe=lambda i: (str(inv[allp[sel[i]][0]]), str(inv[allp[sel[i]][1]]), gram_corr.sig(res[sel[i]][0])))
    ctx.sample({'binary': (str(inv[allp[firing[0]][0]]), str(inv[allp[firing[0]][1]]), gram_corr.sig(res[firing[0]][0]))} if firing else {})

    # ---- 1b. categories reachable by rule application: results of the inventory pairs, combined with the inventory again ----
    reach, rseen = [], {str(c) for c in inv}
    for o, _ in res:
        if o[0] == 'ok':
            for r in o[1]:
                if str(r.cat) not in rseen:
                    rseen.add(str(r.cat))
                    reach.append(r.cat)
    ctx.stats['reachable_new_categories'] = len(reach)
    rc = inv + reach
    nreach = 15000 if quick else 150000
    rp = []
    for _ in range(nreach):
        i, j = len(inv) + rng.randrange(len(reach)), rng.randrange(len(rc))
        rp.append((i, j) if rng.random() < 0.5 else (j, i))
    resr = run_pairs(rc, rp)
    for (i, j), (o, probs) in zip(rp, resr):
        record(rc[i], rc[j], o, probs, 'reachable')
    firer = [k for k, (o, _) in enumerate(resr) if o[0] != 'ok' or o[1]]
    selr = rng.sample(firer, min(len(firer), 500 if quick else 12000)) + rng.sample(range(len(rp)), 100 if quick else 3000)
    pool = Pool()
    pos = used_table(pool, rc, [rp[k] for k in selr])
    cases = [bin_case(pool, f'(g_tbl {pos[rp[k][0]]})', f'(g_tbl {pos[rp[k][1]]})', resr[k][0]) for k in selr]
    ctx.coq_cases('binary_reachable', pool.preamble(), cases, chunk=300 if quick else 2000,
                  describe=lambda i: (str(rc[rp[selr[i]][0]]), str(rc[rp[selr[i]][1]]), gram_corr.sig(resr[selr[i]][0])))

    # ---- 2. the categories of seen_rules.ja: the listed pairs, random pairs, and the seen-rule gate (C14) ---------
    seen_pairs = [(Category.parse(a), Category.parse(b)) for a, b in gen.model_file('seen_rules.ja.jsonnet')]
    scats, sidx = [], {}
    for a, b in seen_pairs:
        for c in (a, b):
            if str(c) not in sidx:
                sidx[str(c)] = len(scats)
                scats.append(c)
    listed = [(sidx[str(a)], sidx[str(b)]) for a, b in seen_pairs]
    nrand = 10000 if quick else 200000
    randp = [(rng.randrange(len(scats)), rng.randrange(len(scats))) for _ in range(nrand)]
    sp = listed + randp
    res2 = run_pairs(scats, sp)
    for (i, j), (o, probs) in zip(sp, res2):
        record(scats[i], scats[j], o, probs, 'seen_rules')
    fire2 = [k for k in range(len(listed), len(sp)) if res2[k][0][0] != 'ok' or res2[k][0][1]]
    ctx.stats['seen_rule_categories'] = len(scats)
    ctx.stats['seen_rule_pairs_listed_firing'] = sum(1 for k in range(len(listed)) if res2[k][0][1])
    sel2 = (rng.sample(range(len(listed)), 700) + rng.sample(fire2, min(len(fire2), 300)) + rng.sample(range(len(listed), len(sp)), 200)) if quick \
        else (list(range(len(listed))) + fire2 + rng.sample(range(len(listed), len(sp)), 8000))
    pool = Pool()
    pool.table(scats)
    cases = [bin_case(pool, f'(g_tbl {sp[k][0]})', f'(g_tbl {sp[k][1]})', res2[k][0]) for k in sel2]
    # the seen-rule gate: small seen sets that do / do not contain the raw pair
    gate_descr = []
    for _ in range(150 if quick else 1500):
        k = rng.randrange(len(listed))
        i, j = sp[k]
        others = [listed[rng.randrange(len(listed))] for _ in range(rng.randint(0, 3))]
        member = rng.random() < 0.5
        sset = others + ([(i, j)] if member else [])
        rng.shuffle(sset)
        if not member:
            sset = [p for p in sset if p != (i, j)]
        pyseen = {(scats[a], scats[b]) for a, b in sset}
        out = eval_pair(scats[i], scats[j], pyseen)
        ctx.case(('seen', i, j, tuple(sset)), nontrivial=member)
        # filters only remove: exactly the unrestricted result when the raw pair is in the set, else nothing
        want = res2[k][0] if (i, j) in sset else ('ok', [])
        if gram_corr.sig(out) != gram_corr.sig(want):
            ctx.fail('seen_filter', f'apply_binary_rules({str(scats[i])!r}, {str(scats[j])!r}, seen) with the pair {"in" if (i, j) in sset else "not in"} the set '
                     f'returned {gram_corr.sig(out)}', {'x': str(scats[i]), 'y': str(scats[j]), 'member': (i, j) in sset, 'stream': 'seen_gate'})
        gs = '(Some [' + ';'.join(f'(g_tbl {a}, g_tbl {b})' for a, b in sset) + '])'
        cases.append(bin_case(pool, f'(g_tbl {i})', f'(g_tbl {j})', out, gs))
        gate_descr.append((str(scats[i]), str(scats[j]), (i, j) in sset))
    ctx.coq_cases('binary_seen_rules', pool.preamble(), cases, chunk=300 if quick else 2000)

    # ---- 3. synthetic categories of <= 3 atoms over two bases x triples with 0-3 variable values -------------------
    syn = gen.enum_cats(SYN_ATOMS, ['/', '\\'], 3)
    by_skel = collections.defaultdict(list)
    for k, c in enumerate(syn):
        by_skel[skel(c)].append(k)
    funs = [k for k, c in enumerate(syn) if is_fun(c)]
    pairs3 = []
    n3 = 20000 if quick else 300000
    for _ in range(n3):
        u = rng.random()
        if u < 0.3:
            pairs3.append((rng.randrange(len(syn)), rng.randrange(len(syn))))
        elif u < 0.65:     # x = a/b (or a\b), y with the skeleton of b
            i = rng.choice(funs)
            pairs3.append((i, rng.choice(by_skel[skel(syn[i].right)])))
        else:              # y = a\b, x with the skeleton of b
            j = rng.choice(funs)
            pairs3.append((rng.choice(by_skel[skel(syn[j].right)]), j))
    res3 = run_pairs(syn, pairs3)
    for (i, j), (o, probs) in zip(pairs3, res3):
        record(syn[i], syn[j], o, probs, 'synthetic')
    fire3 = [k for k in range(len(pairs3)) if res3[k][0][0] != 'ok' or res3[k][0][1]]
    ctx.stats['synthetic_categories'] = len(syn)
    ctx.stats['synthetic_firing_pairs'] = len(fire3)
    sel3 = rng.sample(fire3, min(len(fire3), 900 if quick else 20000)) + rng.sample(range(len(pairs3)), 300 if quick else 5000)
    pool = Pool()
    cases3 = [bin_case(pool, pool.cat(syn[pairs3[k][0]]), pool.cat(syn[pairs3[k][1]]), res3[k][0]) for k in sel3]
    descr3 = [(str(syn[pairs3[k][0]]), str(syn[pairs3[k][1]])) for k in sel3]

    # ---- 4. instances of every pattern pair, modifier and NON-modifier, deeper sub-categories, outer slashes that differ ----
    inst_cats, inst_pairs = [], []
    n4 = (220 if quick else 3000)
    for sym in PATTERNS:
        for t in range(n4):
            x, y = instantiate(rng, sym, modifier=(t % 8 == 0))
            inst_cats += [x, y]
            inst_pairs.append((len(inst_cats) - 2, len(inst_cats) - 1))
    # mixed feature systems and feature-less atoms: error agreement (outside the domain of the oracle)
    odd = [Category.parse(s) for s in ['S/NP', 'NP', 'S[dcl]/NP[nb]', 'NP[nb]', 'S[mod=nm,form=base,fin=f]/NP', 'NP[case=ga,mod=nm,fin=f]', 'NP[X]',
                                        'S[mod=nm,form=base,fin=f]/NP[case=ga,mod=nm,fin=f]', 'S[mod=nm,form=base,fin=f]\\NP[nb]', '*START*', '*END*',
                                        'NP[case=ga,mod=nm,fin=f]\\NP', 'S|NP[case=ga,mod=nm,fin=f]', '(S[X]\\NP)|NP[conj]']]
    base4 = len(inst_cats)
    inst_cats += odd
    for i in range(len(odd)):
        for j in range(len(odd)):
            inst_pairs.append((base4 + i, base4 + j))
    res4 = run_pairs(inst_cats, inst_pairs)
    hit = collections.Counter()
    for k, ((i, j), (o, probs)) in enumerate(zip(inst_pairs, res4)):
        record(inst_cats[i], inst_cats[j], o, probs, 'instantiated')
        if k < len(PATTERNS) * n4 and o[0] == 'ok':
            sym = PATTERNS[k // n4]
            for r in o[1]:
                if r.op_symbol == sym and not (cat_same(r.cat, inst_cats[i]) or cat_same(r.cat, inst_cats[j])):
                    hit[sym] += 1
    for sym in PATTERNS:
        ctx.stats[f'instantiated_nonmodifier_results:{sym}'] = hit[sym]
        if hit[sym] == 0:
            ctx.obligation(f'generator reaches a non-modifier result of {sym}', False, 'no instance produced')
    cases4 = [bin_case(pool, pool.cat(inst_cats[i]), pool.cat(inst_cats[j]), o) for (i, j), (o, _) in zip(inst_pairs, res4)]
    descr4 = [(str(inst_cats[i]), str(inst_cats[j])) for i, j in inst_pairs]
    allc, alld = cases3 + cases4, descr3 + descr4
    ctx.coq_cases('binary_synthetic_instantiated', pool.preamble(), allc, chunk=300 if quick else 1500, describe=lambda i: alld[i])
    k0 = next((k for k, (o, _) in enumerate(res4) if o[0] == 'ok' and any(r.op_symbol in ('<B3', '>Bx2') for r in o[1])), None)
    if k0 is not None:
        ctx.sample({'binary_instantiated': (descr4[k0], gram_corr.sig(res4[k0][0]))})
    # ---- 4b. transient objects: the same rules on categories that are built, used and dropped (parsed text, pattern instances, results of the step before) ----
    sub_seed = rng.getrandbits(48)
    n_tr = 8000 if quick else 80000
    tpool, tcases, tdescr = Pool(), [], []
    tstat = collections.Counter()
    pick = random.Random(sub_seed + 1)

    def on_step(step, shape, x, y, out, probs):
        tstat['shape:' + shape] += 1
        if out[0] == 'ok':
            for r in out[1]:
                tstat['results_passed_through' if (cat_same(r.cat, x) or cat_same(r.cat, y)) else 'results_rebuilt'] += 1
        record(x, y, out, probs, 'transient', extra={'sub_seed': sub_seed, 'n_steps': n_tr, 'step': step, 'shape': shape},
               note=f' on short-lived objects (step {step} of the transient stream, input shape {shape!r}; earlier steps built and dropped other categories)')
        if len(tcases) < 450 and pick.random() < 400 / n_tr:
            tcases.append(bin_case(tpool, tpool.cat(x), tpool.cat(y), out))          # serialised now: nothing of this step stays alive
            tdescr.append((step, shape, str(x), str(y), gram_corr.sig(out)))
    transient_stream(sub_seed, n_tr, on_step)
    ctx.stats['transient_steps'] = n_tr
    for k_, v_ in sorted(tstat.items()):
        ctx.stats[f'transient:{k_}'] = v_
    if not (tstat['results_passed_through'] and tstat['results_rebuilt']):
        ctx.obligation('transient stream mixes modifier (input passed through) and non-modifier (result rebuilt) steps', False, str(dict(tstat)))
    ctx.coq_cases('binary_transient', tpool.preamble(), tcases, chunk=300 if quick else 1500, describe=lambda i: tdescr[i])

    for s, n in sorted(fired.items()):
        ctx.stats[f'results:{s}'] = n
        ctx.stats[f'results_nonmodifier:{s}'] = nonmod[s]

    # ---- 5. unary steps ------------------------------------------------------------------------------------------
    _, _, table = gen.grammar('ja')
    ucases, udescr = [], []
    upool = Pool()
    upool.defs.append(f'Definition shipped_ : unary_table := {upool.utable(table)}.')
    labels_seen = collections.Counter()

    def un_case(x, tbl, kind):
        try:
            rs = ja.apply_unary_rules(x, tbl)
            out = ('ok', [R(r.cat, r.op_string, r.op_symbol, r.head_is_left) for r in rs])
        except Exception as e:   # noqa
            out = ('err', ERR.get(type(e).__name__, 'TypeErr'))
        targets = tbl.get(x)
        ctx.case(('u', str(x), tuple((str(k), tuple(map(str, v))) for k, v in tbl.items()) if kind != 'shipped' else 'shipped'), nontrivial=bool(targets))
        lab = unary_label(x)
        data = {'x': str(x), 'table': [[str(k), [str(c) for c in v]] for k, v in tbl.items()] if kind != 'shipped' else 'unary_rules.ja', 'stream': 'unary:' + kind}
        if out[0] == 'ok':
            got = out[1]
            if not targets:
                if got:
                    ctx.fail('unary_exact', f'apply_unary_rules({str(x)!r}) returned {len(got)} results for a category without an entry', data)
            else:
                if len(got) != len(targets) or not all(cat_same(r.cat, t) for r, t in zip(got, targets)):
                    ctx.fail('unary_exact', f'apply_unary_rules({str(x)!r}) returned {[str(r.cat) for r in got]}, configured {[str(t) for t in targets]}', data)
                if lab is not None:
                    labels_seen[lab] += 1
                    for r in got:
                        if r.op_string != lab or r.op_symbol != lab:
                            ctx.fail('unary_label', f'unary step on {str(x)!r} is labelled {r.op_string!r}/{r.op_symbol!r}; its shape calls for {lab!r}', data)
                            break
        elif lab is not None and gen.wf_py(x):
            ctx.fail('unary_raises', f'apply_unary_rules({str(x)!r}) raised {out[1]}', data)
        else:
            ctx.count(f'unary:{kind}:err:{out[1]}')
        ucases.append(f'UnJa {upool.cat(x)} {"shipped_" if kind == "shipped" else upool.utable(tbl)} {upool.result(out)}')
        udescr.append((str(x), kind, gram_corr.sig(out)))

    for x in table:                               # every left-hand side of unary_rules.ja
        un_case(x, table, 'shipped')
    for x in rng.sample(inv, 40 if quick else len(inv)):    # mostly categories without an entry
        un_case(x, table, 'shipped')
    adn, adv, nm = ('mod', 'adn'), ('mod', 'adv'), ('mod', 'nm')
    S = lambda m, form='base': gen.mk_atom('S', (m, ('form', form), ('fin', 'f')))   # noqa
    NPc = gen.mk_atom('NP', (('case', 'ga'), nm, ('fin', 'f')))
    NPm = lambda m: gen.mk_atom('NP', (('case', 'nc'), m, ('fin', 'f')))           # noqa
    F = Functor
    tgt = [Category.parse('NP[case=nc,mod=X1,fin=X2]/NP[case=nc,mod=X1,fin=X2]'), Category.parse('S[mod=X1,form=X2,fin=X3]/S[mod=X1,form=X2,fin=X3]')]
    lhs = []
    for m in (adn, adv, nm, ('mod', 'X1')):
        lhs += [S(m), F(S(m), '\\', NPc), F(F(S(m), '\\', NPc), '\\', NPc), F(F(F(S(m), '\\', NPc), '\\', NPc), '\\', NPc),
                F(S(m), '/', NPc), F(S(m), '|', NPc), F(F(S(m), '\\', NPc), '/', NPc), F(F(S(m), '/', NPc), '\\', NPc), F(S(m), '\\', S(nm)),
                NPm(m), F(NPm(m), '\\', NPc), F(F(NPm(m), '\\', NPc), '\\', NPc), F(S(m), '\\', F(NPc, '\\', NPc))]
    lhs += [gen.mk_atom('S', (('form', 'base'), adn, ('fin', 'f'))), gen.mk_atom('S', (('form', 'base'), ('fin', 'f'), adv)),    # 'mod' at another position
            gen.mk_atom('S', (('mod', 'adn'), ('mod', 'adv'), ('fin', 'f'))), gen.mk_atom('S', (('mod', 'adv'), ('mod', 'adn'), ('fin', 'f'))),
            gen.mk_atom('S', (('adn', 'mod'), ('form', 'base'), ('fin', 'f'))), gen.mk_atom('N', (adn, ('form', 'base'), ('fin', 'f')))]
    unary_feat = [Category.parse(s) for s in ['S[dcl]', 'NP', 'S[dcl]\\NP', 'S\\NP[case=ga,mod=nm,fin=f]', 'NP[nb]/N', 'S[adn]']]
    for x in lhs + unary_feat:
        for targets in ([tgt[0]], [tgt[1], tgt[0]], [tgt[0], tgt[0]], []):
            other = rng.choice(lhs)
            tbl = {}
            if rng.random() < 0.5 and not cat_same(other, x):
                tbl[other] = [tgt[1]]
            tbl[x] = list(targets)
            un_case(x, tbl, 'synthetic' if x in lhs else 'unary-feature')
        un_case(x, {rng.choice(lhs + [tgt[0]]): [tgt[0]]}, 'no-entry')
    if not quick:
        for _ in range(3000):
            x = vary(rng, rand_sub(rng, 3, ('/', '\\', '\\')), 0.2, 0.3)
            m = rng.choice([adn, adv, nm])
            def put(c):
                if is_fun(c):
                    return Functor(put(c.left), c.slash, c.right)
                return S(m) if c.base == 'S' else NPm(m)
            x2 = put(x) if rng.random() < 0.8 else x
            un_case(x2, {x2: [tgt[rng.randrange(2)] for _ in range(rng.randint(1, 3))]}, 'random')
    for lab in ('ADNext', 'ADNint', 'ADV0', 'ADV1', 'ADV2', 'OTHER'):
        ctx.stats[f'unary_label:{lab}'] = labels_seen[lab]
        if labels_seen[lab] == 0:
            ctx.obligation(f'generator reaches unary label {lab}', False, 'the oracle never expected this label')
    ctx.coq_cases('unary', upool.preamble(), ucases, chunk=300, describe=lambda i: udescr[i])
    ctx.sample({'unary': udescr[0]})

    ctx.trusted += ['translator translate/gen_grammar.py (depccg/grammar/ja.py -> coq/GenJa.v) and translate/gen_jaroots.py (root categories), '
                    'tied on this run by the correspondence cases',
                    'hand-written models coq/Unify.v (class Unification, Feature.unifies), coq/GramPrims.v, coq/Cat.v (tied by the same cases)',
                    'coq/JaSpec.v is the formal reading of the property text (schemata per symbol, label function)']
    return ctx.finish(
        level='proof',
        rule='binary: every ordered pair of the 415 categories of targets.ja, pairs of the categories those pairs produce (one round of rule application) with the inventory, the pairs of seen_rules.ja plus random pairs of its 878 categories '
             '(also through the seen-rule gate with small sets), enumerated categories of <= 3 atoms over S/NP x triples with 0-3 variable values '
             '(pairs drawn so that the argument has the skeleton the functor asks for), and random instances of each of the ten pattern pairs '
             '(modifier and non-modifier, outer slashes drawn independently), plus mixed-feature-system pairs for error agreement; '
             'a sequence of steps on TRANSIENT objects (inputs parsed from the text of seen_rules.ja pairs, pattern instances, and partners built around a result '
             'of the step before; everything is dropped after the step, modifier and non-modifier functors alternate), every step checked by the same oracle; '
             'unary: every left-hand side of unary_rules.ja, inventory categories without an entry, synthetic left-hand sides covering the six labels, '
             'keys whose result atom has a unary feature.  non-trivial = at least one rule fires / the category has an entry; distinct by input text',
        assumptions=['domain of the soundness theorems and of the oracle: well-formed categories all of whose atoms carry feature triples '
                     '(a triple meeting a feature-less or unary-featured atom of the same name raises AttributeError in Feature.unifies; outside the domain '
                     'only model/implementation agreement is checked)',
                     'an undirected slash | in an input category stands for either direction (it matches the / or \\ a schema asks for)',
                     'unary label domain: the result atom (arg 0) of the key carries a feature triple; otherwise Python raises AttributeError (Err AttrErr in the model) '
                     'as soon as the key has at least one target'])


def replay(data):
    """re-execute the failures of a replay file on the implementation"""
    bad = 0
    reruns = {}
    for f in data.get('failures', []):
        d = f['data']
        print(f"[{f['kind']}] {f['desc']}")
        if d.get('stream') == 'transient':
            # the answer depended on the objects that lived before: the whole sequence is run again from its own seed
            key = (d['sub_seed'], d['n_steps'])
            if key not in reruns:
                found = []

                def on_step(step, shape, x, y, out, probs):
                    if probs and len(found) < 3:
                        found.append((step, shape, str(x), str(y), gram_corr.sig(out), probs))
                transient_stream(d['sub_seed'], d['n_steps'], on_step)
                reruns[key] = found
                print(f'   transient stream (seed {d["sub_seed"]}, {d["n_steps"]} steps) run again:', found if found else 'every step justified')
                bad += bool(found)
            x, y = Category.parse(d['x']), Category.parse(d['y'])
            out = eval_pair(x, y)
            print('   the pair alone, now:', gram_corr.sig(out), '->', check_pair(x, y, out) or 'justified')
        elif 'y' in d:
            x, y = Category.parse(d['x']), Category.parse(d['y'])
            out = eval_pair(x, y)
            probs = check_pair(x, y, out)
            print('   now:', gram_corr.sig(out), '->', probs or 'justified')
            bad += bool(probs)
        elif d.get('table') not in (None, 'unary_rules.ja'):
            x = Category.parse(d['x'])
            tbl = {Category.parse(k): [Category.parse(c) for c in v] for k, v in d['table']}
            try:
                rs = ja.apply_unary_rules(x, tbl)
                print('   now:', [(str(r.cat), r.op_string, r.op_symbol) for r in rs], 'label by shape:', unary_label(x))
                bad += any(r.op_string != unary_label(x) for r in rs)
            except Exception as e:   # noqa
                print('   now raises', type(e).__name__)
                bad += 1
        else:
            x = Category.parse(d['x'])
            _, unary, _ = gen.grammar('ja')
            rs = unary(x)
            print('   now:', [(str(r.cat), r.op_string, r.op_symbol) for r in rs], 'label by shape:', unary_label(x))
            bad += any(r.op_string != unary_label(x) for r in rs)
    for b in data.get('broken_obligations', []):
        print('broken obligation:', b if isinstance(b, str) else b.get('name') if isinstance(b, dict) else b[0])
    return 1 if bad or data.get('broken_obligations') else 0
