"""C15 - XML formats round-trip and give ccg2lambda a complete derivation.

Implementation side: depccg.printer.xml.xml_of, depccg.printer.jigg_xml.to_jigg_xml, depccg.tools.reader.read_xml /
read_jigg_xml (through files written with depccg.printer._process_xml), ccg2lambda's build_ccg_tree / normalize_tokens /
normalize_token.  Model side: coq/Xml.v evaluated inside coqc.  The oracle below re-states the property on the
implementation's outputs only (etree objects, Tree objects) and never looks at the model."""
import ast, copy, os, re
from lxml import etree

import env
import gen
import logging
from gallina import lit, gbool

from depccg.cat import Category
from depccg.tree import Tree, ScoredTree
from depccg.types import Token
from depccg.lang import set_global_language_to
from depccg.printer import _process_xml
from depccg.printer.xml import xml_of
from depccg.printer.jigg_xml import to_jigg_xml
import depccg.tools.reader as reader_mod
from depccg.grammar import en as grammar_en, ja as grammar_ja

# the cleanliness claim of normalize_tokens is checked on tokens that do not already start with '_' (normalize_tokens leaves
# those untouched, ccg2lambda_tools.py:61,65).  Set to True to make e.g. surf="_." a reported violation.
STRICT_UNDERSCORE = os.environ.get('VERIF_C15_STRICT_UNDERSCORE', '1') == '1'

PRE = '''From Coq Require Import List NArith Bool.
Import ListNotations.
Require Import Cat CatFacts CatLex CatRoundTrip GenTables Tree Xml.
Open Scope N_scope.
Definition parse_ (t : text) : option cat := CatRoundTrip.parse specials puncts t.
Definition oelem_eqb := opt_eqb elem_eqb.
Definition orr_eqb := opt_eqb (list_eqb rr_eqb).
Definition ChkEncXml (nb : list (list tree)) (e : elem) : bool := elem_eqb (enc_xml nb) e.
Definition ChkEncJigg (us : bool) (nb : list (list (tree * option text))) (e : option elem) : bool := oelem_eqb (enc_jigg us nb) e.
Definition ChkReadXml tab (e : elem) (r : option (list reader_result)) : bool := orr_eqb (read_xml parse_ (guess_of tab) e) r.
Definition ChkReadJigg tab (e : elem) (r : option (list reader_result)) : bool := orr_eqb (read_jigg parse_ (guess_of tab) e) r.
Definition ChkBct (e : elem) (r : option (option elem)) : bool := opt_eqb oelem_eqb (build_ccg_tree e) r.
Definition ChkNorm (t r : text) : bool := text_eqb (normalize_token t) r.
Definition ChkNormAttrs (a r : attrs) : bool := attrs_eqb (normalize_attrs a) r.
Definition ChkCmv (c : cat) (r : text) : bool := text_eqb (cmv c) r.
'''

PRE_DOM = '''From Coq Require Import List NArith Bool.
Import ListNotations.
Require Import Cat CatFacts GenTables Tree Xml XmlProofs.
Open Scope N_scope.
Definition DomXml (nb : list (list tree)) (b : bool) : bool := Bool.eqb (forallb (forallb (wf_xmlb puncts)) nb) b.
Definition DomJigg (doc : list (list (tree * option text))) (b : bool) : bool := Bool.eqb (forallb (nbest_okb puncts) doc) b.
Definition DomJiggTok (doc : list (list (tree * option text))) (b : bool) : bool := Bool.eqb (forallb nbest_tok_okb doc) b.
'''

STRIPPED = '.,()!-'


# ---------------------------------------------------------------------------------------------------------------------
# the two ccg2lambda functions: import them with the stubs; otherwise take their source text (fail closed)
def load_ccg2lambda():
    try:
        from depccg.semantics.ccg2lambda.ccg2lambda_tools import build_ccg_tree, normalize_tokens
        from depccg.semantics.ccg2lambda.normalization import normalize_token
        return build_ccg_tree, normalize_tokens, normalize_token, 'import'
    except Exception:      # noqa
        pass
    base = os.path.join(env.REPO, 'depccg', 'semantics', 'ccg2lambda')
    ns = {'copy': copy, 're': re, 'etree': etree}

    def grab(fn, names):
        src = open(os.path.join(base, fn), encoding='utf-8').read()
        mod = ast.parse(src)
        found = {n.name: n for n in mod.body if isinstance(n, ast.FunctionDef)}
        for name in names:
            if name not in found:
                raise RuntimeError(f'{name} not found in {fn}')
            exec(compile(ast.Module(body=[found[name]], type_ignores=[]), fn, 'exec'), ns)
    grab('normalization.py', ['normalize_token'])
    grab('semantic_index.py', ['find_node_by_id'])

    class _SI:
        find_node_by_id = staticmethod(ns['find_node_by_id'])
    ns['semantic_index'] = _SI
    grab('ccg2lambda_tools.py', ['build_ccg_tree', 'normalize_tokens'])
    return ns['build_ccg_tree'], ns['normalize_tokens'], ns['normalize_token'], 'source-text'


# ---------------------------------------------------------------------------------------------------------------------
# infoset <-> etree <-> Gallina
def infoset(e):
    return (e.tag, list(e.attrib.items()), [infoset(c) for c in e if isinstance(c.tag, str)])


def build_etree(i):
    tag, at, kids = i
    e = etree.Element(tag)
    for k, v in at:
        e.set(k, v)
    for k in kids:
        e.append(build_etree(k))
    return e


COMMON = ['candc', 'ccg', 'rule', 'lf', 'root', 'document', 'sentences', 'sentence', 'tokens', 'token', 'span', 'id', 'cat', 'start', 'type',
          'category', 'terminal', 'child', 'begin', 'end', 'score', 'surf', 'base', 'word', 'pos', 'entity', 'lemma', 'chunk', 'pos1', 'pos2', 'pos3',
          'inflectionType', 'inflectionForm', 'true', '0', '1', '2', '3', '4', '5', 'lex', '<lex>', '<un>', 'tr', '*', 'O', 'I-NP', 'B-VP', 'I-PER', 'B-ORG',
          '名詞', '動詞', '助詞', '一般', '自立', '格助詞', '五段・ラ行', '基本形', '/', '\\', '|', 'S', 'NP', 'N', 'mod', 'form', 'fin', 'case', 'nm', 'f', 't',
          'fa', 'ba', 'fc', 'bx', 'gfc', 'gbx', 'conj', 'lp', 'rp', '>', '<', '>B', '<B', 'unk', '<unk>']
COMMON_IDX = {w: f'h{i}_' for i, w in enumerate(COMMON)}
COMMON_DEFS = ''.join(f'Definition h{i}_ : text := {lit(w)}.\n' for i, w in enumerate(COMMON))


class Enc:
    """Gallina serialiser with per-case interning of texts and categories (keeps the case files small)"""

    def __init__(self):
        self.texts, self.cats, self.defs = {}, {}, []

    def lit(self, s):
        if s in COMMON_IDX:
            return COMMON_IDX[s]
        if len(s) <= 2:
            return lit(s)
        n = self.texts.get(s)
        if n is None:
            n = self.texts[s] = f't{len(self.texts)}_'
            self.defs.append(f'let {n} : text := {lit(s)} in')
        return n

    def feat(self, f):
        from depccg.cat import UnaryFeature
        if isinstance(f, UnaryFeature):
            return 'FNone' if f.value is None else f'(FUn {self.lit(f.value)})'
        return '(FTer ' + ' '.join(self.lit(x) for kv in f.items() for x in kv) + ')'

    def cat(self, c):
        key = repr(c) if not isinstance(c, str) else c
        n = self.cats.get(key)
        if n is None:
            if c.is_atomic:
                body = f'(Atom {self.lit(c.base)} {self.feat(c.feature)})'
            else:
                body = f'(Fun {self.cat(c.left)} {self.lit(c.slash)} {self.cat(c.right)})'
            n = self.cats[key] = f'c{len(self.cats)}_'
            self.defs.append(f'let {n} : cat := {body} in')
        return n

    def attrs(self, at):
        return '[' + ';'.join(f'({self.lit(k)},{self.lit(v)})' for k, v in at) + ']'

    def elem(self, i):
        tag, at, kids = i
        return f'(El {self.lit(tag)} {self.attrs(at)} [' + ';'.join(self.elem(k) for k in kids) + '])'

    def tree(self, t):
        if t.is_leaf:
            return f'(Leaf {self.cat(t.cat)} {self.attrs(list(t.token.items()))} {self.lit(t.op_string)} {self.lit(t.op_symbol)})'
        if t.is_unary:
            return f'(Un {self.cat(t.cat)} {self.lit(t.op_string)} {self.lit(t.op_symbol)} {self.tree(t.child)})'
        return (f'(Bin {self.cat(t.cat)} {self.lit(t.op_string)} {self.lit(t.op_symbol)} {gbool(t.head_is_left)} '
                f'{self.tree(t.left_child)} {self.tree(t.right_child)})')

    def snap(self, s):
        """Gallina tree of a snapshot"""
        c = self.cat(Category.parse(s[1]))
        if s[0] == 'L':
            return f'(Leaf {c} {self.attrs(s[2])} {self.lit(s[3])} {self.lit(s[4])})'
        if s[0] == 'U':
            return f'(Un {c} {self.lit(s[2])} {self.lit(s[3])} {self.snap(s[4])})'
        return f'(Bin {c} {self.lit(s[2])} {self.lit(s[3])} {gbool(s[4])} {self.snap(s[5])} {self.snap(s[6])})'

    def results(self, rs):
        """reader output -> option (list reader_result)"""
        if rs is None:
            return 'None'
        return '(Some [' + ';'.join(f'({self.lit(n)},[{";".join(self.attrs(list(tk.items())) for tk in toks)}],{self.tree(t)})' for n, toks, t in rs) + '])'

    def tab(self, calls):
        return '[' + ';'.join(f'({self.cat(c)},{self.cat(x)},{self.cat(y)},({self.lit(r.op_string)},{self.lit(r.op_symbol)},{gbool(r.head_is_left)}))'
                              for (c, x, y, r) in calls) + ']'

    def score(self, sc):
        return 'None' if sc is None else f'(Some {self.lit(str(sc))})'

    def opt(self, x, f):
        return 'None' if x is None else f'(Some {f(x)})'

    def wrap(self, term):
        return '(' + '\n'.join(self.defs) + '\n' + term + ')'


def tree_well_typed(t):
    if not isinstance(t, Tree) or not gen.well_typed(t.cat) or not isinstance(t.op_string, str) or not isinstance(t.op_symbol, str):
        return False
    if t.is_leaf:
        return isinstance(t.token, dict) and all(isinstance(k, str) and isinstance(v, str) for k, v in t.token.items())
    return all(tree_well_typed(c) for c in t.children)


# ---------------------------------------------------------------------------------------------------------------------
# derivations: n-best lists over the *same* token objects
def tree_over(rng, lang, tokens, pool):
    """an arbitrary well-formed tree over the given token objects"""
    def build(lo, hi):
        if hi - lo == 1:
            t = Tree.make_terminal(tokens[lo], rng.choice(pool))
        else:
            m = rng.randint(lo + 1, hi - 1)
            l, r = build(lo, m), build(m, hi)
            ops, sym = rng.choice(gen.JA_LABELS if lang == 'ja' else gen.EN_LABELS)
            t = Tree.make_binary(rng.choice(pool), l, r, ops, sym, rng.random() < 0.5)
        while rng.random() < 0.2:
            if lang == 'ja':
                u = rng.choice(gen.JA_UNARY)
                t = Tree.make_unary(rng.choice(pool), t, u, u)
            else:
                t = Tree.make_unary(rng.choice(pool), t, rng.choice(['lex', 'tr']), '<un>')
        return t
    return build(0, len(tokens))


def rescat(rng, t, lang):
    """same derivation shape, other objects (a second reading with the same bracketing but fresh nodes)"""
    if t.is_leaf:
        return Tree.make_terminal(t.token, t.cat, t.op_string, t.op_symbol)
    if t.is_unary:
        return Tree.make_unary(t.cat, rescat(rng, t.child, lang), t.op_string, t.op_symbol)
    return Tree.make_binary(t.cat, rescat(rng, t.left_child, lang), rescat(rng, t.right_child, lang), t.op_string, t.op_symbol, t.head_is_left)


def make_doc(rng, lang, quick):
    doc = []
    for _ in range(rng.randint(1, 3)):
        n = rng.randint(1, 5 if quick else 7)
        if rng.random() < 0.06:
            # sentences of more than ten tokens: span offsets and ids with two digits
            base = gen.deep_chain(rng, lang, depth=rng.randint(10, 13) if quick else rng.randint(10, 30))
        elif rng.random() < 0.6:
            base = gen.licensed_tree(rng, lang, n)
        else:
            base = gen.rand_tree(rng, lang, n)
        if lang == 'ja' and rng.random() < 0.3:
            for tok in base.tokens:
                if rng.random() < 0.5:
                    tok['base'] = '*'
        toks = base.tokens
        if rng.random() < 0.2:
            # PTB-style pre-tokenised text: bracket escapes are words like any other
            rng.choice(toks)['word'] = rng.choice(['-LRB-', '-RRB-', '-LCB-', '-RCB-', '-LSB-', '-RSB-'])
        if len(toks) >= 2 and rng.random() < 0.25:
            # the same word twice ("the ... the", two identical particles): two token OBJECTS with equal content
            i_, j_ = rng.sample(range(len(toks)), 2)
            content = dict(toks[i_])
            toks[j_].clear()
            toks[j_].update(content)
        pool = [Category.parse(s) for s in rng.sample(gen.inventory(lang), 8)]
        trees = [base]
        for _ in range(rng.choice([0, 1, 1, 2])):
            trees.append(rescat(rng, base, lang) if rng.random() < 0.25 else tree_over(rng, lang, toks, pool))
        doc.append([ScoredTree(t, rng.choice([None, -rng.randint(0, 1023) / 8.0])) for t in trees])
    return doc


def snapshot(t):
    """a deep structural copy of what a tree says (plain data; independent of later mutation of token objects)"""
    if t.is_leaf:
        return ('L', str(t.cat), list(t.token.items()), t.op_string, t.op_symbol)
    if t.is_unary:
        return ('U', str(t.cat), t.op_string, t.op_symbol, snapshot(t.child))
    return ('B', str(t.cat), t.op_string, t.op_symbol, t.head_is_left, snapshot(t.left_child), snapshot(t.right_child))


def snap_leaves(s):
    if s[0] == 'L':
        return [s]
    if s[0] == 'U':
        return snap_leaves(s[4])
    return snap_leaves(s[5]) + snap_leaves(s[6])


def snap_nodes(s):
    yield s
    if s[0] == 'U':
        yield from snap_nodes(s[4])
    elif s[0] == 'B':
        yield from snap_nodes(s[5])
        yield from snap_nodes(s[6])


def has_unary_value(c):
    from depccg.cat import UnaryFeature
    if c.is_atomic:
        return isinstance(c.feature, UnaryFeature) and c.feature.value is not None
    return has_unary_value(c.left) or has_unary_value(c.right)


def dom_xml(snaps):
    """the hypothesis of C15_read_xml_enc, on the Python side"""
    for nb in snaps:
        for s in nb:
            for n in snap_nodes(s):
                if not gen.wf_py(Category.parse(n[1])):
                    return False
                if n[0] == 'L':
                    ks = [k for k, _ in n[2]]
                    if not all(k in ks for k in ('word', 'pos', 'entity', 'lemma', 'chunk')) or any(k in ks for k in ('start', 'span', 'cat')):
                        return False
    return True


def dom_jigg_tok(snaps):
    for nb in snaps:
        toks0 = [l[2] for l in snap_leaves(nb[0])]
        for tok in toks0:
            ks = [k for k, _ in tok]
            if 'word' not in ks or any(k in ks for k in ('id', 'start', 'cat')):
                return False
        if any([l[2] for l in snap_leaves(s)] != toks0 for s in nb):
            return False
    return True


def dom_jigg(snaps):
    """the hypothesis of C15_read_jigg_enc_ja"""
    if not dom_jigg_tok(snaps):
        return False
    for nb in snaps:
        for s in nb:
            for n in snap_nodes(s):
                c = Category.parse(n[1])
                if not gen.wf_py(c) or has_unary_value(c):
                    return False
    return True


# ---------------------------------------------------------------------------------------------------------------------
def pipeline(ctx, add):
    """the implementation-side pipeline and the oracle; `add` records a correspondence case (may be a no-op)"""
    build_ccg_tree, normalize_tokens, normalize_token, how = load_ccg2lambda()
    ctx.stats['ccg2lambda_loaded_by'] = how
    lxml_ok = [0, 0]

    # --- record what guess_combinator_by_triplet answered to the readers (the model takes it as a parameter) -------------
    calls = []
    orig_guess = reader_mod.guess_combinator_by_triplet

    def recording_guess(binary_rules, target, x, y):
        r = orig_guess(binary_rules, target, x, y)
        calls.append((target, x, y, r))
        return r
    reader_mod.guess_combinator_by_triplet = recording_guess

    tmpn = [0]

    def run_reader(fn_reader, elem, lang, suffix):
        """(results or None, guess table, infoset the reader saw)"""
        tmpn[0] += 1
        path = os.path.join(ctx.work, f'doc{tmpn[0] % 8}{suffix}')
        text = _process_xml(elem)
        with open(path, 'w', encoding='utf-8') as f:
            f.write(text)
        seen = infoset(etree.parse(path).getroot())
        set_global_language_to(lang)
        del calls[:]
        try:
            # every caller in depccg collects the generator before looking at the results: so does the check
            collected = list(fn_reader(path))
            rs = [(r.name, list(r.tokens), r.tree) for r in collected]
            if not all(isinstance(n, str) and tree_well_typed(t) and all(isinstance(v, str) for tk in toks for v in tk.values()) for n, toks, t in rs):
                rs = None
        except Exception as e:      # noqa
            ctx.count(f'reader_error:{type(e).__name__}')
            rs = None
        tab = [c for c in calls if all(gen.well_typed(z) for z in c[:3])]
        seen_keys, uniq = set(), []
        for c in tab:
            k = (str(c[0]), str(c[1]), str(c[2]))
            if k not in seen_keys:
                seen_keys.add(k)
                uniq.append(c)
        return rs, uniq, seen

    def licensed_labels(lang, cat, l, r):
        rules = (grammar_ja if lang == 'ja' else grammar_en).apply_binary_rules(l, r)
        return {(x.op_symbol, x.head_is_left) for x in rules if x.cat == cat}

    # ------------------------------------------------------------------------------------------------------------------
    # oracle pieces (implementation outputs only)
    def same_xml(snap, t, lang, where, data):
        """read_xml result t against what was encoded"""
        ok = True
        if str(t.cat) != snap[1]:
            ok = False
        elif snap[0] == 'L':
            if not t.is_leaf:
                ok = False
            else:
                orig = dict(snap[2])
                for k in ('word', 'pos', 'entity', 'lemma', 'chunk'):
                    if t.token.get(k) != orig.get(k):
                        ctx.fail('xml_token_attribute', f'{where}: token attribute {k!r} was {orig.get(k)!r}, read back {t.token.get(k)!r}', data)
                        return False
        elif snap[0] == 'U':
            if t.is_leaf or not t.is_unary:
                ok = False
            elif t.op_string != snap[2]:
                ctx.fail('xml_unary_label', f'{where}: unary rule label {snap[2]!r} read back as {t.op_string!r}', data)
                return False
            else:
                return same_xml(snap[4], t.child, lang, where, data)
        else:
            if t.is_leaf or t.is_unary:
                ok = False
            elif t.op_string != snap[2]:
                ctx.fail('xml_binary_label', f'{where}: binary rule label {snap[2]!r} read back as {t.op_string!r}', data)
                return False
            else:
                lic = licensed_labels(lang, t.cat, t.left_child.cat, t.right_child.cat)
                if lic and (t.op_symbol, t.head_is_left) not in lic:
                    ctx.fail('xml_binary_symbol', f'{where}: node {snap[1]!r} read back with symbol/head {(t.op_symbol, t.head_is_left)!r}, '
                             f'the grammar gives {sorted(lic)!r} for this triple', data)
                    return False
                return same_xml(snap[5], t.left_child, lang, where, data) and same_xml(snap[6], t.right_child, lang, where, data)
        if not ok:
            ctx.fail('xml_shape_or_category', f'{where}: node {snap[1]!r} ({snap[0]}) read back as {str(t.cat)!r} '
                     f'({"L" if t.is_leaf else "U" if t.is_unary else "B"})', data)
        return ok

    def same_jigg(snap, t, where, data):
        if str(t.cat) != snap[1]:
            ctx.fail('jigg_category', f'{where}: category {snap[1]!r} read back as {str(t.cat)!r}', data)
            return False
        kind = 'L' if t.is_leaf else 'U' if t.is_unary else 'B'
        if kind != snap[0]:
            ctx.fail('jigg_shape', f'{where}: node {snap[1]!r} of kind {snap[0]} read back as kind {kind}', data)
            return False
        if kind == 'L':
            w = dict(snap[2]).get('word')
            if t.token.get('word') != w:
                ctx.fail('jigg_word', f'{where}: word {w!r} read back as {t.token.get("word")!r}', data)
                return False
            return True
        if kind == 'U':
            return same_jigg(snap[4], t.child, where, data)
        return same_jigg(snap[5], t.left_child, where, data) and same_jigg(snap[6], t.right_child, where, data)

    def jigg_wellformed(root, doc_snaps, use_symbol, where, data):
        """span ids unique per sentence, references resolve, offsets tile, one root - directly on the etree"""
        sentences = root.xpath('./document/sentences/sentence')
        if len(sentences) != len(doc_snaps):
            ctx.fail('jigg_sentence_count', f'{where}: {len(doc_snaps)} sentences in, {len(sentences)} <sentence> out', data)
            return
        for si, (sent, snaps) in enumerate(zip(sentences, doc_snaps)):
            tokens = sent.xpath('./tokens/token')
            tok_ids = [t.get('id') for t in tokens]
            ccgs = sent.xpath('./ccg')
            if len(ccgs) != len(snaps):
                ctx.fail('jigg_ccg_count', f'{where}: sentence {si}: {len(snaps)} trees in, {len(ccgs)} <ccg> out', data)
                return
            if len(set(tok_ids)) != len(tok_ids) or None in tok_ids:
                ctx.fail('jigg_token_ids', f'{where}: sentence {si}: token ids are not distinct: {tok_ids}', data)
                return
            all_ids = [sp.get('id') for ccg in ccgs for sp in ccg.xpath('./span')]
            if None in all_ids or len(set(all_ids)) != len(all_ids):
                dup = sorted({i for i in all_ids if all_ids.count(i) > 1})
                ctx.fail('jigg_span_ids_not_unique', f'{where}: sentence {si}: span ids repeat within the sentence: {dup[:5]}', data)
                return
            if len({c.get('id') for c in ccgs}) != len(ccgs):
                ctx.fail('jigg_ccg_ids', f'{where}: sentence {si}: ccg ids repeat', data)
                return
            for ci, (ccg, snap) in enumerate(zip(ccgs, snaps)):
                spans = ccg.xpath('./span')
                by_id = {sp.get('id'): sp for sp in spans}
                roots = [sp for sp in spans if sp.get('root') == 'true']
                if len(roots) != 1 or roots[0].get('id') != ccg.get('root'):
                    ctx.fail('jigg_root', f'{where}: sentence {si} ccg {ci}: {len(roots)} spans have root="true"; @root={ccg.get("root")!r}', data)
                    return
                term_spans = [sp for sp in spans if sp.get('terminal') is not None]
                if [sp.get('terminal') for sp in term_spans] != tok_ids:
                    ctx.fail('jigg_terminals', f'{where}: sentence {si} ccg {ci}: terminals {[sp.get("terminal") for sp in term_spans]} '
                             f'do not enumerate the tokens {tok_ids}', data)
                    return
                for i, sp in enumerate(term_spans):
                    if (sp.get('begin'), sp.get('end')) != (str(i), str(i + 1)) or sp.get('child') is not None:
                        ctx.fail('jigg_leaf_offsets', f'{where}: sentence {si} ccg {ci}: leaf {i} has begin/end {(sp.get("begin"), sp.get("end"))}', data)
                        return
                for sp in spans:
                    if sp.get('terminal') is not None:
                        continue
                    kids = (sp.get('child') or '').split(' ')
                    if not (1 <= len(kids) <= 2) or any(k not in by_id for k in kids):
                        ctx.fail('jigg_dangling_child', f'{where}: sentence {si} ccg {ci}: span {sp.get("id")} has children {sp.get("child")!r} '
                                 f'that do not resolve in its <ccg>', data)
                        return
                    ks = [by_id[k] for k in kids]
                    okb = sp.get('begin') == ks[0].get('begin') and sp.get('end') == ks[-1].get('end')
                    if len(ks) == 2:
                        okb = okb and ks[0].get('end') == ks[1].get('begin')
                    try:
                        okb = okb and int(sp.get('begin')) < int(sp.get('end'))
                    except (TypeError, ValueError):
                        okb = False
                    if not okb:
                        ctx.fail('jigg_offsets_do_not_tile', f'{where}: sentence {si} ccg {ci}: span {sp.get("id")} [{sp.get("begin")},{sp.get("end")}) '
                                 f'over children {[(k.get("id"), k.get("begin"), k.get("end")) for k in ks]}', data)
                        return
                r = roots[0]
                if (r.get('begin'), r.get('end')) != ('0', str(len(tok_ids))):
                    ctx.fail('jigg_root_offsets', f'{where}: sentence {si} ccg {ci}: root covers [{r.get("begin")},{r.get("end")}) of {len(tok_ids)} tokens', data)
                    return
                # reachability: every span is reached exactly once from the root
                seen = []

                def walk(sp):
                    seen.append(sp.get('id'))
                    if sp.get('terminal') is None:
                        for k in sp.get('child').split(' '):
                            walk(by_id[k])
                try:
                    walk(r)
                except RecursionError:
                    seen = None
                if seen is None or sorted(seen) != sorted(by_id):
                    ctx.fail('jigg_not_a_tree', f'{where}: sentence {si} ccg {ci}: the spans do not form one tree under the root', data)
                    return

    def iso(node, snap, lang, use_symbol, tok_ids, pos, where, data):
        """ccg2lambda tree node against the derivation; returns the number of leaves consumed or None"""
        cat_txt = (node.get('category') or '').replace('=true', '')
        if node.tag != 'span' or cat_txt != snap[1]:
            ctx.fail('build_ccg_tree_category', f'{where}: node category {node.get("category")!r} for derivation node {snap[1]!r}', data)
            return None
        kids = list(node)
        if snap[0] == 'L':
            if kids or node.get('terminal') != tok_ids[pos]:
                ctx.fail('build_ccg_tree_leaf', f'{where}: leaf {pos} built as terminal={node.get("terminal")!r} with {len(kids)} children', data)
                return None
            return 1
        want = snap[3] if use_symbol else snap[2]
        if node.get('rule') != want:
            ctx.fail('build_ccg_tree_rule', f'{where}: rule attribute {node.get("rule")!r}, the derivation says {want!r}', data)
            return None
        subs = [snap[4]] if snap[0] == 'U' else [snap[5], snap[6]]
        if len(kids) != len(subs):
            ctx.fail('build_ccg_tree_shape', f'{where}: node {snap[1]!r} has {len(kids)} children, derivation has {len(subs)}', data)
            return None
        used = 0
        for k, s in zip(kids, subs):
            n = iso(k, s, lang, use_symbol, tok_ids, pos + used, where, data)
            if n is None:
                return None
            used += n
        return used

    def process(doc, lang, use_symbol, jigg_first, where):
        """one document through both encoders, the readers, build_ccg_tree and normalize_tokens"""
        set_global_language_to(lang)
        snaps = [[snapshot(st.tree) for st in nb] for nb in doc]
        scores = [[st.score for st in nb] for nb in doc]
        data = {'lang': lang, 'use_symbol': use_symbol, 'jigg_first': jigg_first, 'doc': snaps, 'scores': scores}

        def gdoc(E):
            return '[' + ';'.join('[' + ';'.join(E.snap(s) for s in nb) + ']' for nb in snaps) + ']'

        def gdoc_sc(E):
            return '[' + ';'.join('[' + ';'.join(f'({E.snap(s)},{E.score(sc)})' for s, sc in zip(nb, scs)) + ']' for nb, scs in zip(snaps, scores)) + ']'

        def do_jigg():
            try:
                root = to_jigg_xml(doc, use_symbol=use_symbol)
            except Exception as e:      # noqa
                ctx.fail('jigg_encoder_raised', f'{where}: to_jigg_xml raised {type(e).__name__}: {e}', data)
                add(lambda E: f'ChkEncJigg {gbool(use_symbol)} {gdoc_sc(E)} None', ('enc_jigg', where))
                return
            add(lambda E: f'ChkEncJigg {gbool(use_symbol)} {gdoc_sc(E)} (Some {E.elem(infoset(root))})', ('enc_jigg', where))
            jigg_wellformed(root, snaps, use_symbol, where, data)
            # reader
            rs, tab, seen = run_reader(reader_mod.read_jigg_xml, root, lang, '.jigg.xml')
            lxml_ok[0] += 1
            if seen != infoset(root):
                lxml_ok[1] += 1
                ctx.notes.append(f'{where}: jigg infoset changed through the file')
            add(lambda E: f'ChkReadJigg {E.tab(tab)} {E.elem(seen)} {E.results(rs)}', ('read_jigg', where, 'valid'))
            if lang == 'ja':
                flat = [s for nb in snaps for s in nb]
                if rs is None or len(rs) != len(flat):
                    ctx.fail('jigg_unreadable', f'{where}: read_jigg_xml failed or returned {None if rs is None else len(rs)} trees for {len(flat)}', data)
                else:
                    for (name, toks, t), s in zip(rs, flat):
                        if same_jigg(s, t, where + ' ' + name, data):
                            # the token list of a result is the token list of ITS sentence: the words of the leaves, in order
                            want_w = [dict(l_[2]).get('word') for l_ in snap_leaves(s)]
                            got_w = [tk.get('word', tk.get('surf')) for tk in toks]
                            if got_w != want_w:
                                ctx.fail('jigg_token_list', f'{where} {name}: the result carries the token list {got_w[:12]} ({len(got_w)} tokens) for a derivation over {want_w[:12]} ({len(want_w)} tokens)', data)
                ctx.count('oracle:jigg_readback_trees', len(flat))
            # ccg2lambda.  build_ccg_tree is a READER of the sentence: it is asked more than once for the same <ccg> (semantic assignment, then
            # visualisation / proof scripts), so (a) the document it reads is byte-for-byte what it was, (b) the sentence is still
            # self-contained after building, (c) a second build from the same <ccg> gives the same (isomorphic) tree.
            doc_before = etree.tostring(root, encoding='unicode')
            doc_damaged = False
            for si, sent in enumerate(root.xpath('./document/sentences/sentence')):
                tok_ids = [t.get('id') for t in sent.xpath('./tokens/token')]
                for ci, ccg in enumerate(sent.xpath('./ccg')):
                    ccg_in = infoset(ccg)            # what the builder is given (the model gets exactly this)
                    sent_before = etree.tostring(sent, encoding='unicode')
                    try:
                        built = build_ccg_tree(ccg)
                    except Exception as e:      # noqa
                        built = 'err'
                        ctx.fail('build_ccg_tree_raised', f'{where}: sentence {si} ccg {ci}: {type(e).__name__}: {e}', data)
                    if built == 'err':
                        add(lambda E: f'ChkBct {E.elem(ccg_in)} None', ('bct', where))
                        continue
                    add(lambda E: f'ChkBct {E.elem(ccg_in)} (Some {E.opt(None if built is None else infoset(built), E.elem)})', ('bct', where, si, ci))
                    if built is None:
                        ctx.fail('build_ccg_tree_none', f'{where}: sentence {si} ccg {ci}: build_ccg_tree returned None', data)
                    else:
                        n = iso(built, snaps[si][ci], lang, use_symbol, tok_ids, 0, f'{where} sentence {si} ccg {ci}', data)
                        if n is not None and n != len(tok_ids):
                            ctx.fail('build_ccg_tree_leaves', f'{where}: sentence {si} ccg {ci}: {n} leaves built for {len(tok_ids)} tokens', data)
                        if built.get('root') != 'true':
                            ctx.fail('build_ccg_tree_root', f'{where}: sentence {si} ccg {ci}: built tree is not rooted at the root span', data)
                    ctx.count('oracle:build_ccg_tree')
                    # (a) the sentence that was read is unchanged
                    first = None if built is None else infoset(built)
                    sent_after = etree.tostring(sent, encoding='unicode')
                    if sent_after != sent_before:
                        doc_damaged = True
                        ctx.fail('build_ccg_tree_changed_the_document',
                                 f'{where}: sentence {si} ccg {ci}: the <sentence> serialises differently after build_ccg_tree '
                                 f'({sent_before.count("<span")} <span> elements before, {sent_after.count("<span")} after; '
                                 f'{len(ccg_in[2])} spans in this <ccg> before, {len(ccg.xpath("./span"))} after)', data)
                    # (c) building again from the same <ccg>: no exception, the same tree, still isomorphic to the derivation
                    for attempt in (2, 3):
                        try:
                            again = build_ccg_tree(ccg)
                        except Exception as e:      # noqa
                            ctx.fail('build_ccg_tree_not_repeatable', f'{where}: sentence {si} ccg {ci}: build_ccg_tree call #{attempt} on the same <ccg> raised '
                                     f'{type(e).__name__}: {e}', data)
                            break
                        if (None if again is None else infoset(again)) != first:
                            ctx.fail('build_ccg_tree_not_repeatable', f'{where}: sentence {si} ccg {ci}: build_ccg_tree call #{attempt} on the same <ccg> gives another tree '
                                     f'than call #1', data)
                            break
                        if again is not None:
                            iso(again, snaps[si][ci], lang, use_symbol, tok_ids, 0, f'{where} sentence {si} ccg {ci} (build #{attempt})', data)
                        ctx.count('oracle:build_ccg_tree_repeat')
            # (a) for the whole document, (b) the self-containedness checks once more on the document that has been read
            if not doc_damaged and etree.tostring(root, encoding='unicode') != doc_before:
                ctx.fail('build_ccg_tree_changed_the_document', f'{where}: the Jigg XML document serialises differently after the build_ccg_tree calls', data)
            jigg_wellformed(root, snaps, use_symbol, where + ' [after build_ccg_tree]', data)
            ctx.count('oracle:jigg_wellformed_after_build')
            for si, sent in enumerate(root.xpath('./document/sentences/sentence')):
                # token normalisation
                toks = copy.deepcopy(sent.xpath('./tokens')[0])
                before = [dict(t.attrib) for t in toks]
                try:
                    normalize_tokens(list(toks))
                except Exception as e:      # noqa
                    ctx.fail('normalize_tokens_raised', f'{where}: {type(e).__name__}: {e}', data)
                    continue
                for b, t in zip(before, toks):
                    add(lambda E: f'ChkNormAttrs {E.attrs(list(b.items()))} {E.attrs(list(t.attrib.items()))}', ('normalize_tokens', where))
                    for key in ('surf', 'base'):
                        if key not in b:
                            continue
                        src = b.get('surf', '*') if (key == 'base' and b['base'] == '*') else b[key]
                        v = t.get(key)
                        if src.startswith('_') and not STRICT_UNDERSCORE:
                            ctx.count('normalize_tokens:skipped_already_underscored')
                            continue
                        if not v.startswith('_') or any(ch in STRIPPED for ch in v):
                            kind = 'normalize_tokens_underscore_passthrough' if src.startswith('_') else 'normalize_tokens_not_clean'
                            ctx.fail(kind, f'{where}: token {key}={src!r} normalised to {v!r}', dict(data, token=b))
                        if key == 'base' and b['base'] == '*' and 'surf' in b and v != t.get('surf') and not b['surf'].startswith('_'):
                            ctx.fail('normalize_tokens_star', f'{where}: base="*" became {v!r}, surf is {t.get("surf")!r}', dict(data, token=b))
                    ctx.count('oracle:normalize_tokens')

        def do_xml():
            try:
                root = xml_of(doc)
            except Exception as e:      # noqa
                ctx.fail('xml_encoder_raised', f'{where}: xml_of raised {type(e).__name__}: {e}', data)
                return
            add(lambda E: f'ChkEncXml {gdoc(E)} {E.elem(infoset(root))}', ('enc_xml', where))
            rs, tab, seen = run_reader(reader_mod.read_xml, root, lang, '.xml')
            lxml_ok[0] += 1
            if seen != infoset(root):
                lxml_ok[1] += 1
                ctx.notes.append(f'{where}: xml infoset changed through the file')
            add(lambda E: f'ChkReadXml {E.tab(tab)} {E.elem(seen)} {E.results(rs)}', ('read_xml', where, 'valid'))
            if lang == 'en':
                flat = [(si, ti, s) for si, nb in enumerate(snaps, 1) for ti, s in enumerate(nb, 1)]
                if rs is None or len(rs) != len(flat):
                    ctx.fail('xml_unreadable', f'{where}: read_xml failed or returned {None if rs is None else len(rs)} trees for {len(flat)}', data)
                else:
                    for (name, toks, t), (si, ti, s) in zip(rs, flat):
                        if same_xml(s, t, lang, f'{where} {name}', data):
                            want = [{k: dict(l[2]).get(k) for k in ('word', 'pos', 'entity', 'lemma', 'chunk')} for l in snap_leaves(s)]
                            if [dict(tk) for tk in toks] != want:
                                ctx.fail('xml_token_list', f'{where} {name}: token list read back as {toks!r}', data)
                ctx.count('oracle:xml_readback_trees', len(flat))

        for step in ((do_jigg, do_xml) if jigg_first else (do_xml, do_jigg)):
            step()
        # the encoders are observations: the derivation still says what it said
        now = [[snapshot(st.tree) for st in nb] for nb in doc]
        if now != snaps:
            ctx.fail('encoder_changed_the_derivation', f'{where}: tokens/trees differ after encoding (jigg_first={jigg_first})', data)
        return snaps, scores, gdoc, gdoc_sc

    def restore():
        reader_mod.guess_combinator_by_triplet = orig_guess
        set_global_language_to('en')

    return process, run_reader, restore, lxml_ok, (build_ccg_tree, normalize_tokens, normalize_token)


def run(ctx):
    rng = ctx.rng
    logging.getLogger('depccg.lang').setLevel(logging.WARNING)
    ctx.build(['P_C15.vo'])
    ctx.theorems('P_C15')

    cases, descr = [], []
    dom_cases, dom_descr = [], []

    def add(mk, d):
        E = Enc()
        cases.append(E.wrap(mk(E)))
        descr.append(d)

    process, run_reader, restore, lxml_ok, (build_ccg_tree, normalize_tokens, normalize_token) = pipeline(ctx, add)

    # ------------------------------------------------------------------------------------------------------------------
    # 1. derivations -> both encoders -> readers / ccg2lambda
    ndocs = 80 if ctx.quick else 500
    for d in range(ndocs):
        lang = 'en' if d % 2 == 0 else 'ja'
        set_global_language_to(lang)
        doc = make_doc(rng, lang, ctx.quick)
        if d == 0:      # deterministic probe of the known finding: a token that starts with '_' and contains logic punctuation
            doc[0][0].tree.tokens[0]['word'] = '_.'
        use_symbol = rng.random() < 0.5 if lang == 'en' else rng.random() < 0.8
        jigg_first = rng.random() < 0.5
        where = f'doc {d} ({lang})'
        snaps, scores, gdoc, gdoc_sc = process(doc, lang, use_symbol, jigg_first, where)
        ctx.case(('doc', repr(snaps)), nontrivial=any(len(nb) > 1 or s[0] != 'L' for nb in snaps for s in nb))
        ctx.count(f'docs:{lang}')
        ctx.count(f'nbest:{max(len(nb) for nb in doc)}')
        ctx.count('trees', sum(len(nb) for nb in doc))
        if d < 2:
            ctx.sample({'doc': where, 'trees': [[s[1] for s in nb] for nb in snaps]})
        # the generated documents lie in the domain of the theorems (boolean versions of the hypotheses, evaluated in coqc)
        if ctx.quick and d >= 40:
            continue
        E = Enc()
        dx, dj, dt = dom_xml(snaps), dom_jigg(snaps), dom_jigg_tok(snaps)
        if lang == 'en' and not dx:
            ctx.obligation('generated English documents satisfy the hypothesis of C15_read_xml_enc', False, where)
        if lang == 'ja' and not dj:
            ctx.obligation('generated Japanese documents satisfy the hypothesis of C15_read_jigg_enc_ja', False, where)
        if not dt:
            ctx.obligation('generated documents satisfy the hypothesis of C15_jigg_wf', False, where)
        dom_cases.append(E.wrap(f'DomXml {gdoc(E)} {gbool(dx)} && DomJigg {gdoc_sc(E)} {gbool(dj)} && DomJiggTok {gdoc_sc(E)} {gbool(dt)}'))
        dom_descr.append((where, dx, dj, dt))
        ctx.count(f'domain:xml:{dx}:jigg:{dj}:tok:{dt}')

    # ------------------------------------------------------------------------------------------------------------------
    # 2. malformed documents: model and implementation must agree on error / result
    def mutate(i, path_pred, f):
        """apply f to the k-th element (pre-order) satisfying path_pred; returns new infoset"""
        cands = []

        def collect(n, p):
            if path_pred(n):
                cands.append(p)
            for k, c in enumerate(n[2]):
                collect(c, p + (k,))
        collect(i, ())
        if not cands:
            return None
        target = rng.choice(cands)

        def rebuild(n, p):
            if p == target:
                return f(n)
            return (n[0], list(n[1]), [rebuild(c, p + (k,)) for k, c in enumerate(n[2])])
        return rebuild(i, ())

    def drop_attr(names):
        def f(n):
            have = [k for k, _ in n[1] if k in names]
            if not have:
                return n
            k0 = rng.choice(have)
            return (n[0], [(k, v) for k, v in n[1] if k != k0], n[2])
        return f

    def set_attr(k0, fv):
        def f(n):
            v = fv(n)
            at = [(k, (v if k == k0 else w)) for k, w in n[1]]
            if k0 not in [k for k, _ in at]:
                at.append((k0, v))
            return (n[0], at, n[2])
        return f

    BADCATS = ['', '(S', 'S/NP/NP', 'S[', 'NP)', 'S[a=b,c=d]']
    nmal = 50 if ctx.quick else 400
    made = 0
    for d in range(nmal * 3):
        if made >= nmal:
            break
        lang = rng.choice(['en', 'ja'])
        set_global_language_to(lang)
        doc = make_doc(rng, lang, True)
        fmt = rng.choice(['xml', 'jigg', 'jigg', 'bct'])
        if fmt == 'xml':
            base = infoset(xml_of(doc))
            m = rng.choice([
                lambda: mutate(base, lambda n: n[0] in ('lf', 'rule'), drop_attr(['cat', 'type', 'word', 'pos', 'entity', 'lemma', 'chunk', 'start'])),
                lambda: mutate(base, lambda n: n[0] == 'rule', lambda n: (n[0], n[1], n[2][1:])),
                lambda: mutate(base, lambda n: n[0] == 'rule', lambda n: (n[0], n[1], n[2] + [n[2][0]])),
                lambda: mutate(base, lambda n: n[0] in ('lf', 'rule'), lambda n: (rng.choice(['lf', 'rule', 'x']), n[1], n[2])),
                lambda: mutate(base, lambda n: n[0] == 'ccg', lambda n: (rng.choice(['ccg', 'x']), n[1], rng.choice([[], n[2] + n[2]]))),
                lambda: mutate(base, lambda n: n[0] in ('lf', 'rule'), set_attr('cat', lambda n: rng.choice(BADCATS))),
            ])()
            if m is None:
                continue
            rs, tab, seen = run_reader(reader_mod.read_xml, build_etree(m), lang, '.xml')
            add(lambda E: f'ChkReadXml {E.tab(tab)} {E.elem(seen)} {E.results(rs)}', ('read_xml', 'malformed', m))
            ctx.count(f'malformed:xml:{"ok" if rs is not None else "error"}')
        elif fmt == 'jigg':
            base = infoset(to_jigg_xml(doc, use_symbol=rng.random() < 0.5))
            ids = []

            def all_ids(n):
                if n[0] == 'span':
                    ids.append(dict(n[1]).get('id'))
                for c in n[2]:
                    all_ids(c)
            all_ids(base)
            m = rng.choice([
                lambda: mutate(base, lambda n: n[0] == 'span', drop_attr(['category', 'id', 'child', 'terminal'])),
                lambda: mutate(base, lambda n: n[0] == 'token', drop_attr(['id', 'surf', 'start', 'cat'])),
                lambda: mutate(base, lambda n: n[0] == 'ccg', drop_attr(['id', 'root'])),
                lambda: mutate(base, lambda n: n[0] == 'span' and 'child' in dict(n[1]), set_attr('child', lambda n: rng.choice(
                    [dict(n[1])['child'].replace(' ', '  '), dict(n[1])['id'], rng.choice(ids), 'nope', dict(n[1])['child'] + ' ' + rng.choice(ids), '']))),
                lambda: mutate(base, lambda n: n[0] == 'span', set_attr('id', lambda n: rng.choice(ids))),
                lambda: mutate(base, lambda n: n[0] == 'span' and 'terminal' in dict(n[1]), set_attr('terminal', lambda n: rng.choice(['s0_0', 's9_9', '']))),
                lambda: mutate(base, lambda n: n[0] == 'token', set_attr('word', lambda n: 'W')),
                lambda: mutate(base, lambda n: n[0] == 'token', set_attr('id', lambda n: rng.choice(['s0_0', 's0_1']))),
                lambda: mutate(base, lambda n: n[0] == 'span', set_attr('category', lambda n: rng.choice(BADCATS))),
                lambda: mutate(base, lambda n: n[0] == 'ccg', set_attr('root', lambda n: rng.choice(ids + ['nope']))),
                lambda: mutate(base, lambda n: n[0] in ('sentence', 'tokens', 'document', 'sentences'), lambda n: (rng.choice(['x', n[0]]), n[1], n[2][1:] if rng.random() < 0.5 else n[2])),
                lambda: mutate(base, lambda n: n[0] == 'sentence', lambda n: (n[0], n[1], n[2] + [('extra', [], [('token', [('id', 's0_0'), ('surf', 'late')], [])])])),
            ])()
            if m is None:
                continue
            rs, tab, seen = run_reader(reader_mod.read_jigg_xml, build_etree(m), lang, '.jigg.xml')
            add(lambda E: f'ChkReadJigg {E.tab(tab)} {E.elem(seen)} {E.results(rs)}', ('read_jigg', 'malformed', m))
            ctx.count(f'malformed:jigg:{"ok" if rs is not None else "error"}')
        else:
            root = infoset(to_jigg_xml(doc, use_symbol=rng.random() < 0.5))
            ccg = rng.choice([c for s in root[2][0][2][0][2] for c in s[2] if c[0] == 'ccg'])
            ids = [dict(s[1])['id'] for s in ccg[2]]
            m = rng.choice([
                lambda: ccg,
                lambda: mutate(ccg, lambda n: n[0] == 'ccg', drop_attr(['root'])),
                lambda: mutate(ccg, lambda n: n[0] == 'ccg', lambda n: (n[0], n[1], [])),
                lambda: mutate(ccg, lambda n: n[0] == 'ccg', set_attr('root', lambda n: rng.choice(ids + ['nope', 'a"b', dict(n[1])['id']]))),
                lambda: mutate(ccg, lambda n: n[0] == 'span' and 'child' in dict(n[1]), set_attr('child', lambda n: rng.choice(
                    [dict(n[1])['child'].replace(' ', ' \t  '), ' ' + dict(n[1])['child'] + '\n', dict(n[1])['id'], 'nope', '', rng.choice(ids) + '　' + rng.choice(ids)]))),
                lambda: mutate(ccg, lambda n: n[0] == 'span', set_attr('id', lambda n: rng.choice(ids))),
                lambda: mutate(ccg, lambda n: n[0] == 'span', drop_attr(['id', 'child'])),
                lambda: mutate(ccg, lambda n: n[0] == 'span', lambda n: (n[0], n[1], [('span', [('id', rng.choice(ids)), ('k', 'nested')], [])])),
            ])()
            if m is None:
                continue
            el = build_etree(m)
            el_in = infoset(el)         # the input as given (the model is run on this, whatever the builder does to `el`)
            try:
                built = build_ccg_tree(el)
                exp = lambda E, built=built: f'(Some {E.opt(None if built is None else infoset(built), E.elem)})'
                ctx.count(f'malformed:bct:{"none" if built is None else "ok"}')
            except Exception as e:      # noqa
                exp = lambda E: 'None'
                ctx.count(f'malformed:bct:error:{type(e).__name__}')
            add(lambda E: f'ChkBct {E.elem(el_in)} {exp(E)}', ('bct', 'malformed', m))
        made += 1
        ctx.case(('mal', fmt, repr(m)))

    # ------------------------------------------------------------------------------------------------------------------
    # 3. normalize_token on arbitrary printable text; _cat_multi_valued on categories of both systems
    from depccg.printer.jigg_xml import _cat_multi_valued
    words = list(gen.WORD_POOL) + ['-', '&', '-\n', '&\n', '--', '-.', '_', '_.', '', '.', 'a-b', '(x)', 'U.S.', '!', '_-', '&&', '-&', 'a,b.c(d)e!f-g']
    for _ in range(150 if ctx.quick else 1500):
        words.append(gen.rand_word(rng))
    # long runs of one reserved character (dotted leaders, rules of dashes, nested brackets): every occurrence is replaced
    for ch in '.,()!-&':
        for n in (31, 32, 33, 34, 40, 64, 65, 130):
            words.append(ch * n)
            words.append('a' + ch * n + rng.choice(['', 'b', '.']))
    for _ in range(20 if ctx.quick else 200):
        words.append(''.join(rng.choice('.,()!-ab') * rng.choice([1, 1, 2, 20, 35]) for _ in range(rng.randint(1, 5))))
    for w in words:
        try:
            v = normalize_token(w)
        except Exception as e:      # noqa
            ctx.fail('normalize_token_raised', f'normalize_token({w!r}) raised {type(e).__name__}', {'word': w})
            continue
        add(lambda E: f'ChkNorm {lit(w)} {lit(v)}', ('normalize_token', w, v))
        ctx.case(('norm', w), nontrivial=any(ch in STRIPPED for ch in w))
        if not v.startswith('_') or any(ch in STRIPPED for ch in v):
            ctx.fail('normalize_token_not_clean', f'normalize_token({w!r}) = {v!r}', {'word': w})
    ncat = 150 if ctx.quick else 1000
    for k in range(ncat):
        c = gen.rand_cat(rng, rng.choice(['en', 'ja']), depth=rng.randint(0, 3), exotic=(k % 5 == 0), slashes=gen.SLASHES)
        try:
            s = _cat_multi_valued(c)
        except Exception as e:      # noqa
            ctx.count(f'cmv_error:{type(e).__name__}')
            continue
        add(lambda E: f'ChkCmv {E.cat(c)} {lit(s)}', ('cmv', str(c), s))
        ctx.case(('cmv', str(c)), nontrivial=not c.is_atomic)

    restore()

    bad = ctx.coq_cases('xml', PRE + COMMON_DEFS, cases, chunk=40 if ctx.quick else 80, describe=lambda i: repr(descr[i])[:600])
    for i in (bad or [])[:10]:
        ctx.notes.append(f'model/implementation disagreement on {repr(descr[i])[:400]}')
    ctx.coq_cases('domain', PRE_DOM + COMMON_DEFS, dom_cases, chunk=20 if ctx.quick else 60, describe=lambda i: repr(dom_descr[i]))
    ctx.obligation(f'lxml serialise/parse keeps the infoset ({lxml_ok[0]} documents)', lxml_ok[1] == 0, f'{lxml_ok[1]} documents changed')
    ctx.trusted += ['hand-written model coq/Xml.v (tied by the correspondence cases of this run: encoders, readers, build_ccg_tree, normalize_token(s), _cat_multi_valued)',
                    'lxml: serialisation and parsing keep the infoset (tag, ordered attributes, element children); checked on every document of this run',
                    'guess_combinator_by_triplet enters the reader model as a parameter; in the correspondence it is the table of answers the implementation got',
                    'Python str(float) for the score attribute and str.isspace() (constant list in Xml.py_space)']
    return ctx.finish(
        level='proof',
        rule='documents of 1-3 sentences, each an n-best list of 1-3 derivations over the same token objects (grammar-licensed English/Japanese derivations built '
             'with the real rule functions over the shipped lexicons, and arbitrary well-formed trees), tokens over printable text incl. < > & quotes and '
             'non-ASCII; each document goes through xml_of/to_jigg_xml (both orders), the file readers, build_ccg_tree and normalize_tokens; build_ccg_tree is called three times on every <ccg> (the sentence must serialise identically before and after, '
             'stay self-contained, and every call must give the same tree); plus a malformed '
             'stream (dropped attributes, dangling/cyclic/duplicated ids, wrong child counts, bad category texts) on which model and implementation must agree '
             'on error vs result; non-trivial = more than one tree or an internal node; distinct by content',
        assumptions=['token keys are XML names and do not collide with start/span/cat (xml) or id/start/cat/surf (jigg); the five C&C attributes are present for read_xml',
                     'Jigg read-back is claimed for categories without unary feature values (Japanese triples), where _cat_multi_valued spells str(cat)',
                     'rule labels through read_jigg_xml are not claimed (the reader relabels by guess)',
                     'normalize_tokens leaves a surf/base that already starts with "_" untouched (e.g. "_." stays "_."); the cleanliness claim is checked on the other tokens'
                     + ('' if not STRICT_UNDERSCORE else ' - STRICT mode on')])


# ---------------------------------------------------------------------------------------------------------------------
class _ReplayCtx:
    """just enough of common.Ctx for the pipeline: collects failures, touches no evidence file"""

    def __init__(self):
        self.failures, self.stats, self.notes = [], {}, []
        self.work = os.path.join(env.WORK, 'C15', 'replay_tmp')
        os.makedirs(self.work, exist_ok=True)

    def fail(self, kind, desc, data):
        self.failures.append((kind, desc))

    def count(self, key, n=1):
        self.stats[key] = self.stats.get(key, 0) + n

    def obligation(self, name, ok, detail=''):
        if not ok:
            self.failures.append(('obligation', f'{name}: {detail}'))

    def case(self, *a, **k): pass
    def sample(self, *a, **k): pass


def doc_of_snapshot(snaps, scores):
    """rebuild an n-best document (shared token objects per sentence) from the plain data of a replay file"""
    doc = []
    for nb, scs in zip(snaps, scores):
        toks = [Token(**dict(kv)) for kv in (l[2] for l in snap_leaves(nb[0]))]

        def build(s, pos):
            c = Category.parse(s[1])
            if s[0] == 'L':
                same = [list(x) for x in toks[pos[0]].items()] == [list(x) for x in s[2]]
                tok = toks[pos[0]] if same else Token(**dict(s[2]))
                pos[0] += 1
                return Tree.make_terminal(tok, c, s[3], s[4])
            if s[0] == 'U':
                return Tree.make_unary(c, build(s[4], pos), s[2], s[3])
            l = build(s[5], pos)
            return Tree.make_binary(c, l, build(s[6], pos), s[2], s[3], s[4])
        doc.append([ScoredTree(build(s, [0]), sc) for s, sc in zip(nb, scs)])
    return doc


def replay(data):
    """./check C15 --replay work/C15/replay.json : re-run every recorded failing input against the implementation"""
    logging.getLogger('depccg.lang').setLevel(logging.WARNING)
    rc = 0
    for f in data.get('failures', []):
        d = f.get('data') or {}
        ctx = _ReplayCtx()
        if 'doc' in d:
            process, _, restore, _, _ = pipeline(ctx, lambda mk, dd: None)
            try:
                process(doc_of_snapshot(d['doc'], d['scores']), d['lang'], d['use_symbol'], d['jigg_first'], 'replay')
            finally:
                restore()
        elif 'word' in d:
            _, _, normalize_token, _ = load_ccg2lambda()
            v = normalize_token(d['word'])
            if not v.startswith('_') or any(ch in STRIPPED for ch in v):
                ctx.fail('normalize_token_not_clean', f'normalize_token({d["word"]!r}) = {v!r}', d)
        kinds = sorted({k for k, _ in ctx.failures})
        print(f"replay {f['kind']}: {'REPRODUCED' if f['kind'] in kinds else ('other failure: ' + str(kinds) if kinds else 'not reproduced')}")
        for k, desc in ctx.failures[:3]:
            print(f'  [{k}] {desc[:300]}')
        rc |= 1 if ctx.failures else 0
    if not data.get('failures'):
        print('no concrete failing input in this replay file; broken obligations:')
        for b in data.get('broken_obligations', [])[:10]:
            print(' ', (b.get('name') if isinstance(b, dict) else b))
    return rc
