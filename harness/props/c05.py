"""C05 - Category text and category values round-trip."""
import re
import gen
from gallina import lit, gcat, gopt
from depccg.cat import Category, Atom, Functor

PRE = '''From Coq Require Import List NArith Bool.
Import ListNotations.
Require Import Cat CatFacts P_C05.
Open Scope N_scope.
Definition ocat_eqb (a b : option cat) : bool := match a, b with Some x, Some y => cat_eqb x y | None, None => true | _, _ => false end.
Definition ChkP (t : text) (e : option cat) : bool := ocat_eqb (P_C05.parse t) e.
Definition ChkS (c : cat) (t : text) : bool := text_eqb (show c) t.
'''


def py_parse(text):
    """(outcome, value): 'ok' with a well-typed category, or 'notok' (exception, or an ill-typed object)"""
    try:
        v = Category.parse(text)
    except Exception as e:      # noqa
        return 'notok', type(e).__name__
    if gen.well_typed(v):
        return 'ok', v
    return 'notok', 'junk:' + type(v).__name__


def strip_brackets(s):
    return re.sub(r'[()<> ]', '', s)


def run(ctx):
    rng = ctx.rng
    ok = ctx.build(['P_C05.vo'])
    ctx.theorems('P_C05')

    cases, descr = [], []

    def add_parse(text, kind):
        out, v = py_parse(text)
        cases.append(f'ChkP {lit(text)} {gopt(v if out == "ok" else None, gcat)}')
        descr.append(('parse', kind, text, out, str(v)))
        ctx.case(('p', text), nontrivial=len(text) > 1)
        ctx.count(f'parse:{kind}:{out}')
        return out, v

    def add_show(c, kind):
        s = str(c)
        cases.append(f'ChkS {gcat(c)} {lit(s)}')
        descr.append(('show', kind, s))
        ctx.case(('s', s), nontrivial=not isinstance(c, Atom))
        return s

    def oracle_value(c, kind):
        """(A) parse(str(c)) == c for a well-formed value"""
        s = add_show(c, kind)
        out, v = add_parse(s, kind)
        if not (out == 'ok' and v == c and str(v) == s):
            ctx.fail('roundtrip_value', f'Category.parse(str(c)) != c for c = {s!r}: got {out} {v!r}', {'text': s, 'kind': kind})

    def oracle_text(c, kind):
        """(B) a text of c with redundant brackets / blanks reads as c"""
        ts = gen.bracket_text(rng, c)
        text = gen.join_blanks(rng, ts) if rng.random() < 0.5 else ''.join(ts)
        out, v = add_parse(text, kind)
        if not (out == 'ok' and v == c and strip_brackets(str(v)) == strip_brackets(text)):
            ctx.fail('roundtrip_text', f'text {text!r} of {str(c)!r} read as {out} {v!r}', {'text': text, 'cat': str(c)})

    def oracle_two_slashes(a, b, c, kind):
        """(C) operand slash operand slash operand at one level is rejected"""
        def optext(x):
            ts = gen.bracket_text(rng, x, top=False)
            if isinstance(x, Functor):
                ts = ['('] + ts + [')'] if ts[0] not in '(<' or not balanced_outer(ts) else ts
            return ts
        s1, s2 = rng.choice(gen.SLASHES), rng.choice(gen.SLASHES)
        ts = optext(a) + [s1] + optext(b) + [s2] + optext(c)
        variants = [ts]
        o, cl = rng.choice([('(', ')'), ('<', '>')])
        variants.append([o] + ts + [cl])
        variants.append(optext(a) + [rng.choice(gen.SLASHES), o] + ts + [cl])
        for v_ in variants:
            text = ''.join(v_)
            out, v = add_parse(text, kind)
            if out == 'ok':
                ctx.fail('two_slashes_accepted', f'{text!r} (two unbracketed slashes at one level) was read as {str(v)!r}', {'text': text})
            elif v in ('junk:Functor', 'junk:Atom'):
                # no exception, a category object came back (with a bracket or a slash where a category belongs): read as something else, not rejected
                ctx.fail('two_slashes_accepted', f'{text!r} (two unbracketed slashes at one level) was not rejected: Category.parse returned an ill-formed {v[5:]} object',
                         {'text': text})

    def balanced_outer(ts):
        """does the first bracket close at the very end?"""
        d = 0
        for i, t in enumerate(ts):
            if t in '(<':
                d += 1
            elif t in ')>':
                d -= 1
                if d == 0:
                    return i == len(ts) - 1
        return False

    # 1. exhaustive small values, both feature systems
    en_atoms = [gen.mk_atom(b, f) for b, f in [('S', None), ('S', 'dcl'), ('NP', 'X'), ('NP', 'nb'), ('N', None), (',', None), ('conj', None)]]
    ja_atoms = [gen.mk_atom('S', gen.JA_FEATS[0]), gen.mk_atom('NP', gen.JA_FEATS[3]), gen.mk_atom('S', gen.JA_FEATS[1])]
    n_en, n_ja = (3, 3) if ctx.quick else (4, 4)
    vals = gen.enum_cats(en_atoms, ['/', '\\', '|'] if not ctx.quick else ['/', '\\'], n_en) + gen.enum_cats(ja_atoms, ['/', '\\'], n_ja)
    if ctx.quick and len(vals) > 1500:
        head = vals[:400]
        vals = head + rng.sample(vals[400:], 1100)
    for c in vals:
        oracle_value(c, 'enum')
    for c in rng.sample(vals, min(len(vals), 300 if ctx.quick else 3000)):
        oracle_text(c, 'enum-bracketed')

    # 2. every category string of the shipped model files and of tests/cats*.txt
    shipped = gen.all_shipped_category_strings()
    for s in shipped:
        out, v = add_parse(s, 'shipped')
        if out != 'ok':
            ctx.fail('shipped_unreadable', f'shipped category text {s!r} is not readable: {v}', {'text': s})
            continue
        s2 = str(v)
        out2, v2 = py_parse(s2)
        if not (out2 == 'ok' and v2 == v and strip_brackets(s2) == strip_brackets(s)):
            ctx.fail('roundtrip_text', f'shipped text {s!r} prints as {s2!r} which reads as {v2!r}', {'text': s})
        if not gen.wf_py(v):
            ctx.fail('shipped_not_wf', f'shipped category {s!r} is outside the well-formedness domain of the theorems', {'text': s})
    ctx.stats['shipped_strings'] = len(shipped)

    # 3. random well-formed values (exotic names, non-ASCII), random bracketing and blanks
    n = 400 if ctx.quick else 6000
    made = 0
    while made < n:
        c = gen.rand_cat(rng, rng.choice(['en', 'en', 'ja']), depth=rng.randint(1, 4), exotic=True, slashes=gen.SLASHES)
        if not gen.wf_py(c):
            continue
        made += 1
        oracle_value(c, 'random')
        oracle_text(c, 'random-bracketed')
        if made % 3 == 0:
            # equal values built on other paths (a copy that came through pickling - what multiprocessing hands back -, a deep copy, a value whose
            # feature-less atoms carry an explicitly constructed empty feature) print the same text and are read back to themselves
            import copy, pickle
            from depccg.cat import UnaryFeature

            def explicit(x):
                if isinstance(x, Functor):
                    return Functor(explicit(x.left), x.slash, explicit(x.right))
                return Atom(x.base, UnaryFeature()) if (isinstance(x.feature, UnaryFeature) and x.feature.value is None) else x
            for how, v in (('pickled', pickle.loads(pickle.dumps(c))), ('deep-copied', copy.deepcopy(c)), ('explicit-empty-feature', explicit(c))):
                try:
                    ok = (v == c) and str(v) == str(c) and Category.parse(str(v)) == v
                    got = str(v)
                except Exception as e:      # noqa
                    ok, got = False, f'{type(e).__name__}: {e}'
                ctx.case(('copy', how, str(c)), nontrivial=not isinstance(c, Atom))
                if not ok:
                    ctx.fail('roundtrip_value', f'a {how} copy of the value {str(c)!r} prints as {got!r} / is not read back to itself', {'text': str(c), 'kind': 'copy:' + how})
                    break
        if made % 4 == 0:
            a, b = (gen.rand_cat(rng, 'en', depth=rng.randint(0, 2), slashes=gen.SLASHES) for _ in range(2))
            if gen.wf_py(a) and gen.wf_py(b):
                oracle_two_slashes(c, a, b, 'two-slashes')

    # 3b. three-part features written with their pairs in ANY order (and with other names): the text is the value's own text, so it reads back and prints unchanged
    ja_texts = [t for t in gen.inventory('ja') if '=' in t]
    for _ in range(120 if ctx.quick else 1500):
        t = rng.choice(ja_texts)

        def shuffle(m_):
            pairs = m_.group(1).split(',')
            if len(pairs) == 3:
                rng.shuffle(pairs)
                if rng.random() < 0.3:
                    k_ = rng.randrange(3)
                    pairs[k_] = rng.choice(['a', 'zz', 'case', 'fin', 'num']) + '=' + pairs[k_].split('=', 1)[1]
            return '[' + ','.join(pairs) + ']'
        text = re.sub(r'\[([^\]]*)\]', shuffle, t)
        out, v = add_parse(text, 'permuted-feature-pairs')
        if out == 'ok':
            s_ = add_show(v, 'permuted-feature-pairs')
            if strip_brackets(s_) != strip_brackets(text) or Category.parse(s_) != v:
                ctx.fail('roundtrip_text', f'text {text!r} (three-part features with their pairs in another order) is printed back as {s_!r}', {'text': text})
        else:
            ctx.fail('roundtrip_text', f'text {text!r} (three-part features with their pairs in another order) is not read: {v}', {'text': text})

    # 4. malformed stream: model and implementation must agree on Ok(value) / not-Ok
    for _ in range(300 if ctx.quick else 5000):
        add_parse(gen.token_soup(rng), 'soup')
    for s in ['', ' ', '/', '(', ')', '()', 'S/', '/S', 'S[', 'S[dcl', 'S[dcl]]', 'conj[X]', '(S/NP', 'S/NP)', '(S>', '<S)', '(S/NP>',
              'S[a=b,c=d]', 'S[a=b,c=d,e=f,g=h]', 'S[a=b=c,d=e,f=g]', 'S [ dcl ] / NP', '[', ']', 'S[(]', 'S/NP/NP', '(S/NP/NP)', 'S//NP', 'S|NP']:
        add_parse(s, 'corpus')

    bad = ctx.coq_cases('parse_show', PRE, cases, describe=lambda i: descr[i])
    for i in (bad or [])[:10]:
        ctx.notes.append(f'model/implementation disagreement on {descr[i]!r}')
    ctx.sample({'parse': descr[0]})
    for d in descr[len(descr) // 2: len(descr) // 2 + 3]:
        ctx.sample({'case': d})
    ctx.trusted += ['hand-written model coq/Cat.v of depccg/cat.py (tied by the correspondence cases of this run)',
                    'translator translate/gen_tables.py (punctuations, cat_split class)',
                    'harness/gen.py well_typed(): classification of ill-typed return values of Category.parse as not-Ok']
    return ctx.finish(
        level='proof',
        rule='cases = (text -> Category.parse outcome) and (value -> str) pairs: exhaustive small values over both feature systems, every '
             'category string of the shipped model files and tests, random well-formed values with exotic names and random redundant '
             'bracketing/blanks, two-slash texts, and a malformed token-soup stream; non-trivial = text longer than one character / '
             'functor value; distinct by text',
        assumptions=['wf domain: atom names and unary feature values non-empty and free of []()/\\|<> and blanks; a unary value does not contain '
                     'both = and ,; triple keys/values contain neither; an atom named like a punctuation category carries no feature',
                     'Python objects that Category.parse returns but that are not well-typed categories (e.g. the string "/") count as rejected'])
