"""Independent oracle of property C03 (English combinatory rules are sound), and the worker that runs the real
`depccg.grammar.en.apply_binary_rules` on category pairs in several processes.

The oracle re-states the CCG schemata of the property text on the *observable* results of the implementation; it reads
categories only through `is_functor / left / right / slash / base / feature.value` and never calls the helper predicates,
`Unification`, `clear_features` or `==` of the code under test.
"""
from string import ascii_letters
from depccg.cat import Atom, Functor, UnaryFeature, Category

LOOSE = (None, 'X', 'nb')          # absent, variable, 'nb': compatible with anything
LABELS = {('fa', '>'), ('ba', '<'), ('fc', '>B'), ('bx', '<B'), ('gfc', '>B'), ('gbx', '<B'), ('conj', '<Φ>'),
          ('lp', '<lp>'), ('rp', '<rp>'), ('lp', '<*>')}


# ---- reading categories ----------------------------------------------------------------------------------
def fv(a):
    return a.feature.value


def leaves(c):
    """leaf features, left to right"""
    if c.is_functor:
        return leaves(c.left) + leaves(c.right)
    return [fv(c)]


def in_domain(c):
    """the domain the property quantifies over: well-formed English categories (unary features, names non-empty)"""
    if isinstance(c, Atom):
        return isinstance(c.base, str) and c.base != '' and isinstance(c.feature, UnaryFeature) and (c.feature.value is None or isinstance(c.feature.value, str) and c.feature.value != '')
    return isinstance(c, Functor) and c.slash in ('/', '\\', '|') and in_domain(c.left) and in_domain(c.right)


def ceq(a, b):
    """same value (written here, not Category.__eq__)"""
    if a.is_functor != b.is_functor:
        return False
    if a.is_functor:
        return a.slash == b.slash and ceq(a.left, b.left) and ceq(a.right, b.right)
    return a.base == b.base and fv(a) == fv(b)


def erase_nb(c):
    """the rules see the categories with 'nb' erased"""
    if c.is_functor:
        return Functor(erase_nb(c.left), c.slash, erase_nb(c.right))
    return Atom(c.base) if fv(c) == 'nb' else c


def same_skeleton(a, b):
    if a.is_functor != b.is_functor:
        return False
    if a.is_functor:
        return a.slash == b.slash and same_skeleton(a.left, b.left) and same_skeleton(a.right, b.right)
    return a.base == b.base


def compat(f, g):
    return f == g or f in LOOSE or g in LOOSE


def matches(a, b):
    """identical up to features, features position-wise compatible"""
    return same_skeleton(a, b) and all(compat(f, g) for f, g in zip(leaves(a), leaves(b)))


def inst_of(a, r, pool):
    """r is a with only variable features replaced, each replacement being a feature of an input"""
    if a.is_functor != r.is_functor:
        return False
    if a.is_functor:
        return a.slash == r.slash and inst_of(a.left, r.left, pool) and inst_of(a.right, r.right, pool)
    return a.base == r.base and (fv(a) == fv(r) or (fv(a) == 'X' and fv(r) in pool))


def is_punct(c):
    return (not c.is_functor) and (c.base[0] not in ascii_letters or c.base in ('LRB', 'RRB', 'LQU', 'RQU'))


def is_type_raised(c):
    return c.is_functor and c.right.is_functor and ceq(c.right.left, c.left)


def is_modifier(c):
    return c.is_functor and ceq(c.left, c.right)


def bare(c, names):
    return (not c.is_functor) and fv(c) is None and c.base in names


def atom_is(c, base, feat=None):
    return (not c.is_functor) and c.base == base and fv(c) == feat


def cat_is(c, shape):
    """shape: nested tuples (left, slash, right) / (base, feat)"""
    if len(shape) == 2:
        return atom_is(c, *shape)
    return c.is_functor and c.slash == shape[1] and cat_is(c.left, shape[0]) and cat_is(c.right, shape[2])


S_NP = (('S', None), '\\', ('NP', None))
FWD, BWD = ('/', '|'), ('\\', '|')


# ---- soundness: is this result justified by the schema its label names? ------------------------------------
def justified(x, y, lab, sym, c):
    """x, y: the inputs with 'nb' erased; returns None if justified, else a short reason"""
    pool = set(leaves(x)) | set(leaves(y))
    if (lab, sym) not in LABELS:
        return f'label/symbol {lab!r}/{sym!r} names no schema'

    def functor_result(fun, other, build):
        """modifier: the other category unchanged; otherwise the built result with instantiated variable features"""
        if is_modifier(fun):
            return None if ceq(c, other) else 'a modifier must return the other category unchanged'
        return None if build() else 'result is not the functor\'s result part with variable features taken from the inputs'

    if lab == 'fa':
        if not (x.is_functor and x.slash in FWD and matches(x.right, y)):
            return 'premises of forward application do not hold'
        return functor_result(x, y, lambda: inst_of(x.left, c, pool))
    if lab == 'ba':
        if cat_is(x, ('S', 'dcl')) and cat_is(y, (('S', 'em'), '\\', ('S', 'em'))) and ceq(c, x):
            return None
        if not (y.is_functor and y.slash in BWD and matches(y.right, x)):
            return 'premises of backward application do not hold'
        return functor_result(y, x, lambda: inst_of(y.left, c, pool))
    if lab == 'fc':
        if not (x.is_functor and y.is_functor and x.slash in FWD and y.slash in FWD and matches(x.right, y.left)):
            return 'premises of forward composition do not hold'
        return functor_result(x, y, lambda: c.is_functor and c.slash == '/' and inst_of(x.left, c.left, pool) and inst_of(y.right, c.right, pool))
    if lab == 'bx':
        if not (x.is_functor and y.is_functor and x.slash in FWD and y.slash in BWD and matches(x.left, y.right)):
            return 'premises of backward crossed composition do not hold'
        if bare(y.right, ('N', 'NP')):
            return 'backward crossed composition over a bare N or NP'
        return functor_result(y, x, lambda: c.is_functor and c.slash == '/' and inst_of(y.left, c.left, pool) and inst_of(x.right, c.right, pool))
    if lab == 'gfc':
        if not (x.is_functor and x.slash in FWD and y.is_functor and y.left.is_functor and y.left.slash in FWD and matches(x.right, y.left.left)):
            return 'premises of generalised forward composition do not hold'
        return functor_result(x, y, lambda: c.is_functor and c.slash == y.slash and c.left.is_functor and c.left.slash == '/'
                              and inst_of(x.left, c.left.left, pool) and inst_of(y.left.right, c.left.right, pool) and inst_of(y.right, c.right, pool))
    if lab == 'gbx':
        if not (y.is_functor and y.slash in BWD and x.is_functor and x.left.is_functor and x.left.slash in FWD and matches(x.left.left, y.right)):
            return 'premises of generalised backward crossed composition do not hold'
        if bare(y.right, ('N', 'NP')):
            return 'generalised backward crossed composition over a bare N or NP'
        return functor_result(y, x, lambda: c.is_functor and c.slash == x.slash and c.left.is_functor and c.left.slash == '/'
                              and inst_of(y.left, c.left.left, pool) and inst_of(x.left.right, c.left.right, pool) and inst_of(x.right, c.right, pool))
    if lab == 'conj':
        if (atom_is(x, ',') or atom_is(x, ';') or atom_is(x, 'conj')) and not is_punct(y) and not is_type_raised(y) \
                and c.is_functor and c.slash == '\\' and ceq(c.left, y) and ceq(c.right, y):
            return None
        if atom_is(x, 'conj') and cat_is(y, (('NP', None), '\\', ('NP', None))) and ceq(c, y):
            return None
        return 'not an instance of conjunction'
    if lab == 'rp':
        return None if (is_punct(y) and ceq(c, x)) else 'right punctuation absorption must return the left category unchanged'
    if sym == '<lp>':
        if is_punct(x) and ceq(c, y):
            return None
        if (atom_is(x, 'LQU') or atom_is(x, 'LRB')) and c.is_functor and c.slash == '\\' and ceq(c.left, y) and ceq(c.right, y):
            return None
        return 'not an instance of left punctuation absorption'
    # the two comma type-changing rules
    if atom_is(x, ',') and (cat_is(y, (('S', 'ng'), '\\', ('NP', None))) or cat_is(y, (('S', 'pss'), '\\', ('NP', None)))) and cat_is(c, (S_NP, '\\', S_NP)):
        return None
    if atom_is(x, ',') and cat_is(y, (('S', 'dcl'), '/', ('S', 'dcl'))) and cat_is(c, (S_NP, '/', S_NP)):
        return None
    return 'not an instance of a comma type-changing rule'


# ---- completeness: schemata whose premises hold with identical matched parts ------------------------------
def expected(x, y):
    """(label, category) results that must be present for the ('nb'-erased) inputs"""
    out = []
    xf, yf = x.is_functor, y.is_functor
    if xf and x.slash in FWD and ceq(x.right, y):
        out.append(('fa', x.left))
    if yf and y.slash in BWD and ceq(y.right, x):
        out.append(('ba', y.left))
    # (a modifier functor returns the other category itself, whatever its slashes)
    if xf and yf and x.slash in FWD and y.slash in FWD and ceq(x.right, y.left):
        out.append(('fc', y if is_modifier(x) else Functor(x.left, '/', y.right)))
    if xf and yf and x.slash in FWD and y.slash in BWD and ceq(x.left, y.right) and not bare(y.right, ('N', 'NP')):
        out.append(('bx', x if is_modifier(y) else Functor(y.left, '/', x.right)))
    if xf and x.slash in FWD and yf and y.left.is_functor and y.left.slash in FWD and ceq(x.right, y.left.left):
        out.append(('gfc', y if is_modifier(x) else Functor(Functor(x.left, '/', y.left.right), y.slash, y.right)))
    if yf and y.slash in BWD and xf and x.left.is_functor and x.left.slash in FWD and ceq(x.left.left, y.right) and not bare(y.right, ('N', 'NP')):
        out.append(('gbx', x if is_modifier(y) else Functor(Functor(y.left, '/', x.left.right), x.slash, x.right)))
    if (atom_is(x, ',') or atom_is(x, ';') or atom_is(x, 'conj')) and not is_punct(y) and not is_type_raised(y):
        out.append(('conj', Functor(y, '\\', y)))
    if is_punct(x):
        out.append(('lp', y))
    if is_punct(y):
        out.append(('rp', x))
    # the listed type-changing rules: their premises are exact categories
    if cat_is(x, ('S', 'dcl')) and cat_is(y, (('S', 'em'), '\\', ('S', 'em'))):
        out.append(('ba', x))
    if atom_is(x, 'conj') and cat_is(y, (('NP', None), '\\', ('NP', None))):
        out.append(('conj', y))
    if atom_is(x, ',') and (cat_is(y, (('S', 'ng'), '\\', ('NP', None))) or cat_is(y, (('S', 'pss'), '\\', ('NP', None)))):
        out.append(('lp', mk(S_NP, '\\', S_NP)))
    if atom_is(x, ',') and cat_is(y, (('S', 'dcl'), '/', ('S', 'dcl'))):
        out.append(('lp', mk(S_NP, '/', S_NP)))
    return out


def mk(*shape):
    """the category of a shape (see cat_is)"""
    if len(shape) == 2:
        return Category.parse(shape[0] if shape[1] is None else f'{shape[0]}[{shape[1]}]')
    return Functor(mk(*shape[0]), shape[1], mk(*shape[2]))


def check_pair(x, y, results):
    """all violations of the property on one observed call; results: list of CombinatorResult. [] = none"""
    bad = []
    kx, ky = erase_nb(x), erase_nb(y)
    for r in results:
        if r.head_is_left is not True:
            bad.append(('head_not_left', f'{r.op_string} result {r.cat} has head_is_left={r.head_is_left!r}'))
        why = justified(kx, ky, r.op_string, r.op_symbol, r.cat)
        if why:
            bad.append(('unjustified', f'{r.op_string} {r.op_symbol} => {r.cat}: {why}'))
    for lab, c in expected(kx, ky):
        if not any(r.op_string == lab and ceq(r.cat, c) for r in results):
            bad.append(('missing', f'schema {lab} holds with identical parts but {c} labelled {lab} is not among the results'))
    return bad


def strict_bx_over_bare(x, y, results):
    """statistic only: a bx/gbx result whose *primary* (left) functor's composed-over part is a bare N/NP"""
    kx = erase_nb(x)
    for r in results:
        if r.op_string == 'bx' and kx.is_functor and bare(kx.left, ('N', 'NP')):
            return True
        if r.op_string == 'gbx' and kx.is_functor and kx.left.is_functor and bare(kx.left.left, ('N', 'NP')):
            return True
    return False


# ---- running the implementation in several processes ------------------------------------------------------
CATS = []          # filled by the parent before the pool is forked; workers address categories by index
ERR = {'AttributeError': 'AttrErr', 'KeyError': 'KeyErr', 'AssertionError': 'AssertErr', 'IndexError': 'IndexErr',
       'TypeError': 'TypeErr', 'RuntimeError': 'Twice'}


def work(chunk):
    """chunk: list of (i, j); returns the interesting pairs: (i, j, ('ok', results) | ('err', name), failures, strict)"""
    from depccg.grammar import en
    out = []
    for i, j in chunk:
        x, y = CATS[i], CATS[j]
        sx, sy = str(x), str(y)
        try:
            res = ('ok', list(en.apply_binary_rules(x, y)))
        except Exception as e:  # noqa
            res = ('err', ERR.get(type(e).__name__, 'TypeErr'))
        fails, strict = [], False
        if in_domain(x) and in_domain(y):
            if res[0] == 'err':      # totality is C14's; here only: a schema that must yield its result did not
                fails = [('missing', f'apply_binary_rules raised {res[1]} although schema {lab} holds with identical parts')
                         for lab, _ in expected(erase_nb(x), erase_nb(y))]
            else:
                fails = check_pair(x, y, res[1])
                strict = strict_bx_over_bare(x, y, res[1])
            if str(x) != sx or str(y) != sy:
                fails.append(('mutated', 'an argument was changed by the call'))
        if res[0] == 'err' or res[1] or fails:
            out.append((i, j, res, fails, strict))
    return out
