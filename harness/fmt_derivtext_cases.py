"""C07 (deriv, text level) - correspondence cases for the text reader coq/FmtDerivText.v.

The model's reader `dec_deriv_text` is run (inside coqc, vm_compute) on the text the REAL depccg.printer.deriv.deriv_of
prints, and compared with `view_deriv` of the tree - on the domain of the theorem
FmtDerivTextProofs.deriv_text_roundtrip (`deriv_text_okb t && cats_wfb t`); outside of it a case is true.

    from fmt_derivtext_cases import PRE_DERIVTEXT, tree_case, dom_case
    bad = ctx.coq_cases('derivtext', PRE_DERIVTEXT, [tree_case(t) for t in trees])

Self-test:  cd /verif/harness && PYTHONHASHSEED=0 /venv/bin/python -B fmt_derivtext_cases.py
"""
import os
import sys

sys.path.insert(0, os.path.join(os.path.dirname(os.path.dirname(os.path.abspath(__file__))), 'translate'))
from gallina import lit, gtree, gopt  # noqa: E402

PRE_DERIVTEXT = '''From Coq Require Import List NArith ZArith Bool Arith.
Import ListNotations.
Require Import Cat CatFacts Tree Fmt FmtCodec FmtDeriv FmtDerivText FmtDerivTextProofs.
Open Scope N_scope.
Fixpoint dt_view_eqb (a b : view text) : bool :=
  match a, b with
  | VLeaf c x, VLeaf d y => cat_eqb c d && text_eqb x y
  | VUn c l v, VUn d m w => cat_eqb c d && text_eqb l m && dt_view_eqb v w
  | VBin c l h v1 v2, VBin d m k w1 w2 => cat_eqb c d && text_eqb l m && Bool.eqb h k && dt_view_eqb v1 w1 && dt_view_eqb v2 w2
  | _, _ => false
  end.
Definition dt_oview_eqb (a b : option (view text)) : bool :=
  match a, b with Some x, Some y => dt_view_eqb x y | None, None => true | _, _ => false end.
(* the domain of FmtDerivTextProofs.deriv_text_roundtrip *)
Definition DerivTextDom (t : tree) : bool := deriv_text_okb t && cats_wfb t.
(* the model's text reader on the REAL printer's text e (None = deriv_of raised) *)
Definition ChkDerivText (t : tree) (e : option text) : bool :=
  match e with
  | Some txt => if DerivTextDom t then dt_oview_eqb (dec_deriv_text txt) (view_deriv t) else true
  | None => true
  end.
'''


def real_deriv(t):
    """the text deriv_of prints, None if it raises the exceptions the model makes explicit"""
    from depccg.printer.deriv import deriv_of
    try:
        return deriv_of(t)
    except (KeyError, IndexError, AssertionError):
        return None


def tree_case(t):
    """one Gallina term of type bool: the model's reader on the real text gives the tree's view (inside the domain)"""
    return f'ChkDerivText {gtree(t)} {gopt(real_deriv(t), lit)}'


def dom_case(t):
    """Gallina bool: the tree is inside the domain of the round-trip theorem (statistics)"""
    return f'DerivTextDom {gtree(t)}'


# ------------------------------------------------------------------------------------------------
def _selftest():
    import random
    import re
    import subprocess
    import time
    import env
    import gen
    import fmt_gen
    from depccg.lang import set_global_language_to
    from depccg.cat import Category
    from depccg.tree import Tree
    from depccg.types import Token

    rng = random.Random(env.seed())
    work = os.path.join(env.WORK, 'C07deriv')
    os.makedirs(work, exist_ok=True)
    trees, kinds = [], []

    def add(t, kind):
        trees.append(t)
        kinds.append(kind)

    for lang in ('en', 'ja'):
        set_global_language_to(lang)
        # the generator of c07.py: licensed / random first trees, re-bracketed and relabelled n-best trees
        while sum(1 for k in kinds if k == f'batch:{lang}') < 70:
            b, _ = fmt_gen.make_batch(rng, lang)
            for sent in b:
                for st in sent:
                    add(st.tree, f'batch:{lang}')
        # probe words (dashes, brackets, non-ASCII ...)
        for b in rng.sample(fmt_gen.probe_batches(rng, lang), 15):
            add(b[0][0].tree, f'probe:{lang}')
        cats = fmt_gen.pool(rng, lang)
        # inside the domain, at its border: words made of dashes, symbols with inner dashes / blanks / tabs, an empty symbol,
        # inner-node categories whose base name has a tab or U+00A0 (well-formed; only a newline is excluded there)
        for _ in range(12):
            words = [rng.choice(['-', '--', '---', '-x', 'x-', '<->', gen.rand_word(rng)]) for _ in range(rng.randint(1, 4))]
            t = fmt_gen.rand_over(rng, lang, [Token(word=w) for w in words], cats)

            def relabel(n):
                if n.is_leaf:
                    return n
                sym = rng.choice(['', '>-', '<- ->', 'a\tb', ' ', '>B-', n.op_symbol])
                c = rng.choice([Category.parse('S\tx'), Category.parse('N\u00a0P/N'), n.cat])
                if len(n.children) == 1:
                    return Tree.make_unary(c, relabel(n.children[0]), n.op_string, sym)
                return Tree.make_binary(c, relabel(n.children[0]), relabel(n.children[1]), n.op_string, sym, n.head_is_left)
            add(relabel(t), f'border:{lang}')
        # outside the domain (the case must be true whatever the reader does): blank / tab / NBSP / newline in a word,
        # an empty word, a symbol that starts with '-', a newline in a symbol, a leaf category with a tab, a token without a word
        for _ in range(10):
            t = gen.rand_tree(rng, lang, nleaves=rng.randint(1, 3), full_tokens=False)
            how = rng.choice(['blank', 'tab', 'nbsp', 'newline', 'empty', 'dashsym', 'nlsym', 'tabcat', 'noword'])
            lf = rng.choice(t.leaves)
            tok = lf.children[0]          # the Token (a dict) of the leaf
            if how in ('blank', 'tab', 'nbsp', 'newline', 'empty'):
                tok['word'] = {'blank': 'a b', 'tab': 'ab\t', 'nbsp': 'ab\u00a0', 'newline': 'a\nb', 'empty': ''}[how]
            elif how == 'noword':
                del tok['word']
            elif how == 'tabcat':
                t = Tree.make_unary(rng.choice(cats), Tree.make_terminal(Token(word='w'), Category.parse('N\tx')), 'lex', '<un>')
            else:
                sym = '-->' if how == 'dashsym' else 'a\nb'
                t = Tree.make_unary(rng.choice(cats), t, 'lex', sym)
            add(t, (f'raises:{lang}' if how == 'noword' else f'outside:{lang}:{how}'))

    cases = [tree_case(t) for t in trees]
    doms = [dom_case(t) for t in trees]
    fn = os.path.join(work, 'Cases_derivtext_selftest.v')
    with open(fn, 'w') as f:
        f.write(PRE_DERIVTEXT + '\n')
        f.write('Definition cases_ : list bool := [\n' + ';\n'.join(cases) + '].\n')
        f.write('Definition doms_ : list bool := [\n' + ';\n'.join(doms) + '].\n')
        f.write('Fixpoint mism_ (k : nat) (cs : list bool) : list nat := match cs with nil => nil | c :: r => if c then mism_ (S k) r else k :: mism_ (S k) r end.\n')
        f.write('Eval vm_compute in (mism_ 0%nat cases_).\n')
        f.write('Eval vm_compute in (mism_ 0%nat doms_).\n')
    t0 = time.time()
    p = subprocess.run(['timeout', '900', env.COQC, '-R', env.COQ, 'Depccg', '-Q', work, 'WC07deriv', fn], stdout=subprocess.PIPE, stderr=subprocess.PIPE, text=True)
    dt = time.time() - t0
    found = re.findall(r'=\s*(\[[^\]]*\]|nil)\s*:\s*list nat', p.stdout.replace('\n', ' '))
    if p.returncode != 0 or len(found) != 2:
        print('coqc FAILED:', (p.stdout + p.stderr)[-2000:])
        return 2
    idx = [[int(x) for x in re.findall(r'\d+', body)] if body != 'nil' else [] for body in found]
    bad, outside = idx
    raised = sum(1 for t in trees if real_deriv(t) is None)
    by_kind = {}
    for i, k in enumerate(kinds):
        k = k.split(':')[0]
        a = by_kind.setdefault(k, [0, 0])
        a[0] += 1
        a[1] += i not in outside
    print(f'cases={len(cases)} distinct={len(set(cases))} in_domain={len(cases) - len(outside)} deriv_of_raised={raised} mismatches={bad} coqc_seconds={dt:.1f}')
    print('in-domain per kind: ' + ', '.join(f'{k} {v[1]}/{v[0]}' for k, v in sorted(by_kind.items())))
    for i in bad[:5]:
        print('MISMATCH', kinds[i], repr(gen.tree_sig(trees[i]))[:600], repr(real_deriv(trees[i])))
    return 1 if bad else 0


if __name__ == '__main__':
    sys.exit(_selftest())
