"""Glue-level part of C02 / C09 / C12: real depccg.parsing.run on random batches, Tree-level oracles, and the
retrieve_tree correspondence (model tree_of on the recorded goal item == the Tree that was returned)."""
import math
import numpy
import glue, gen
from depccg.cat import Category


def run_glue(ctx, focus, n_batches):
    rng = ctx.rng
    cases, descr = [], []
    for b in range(n_batches):
        kind = rng.random()
        if kind < 0.35:
            lang = 'en'
            cats, roots, binary, unary = glue.real_setup('en')
        elif kind < 0.6:
            lang = 'ja'
            cats, roots, binary, unary = glue.real_setup('ja')
        else:
            lang = 'synthetic'
            cats, roots, binary, unary = glue.synthetic_setup(rng, ncat=rng.randint(3, 6))
        seen = None
        if lang == 'en' and rng.random() < 0.3:
            # seen-rule filtering: keep a random half of the pairs that fire
            from depccg.grammar import en
            import functools
            pairs = set()
            for x in cats:
                for y in cats:
                    if rng.random() < 0.5:
                        pairs.add((x.clear_features('X', 'nb'), y.clear_features('X', 'nb')))
            binary = functools.partial(en.apply_binary_rules, seen_rules=pairs)
            lang = 'en+seen'
        nbest = rng.choice([1, 1, 2, 4])
        pen8 = rng.choice([0, 1, 2])
        pruning = rng.choice([2, 3, 50])
        use_beta = rng.random() < 0.3
        theta_odd = rng.choice([15, 31, 63])
        max_length = rng.choice([250, 250, 3])
        max_step = rng.choice([10000000, 10000000, rng.randint(1, 30)])
        sents = [glue.rand_sentence(rng, len(cats), nmax=4 if ctx.quick else 5, full=rng.random() < 0.5) for _ in range(rng.randint(1, 4))]
        res, rec = glue.run(sents, cats, roots, binary, unary, unary_penalty=pen8 / 8.0, beta=math.exp(-theta_odd / 16.0), use_beta=use_beta,
                            pruning_size=pruning, nbest=nbest, max_step=max_step, max_length=max_length)
        ctx.count('glue:grammar:' + lang)
        if len(res) != len(sents):
            ctx.fail('result_count', f'{len(sents)} sentences in, {len(res)} result lists out', {'lang': lang})
            continue
        k = 0
        for si, (s, rs) in enumerate(zip(sents, res)):
            key = (lang, tuple(map(tuple, s.tag.tolist())), tuple(map(tuple, s.dep.tolist())), nbest, pruning, use_beta, max_step, max_length)
            if len(rs) == 1 and glue.is_placeholder(rs[0]):
                ctx.count('glue:placeholder')
                ctx.case(key, nontrivial=False)
                continue
            ctx.count('glue:parsed')
            ctx.case(key, nontrivial=len(s.tokens) > 1)
            adm = glue.admitted_cats(s, cats, pruning, use_beta, theta_odd)
            for ti, st in enumerate(rs):
                where = f'batch {b} sentence {si} tree {ti} ({lang})'
                if focus in ('c02',) and glue.is_placeholder(st):
                    ctx.fail('placeholder_among_parses', f'{where}: the failure placeholder appears next to real parses', {'where': where})
                glue.check_tree(ctx, focus, st.tree, st.score, s, cats, roots, binary, unary, adm, pen8 / 8.0, where)
                if k < len(rec):
                    cases.append(glue.retrieve_case(rec[k], st.tree))
                    descr.append(where)
                k += 1
        if k != len(rec):
            ctx.fail('finalizer_count', f'{len(rec)} items were handed to the finalizer but {k} trees were returned', {'lang': lang})
        if b < 2 and res and res[0]:
            ctx.sample({'glue_run': lang, 'first_tree': glue.auto_str(res[0][0].tree), 'score': res[0][0].score})
    ctx.coq_cases('retrieve_tree', glue.PRE, cases, chunk=60, describe=lambda i: descr[i])
    ctx.stats['retrieve_cases'] = len(cases)
