"""Glue-level part of C02 / C09 / C12: real depccg.parsing.run on random batches, Tree-level oracles, and the
retrieve_tree correspondence (model tree_of on the recorded goal item == the Tree that was returned)."""
import math
import numpy
import glue, gen
from depccg.cat import Category


def run_glue(ctx, focus, n_batches):
    import random
    cases, descr = [], []
    for b in range(n_batches):
        # every batch is generated from its own seed, so a failure is replayable from (seed, focus, tier, batch number)
        bseed = f'{ctx.seed}:{focus}:{int(ctx.quick)}:{b}'
        one_batch(ctx, focus, random.Random(bseed), b, bseed, cases, descr)
    if focus in ('c09', 'c02'):
        long_sentences(ctx, focus, 1 if ctx.quick else 8)
    special_batches(ctx, focus, cases, descr)
    huge_cache_batch(ctx, focus)
    ctx.coq_cases('retrieve_tree', glue.PRE, cases, chunk=60, describe=lambda i: descr[i])
    ctx.stats['retrieve_cases'] = len(cases)


def special_batches(ctx, focus, cases, descr):
    """two batches that every run contains, whatever the seed: (1) a pair of children with ~300 differently labelled results of which only those
    beyond index 255 lead to a parse; (2) bare-string tokens (bracket escapes among them) next to Token objects"""
    import random
    from depccg.types import CombinatorResult
    rng = random.Random(f'{ctx.seed}:{focus}:special')
    A_, B_, C_ = (Category.parse(x) for x in 'ABC')
    cats = [A_, B_, C_]
    dead = Category.parse('Zdead')
    for variant in ('wide', 'strings', 'after_failed_call'):
        bseed = f'{ctx.seed}:{focus}:special:{variant}'
        c = _TagFail(ctx, bseed)
        hl = rng.random() < 0.5
        if variant == 'after_failed_call':
            # several differently labelled results per pair and per unary category; first a call whose rule function hands back a list
            # whose LAST element is malformed (the call is abandoned in the middle of a result list), then an ordinary call in the same process
            table = {(x, y): [CombinatorResult(cat=C_, op_string=f'r1{x}{y}', op_symbol='<r1>', head_is_left=hl),
                              CombinatorResult(cat=B_, op_string=f'r2{x}{y}', op_symbol='<r2>', head_is_left=not hl),
                              CombinatorResult(cat=C_, op_string=f'r3{x}{y}', op_symbol='<r3>', head_is_left=not hl)] for x in cats for y in cats}
            utable = {A_: [CombinatorResult(cat=B_, op_string='ua', op_symbol='<ua>', head_is_left=True), CombinatorResult(cat=C_, op_string='ub', op_symbol='<ub>', head_is_left=True)]}
            bad = rng.choice([CombinatorResult(cat=C_, op_string=None, op_symbol='<bad>', head_is_left=True), CombinatorResult(cat=C_, op_string='bad', op_symbol=7, head_is_left=True)])
            ptable = {k_: [CombinatorResult(cat=r.cat, op_string='p' + r.op_string, op_symbol='<p>', head_is_left=r.head_is_left) for r in v_] + [bad] for k_, v_ in table.items()}
            putable = {k_: [CombinatorResult(cat=r.cat, op_string='p' + r.op_string, op_symbol='<p>', head_is_left=True) for r in v_] + [bad] for k_, v_ in utable.items()}
            for which in rng.sample(['binary', 'unary', 'binary'], 2):
                s0 = glue.rand_sentence(rng, 3, n=2)
                s0.tokens = [gen.rand_token(rng, 'en', full=False, plain=True) for _ in range(2)]
                pb = (lambda x, y: list(ptable.get((x, y), []))) if which == 'binary' else (lambda x, y: list(table.get((x, y), [])))
                pu = (lambda x: list(putable.get(x, []))) if which == 'unary' else (lambda x: [])
                if which == 'unary':
                    s0.tag[:, :] = -5.0
                    s0.tag[:, 0] = -0.125      # A, the category with unary rules
                try:
                    glue.run([s0], cats, cats, pb, pu, unary_penalty=0.125, beta=0.1, use_beta=False, pruning_size=50, nbest=1, max_step=20000, max_length=250)
                    ctx.count('glue:special:malformed_rule_result_accepted')
                except Exception:      # noqa
                    ctx.count('glue:special:malformed_rule_result_raised:' + which)
        if variant == 'wide':
            nres = rng.randint(259, 300)
            table = {(A_, B_): [CombinatorResult(cat=(dead if i < 256 else cats[i % 3]), op_string=f'w{i}', op_symbol=f'<w{i}>', head_is_left=hl) for i in range(nres)]}
            # (a rule name / symbol may be any string, the empty one included)
            utable = {A_: [CombinatorResult(cat=(dead if j < 256 else B_), op_string=('' if j % 2 == 0 else f'u{j}'), op_symbol=('' if j % 2 == 1 else f'<u{j}>'), head_is_left=True)
                           for j in range(nres)]}
        elif variant == 'strings':
            table = {(x, y): [CombinatorResult(cat=C_, op_string=f'r{x}{y}', op_symbol='<r>', head_is_left=hl)] for x in cats for y in cats}
            utable = {}
        binary, unary = (lambda x, y: list(table.get((x, y), []))), (lambda x: list(utable.get(x, [])))
        sents = []
        for n in ((2, 1, 2) if variant == 'wide' else (1, 3, 2, 4) if variant == 'after_failed_call' else (3, 2, 4)):
            s = glue.rand_sentence(rng, 3, n=n)
            s.tokens = [gen.rand_token(rng, 'en', full=False, plain=True) for _ in range(n)]
            if variant == 'wide':
                s.tag[:, :] = -5.0
                s.tag[0, 0] = -0.125            # A
                if n > 1:
                    s.tag[1, 1] = -0.25         # B
            elif variant == 'strings':
                for j in range(1, n):
                    s.tokens[j] = rng.choice(['-LRB-', '-RRB-', '-LCB-', '-RSB-', 'word', "n't"])
            sents.append(s)
        nbest = 1 if variant == 'wide' else rng.choice([1, 2])
        if variant == 'after_failed_call':
            sents[0].tag[0, :] = [-0.125, -3.0, -4.0]      # the first lookup of the call is a unary one with two results
        try:
            roots_ = [B_, C_] if variant in ('wide', 'after_failed_call') else cats        # wide: the lexical category A is no root, a one-word sentence needs the unary rule
            res, rec = glue.run(sents, cats, roots_, binary, unary, unary_penalty=0.125, beta=0.1, use_beta=False, pruning_size=2 if variant == 'wide' else 50,
                                nbest=nbest, max_step=20000, max_length=250)
        except Exception as e:      # noqa
            c.fail('run_raised', f'depccg.parsing.run raised {type(e).__name__}: {e} on the {variant} batch', {'variant': variant})
            continue
        ctx.count('glue:special:' + variant)
        k = 0
        for si, (s, rs) in enumerate(zip(sents, res)):
            ctx.case(('special', variant, si, tuple(map(tuple, s.tag.tolist()))), nontrivial=True)
            if len(rs) == 1 and glue.is_placeholder(rs[0]):
                if variant == 'wide':
                    c.fail('false_failure', f'{variant} batch, sentence {si}: no parse although the results beyond index 255 of the pair (A, B) / of the unary rules of A license one', {'variant': variant})
                continue
            for ti, st in enumerate(rs):
                where = f'{variant} batch sentence {si} tree {ti}'
                glue.check_tree(c, focus if focus in ('c02', 'c12', 'c09', 'c16') else 'c02', st.tree, st.score, s, cats, roots_, binary, unary, [list(cats)] * len(s.tokens), 0.125, where)
                if focus != 'c12':
                    glue.check_tree(c, 'c12', st.tree, st.score, s, cats, roots_, binary, unary, [list(cats)] * len(s.tokens), 0.125, where)
                if k < len(rec):
                    cases.append(glue.retrieve_case(rec[k], st.tree))
                    descr.append(where)
                k += 1


def huge_cache_batch(ctx, focus):
    """one sentence whose search asks the rule functions for more than 2^16 different pairs (260 lexical categories on each of two words, every one
    admitted) BETWEEN the creation of the constituents of the parse that is finally returned and its return: the root attachment is so bad that the finished
    parse waits in the agenda until every other item has been expanded.  The tree must still carry the labels of the results that created its nodes
    (each pair has two differently labelled results), whatever has happened to the rule cache meanwhile."""
    import random
    from depccg.types import CombinatorResult
    bseed = f'{ctx.seed}:{focus}:special:huge_cache'
    rng = random.Random(bseed)
    c = _TagFail(ctx, bseed)
    m = rng.randint(258, 264)
    T = [Category.parse(f'T{i}') for i in range(m)]
    idx = {t: i for i, t in enumerate(T)}
    R, Q = Category.parse('R'), Category.parse('Q')
    hl = rng.random() < 0.5

    def binary(x, y):
        i, j = idx.get(x), idx.get(y)
        if i is None or j is None:
            return []
        return [CombinatorResult(cat=R, op_string=f'a{i}_{j}', op_symbol='<a>', head_is_left=hl), CombinatorResult(cat=Q, op_string=f'b{i}_{j}', op_symbol='<b>', head_is_left=not hl)]

    def unary(x):
        return []
    s = glue.rand_sentence(rng, m, n=2)
    s.tokens = [gen.rand_token(rng, 'en', full=False, plain=True) for _ in range(2)]
    for j in range(2):
        order = list(range(m))
        rng.shuffle(order)
        for rank, k_ in enumerate(order):
            s.tag[j, k_] = -rank / 64.0
    s.dep[:, :] = -1.0
    s.dep[:, 0] = -40.0            # whoever is the head of the sentence, its attachment to the root is far worse than any other arc
    try:
        res, rec = glue.run([s], T, [R, Q], binary, unary, unary_penalty=0.125, beta=0.1, use_beta=False, pruning_size=m, nbest=1, max_step=2000000, max_length=250)
    except Exception as e:      # noqa
        c.fail('run_raised', f'depccg.parsing.run raised {type(e).__name__}: {e} on a two-word sentence with {m} admitted categories per word ({m * m} pairs asked in one search)',
               {'variant': 'huge_cache', 'm': m})
        return
    ctx.count('glue:special:huge_cache')
    ctx.case(('special', 'huge_cache', m, hl), nontrivial=True)
    rs = res[0]
    if len(rs) == 1 and glue.is_placeholder(rs[0]):
        c.fail('false_failure', f'huge_cache: no parse although every pair of lexical categories combines into a root category', {'variant': 'huge_cache', 'm': m})
        return
    for ti, st in enumerate(rs):
        where = f'huge_cache batch tree {ti}'
        for f_ in dict.fromkeys([focus if focus in ('c02', 'c12', 'c09', 'c16') else 'c02', 'c12']):
            glue.check_tree(c, f_, st.tree, st.score, s, T, [R, Q], binary, unary, [list(T)] * 2, 0.125, where)


def long_sentences(ctx, focus, count):
    """sentences of more than 256 tokens (max_length is the caller's option; 250 is only its default): Tree-level oracles only"""
    import random
    from depccg.types import CombinatorResult
    for k in range(count):
        bseed = f'{ctx.seed}:{focus}:long:{k}'
        rng = random.Random(bseed)
        c = _TagFail(ctx, bseed)
        n = rng.randint(257, 300)
        cats = [Category.parse('A')]      # one category: about n^3/6 pushes, well inside the step budget
        hl = rng.random() < 0.5
        table = {(x, y): [CombinatorResult(cat=rng.choice(cats), op_string=f'r{str(x)}{str(y)}', op_symbol='<r>', head_is_left=hl)] for x in cats for y in cats}
        binary, unary = (lambda x, y: list(table.get((x, y), []))), (lambda x: [])
        s = glue.rand_sentence(rng, len(cats), n=n)
        if isinstance(s.tokens[0], str):
            s.tokens[0] = gen.rand_token(rng, 'en', full=False, plain=True)      # the token depccg.parsing._type_check inspects
        pen8 = rng.choice([0, 1])
        try:
            res, rec = glue.run([s], cats, cats, binary, unary, unary_penalty=pen8 / 8.0, beta=0.1, use_beta=False, pruning_size=50, nbest=1,
                                max_step=10000000, max_length=1000)
        except Exception as e:      # noqa
            c.fail('run_raised', f'depccg.parsing.run raised {type(e).__name__}: {e} on a sentence of {n} tokens (max_length=1000)', {'n': n})
            continue
        ctx.count('glue:long_sentence')
        ctx.case(('long', n, len(cats), hl, tuple(s.tag[:3, 0].tolist())), nontrivial=True)
        if len(res) != 1 or glue.is_placeholder(res[0][0]):
            c.fail('false_failure', f'a sentence of {n} tokens over a total grammar (every pair of categories combines, every category is a root) was not parsed', {'n': n})
            continue
        glue.check_tree(c, focus, res[0][0].tree, res[0][0].score, s, cats, cats, binary, unary, [list(cats)] * n, pen8 / 8.0, f'long sentence {k} ({n} tokens)')


class _TagFail:
    """adds the batch seed to the data of every failure reported while a batch is processed"""

    def __init__(self, ctx, bseed):
        self._ctx, self._bseed = ctx, bseed

    def __getattr__(self, k):
        return getattr(self._ctx, k)

    def fail(self, kind, desc, data):
        d = dict(data) if isinstance(data, dict) else {'data': data}
        d['batch_seed'] = self._bseed
        self._ctx.fail(kind, desc, d)


def replay(data, focus):
    """re-generate the recorded batches from their seeds and re-run the oracles on the current implementation"""
    import random, common
    ctx = common.Ctx(data['property'] + '_replay', 'quick')
    seen = set()
    for f in data.get('failures', []):
        d = f.get('data', {})
        bs = d.get('batch_seed') if isinstance(d, dict) else None
        if bs and bs not in seen:
            seen.add(bs)
            if ':special:' in bs:
                seed, foc, _, _v = bs.split(':')
                ctx.seed = int(seed)
                if _v == 'huge_cache':
                    huge_cache_batch(ctx, foc)
                else:
                    special_batches(ctx, foc, [], [])
                continue
            if ':long:' in bs:
                seed, foc, _, b = bs.split(':')
                ctx.seed = int(seed)
                long_sentences(ctx, foc, int(b) + 1)      # regenerates that sentence (and the cheap earlier ones) from the seed
                continue
            seed, foc, quick, b = bs.split(':')
            ctx.quick = bool(int(quick))
            one_batch(ctx, foc, random.Random(bs), int(b), bs, [], [])
    for f in ctx.failures:
        print(f"REPRODUCED [{f['kind']}]: {f['desc'][:300]}")
    print(f'replayed {len(seen)} recorded batch(es): {len(ctx.failures)} failure(s) reproduce')
    return (1 if ctx.failures else 0), len(seen)


def one_batch(ctx0, focus, rng, b, bseed, cases, descr):
    ctx = _TagFail(ctx0, bseed)
    import json, os
    with open(os.path.join(ctx0.work, 'last_input.json'), 'w') as f_:      # names the batch being parsed, should the process die in it
        json.dump({'kind': 'process_crashed', 'batch_seed': bseed, 'focus': focus}, f_)
    if True:
        kind = rng.random()
        if kind < 0.35:
            lang = 'en'
            cats, roots, binary, unary = glue.real_setup('en')
        elif kind < 0.6:
            lang = 'ja'
            cats, roots, binary, unary = glue.real_setup('ja')
        else:
            lang = 'synthetic'
            cats, roots, binary, unary = glue.synthetic_setup(rng, ncat=rng.randint(3, 6))
        seen = None
        if lang == 'en' and rng.random() < 0.3:
            # seen-rule filtering: keep a random half of the pairs that fire
            from depccg.grammar import en
            import functools
            pairs = set()
            for x in cats:
                for y in cats:
                    if rng.random() < 0.5:
                        pairs.add((x.clear_features('X', 'nb'), y.clear_features('X', 'nb')))
            binary = functools.partial(en.apply_binary_rules, seen_rules=pairs)
            lang = 'en+seen'
        nbest = rng.choice([1, 1, 2, 4])
        pen8 = rng.choice([0, 1, 2])
        if focus == 'c09' and rng.random() < 0.2:
            pen8 = rng.choice([-1, -2, -3])      # a unary bonus: legal, and C09 quantifies over every penalty
            ctx.count('glue:penalty_negative')
        pruning = rng.choice([2, 3, 50])
        use_beta = rng.random() < 0.3
        theta_odd = rng.choice([15, 31, 63])
        max_length = rng.choice([250, 250, 3])
        max_step = rng.choice([300000, 300000, rng.randint(1, 30)])      # 300 000: far more than any generated sentence needs, small enough that a search that
        # does not converge ends within seconds
        if nbest > 1 and getattr(binary, 'wide', False):
            # hundreds of results for one pair: n-best search keeps every derivation, so the budget is kept small (the chart of a five-token
            # sentence would not fit into memory otherwise)
            max_step = min(max_step, rng.randint(50, 3000))
        if nbest > 1 and getattr(unary, 'self_loops', False):
            # a unary cycle has infinitely many derivations: n-best search of a sentence with fewer than nbest parses runs to the
            # step budget, so the budget is kept small here (1-best search stores one item per category and cell, and terminates)
            max_step = min(max_step, rng.randint(20, 400))
        sents = [glue.rand_sentence(rng, len(cats), nmax=4 if ctx.quick else 5, full=rng.random() < 0.5) for _ in range(rng.randint(1, 4))]
        if isinstance(sents[0].tokens[0], str):
            sents[0].tokens[0] = gen.rand_token(rng, 'en', full=False, plain=True)      # the token _type_check inspects
        if focus == 'c16' and rng.random() < 0.4:
            # rows flattened by the category dictionary to a huge negative value (the real apply_category_filters, in place)
            from depccg.types import ScoringResult
            P = glue.parsing()
            cat_dict = {}
            for s_ in sents:
                for t_ in s_.tokens:
                    if isinstance(t_, str):
                        continue        # apply_category_filters reads token.word: Token objects only
                    if rng.random() < 0.5:
                        cat_dict[t_['word']] = rng.sample(cats, rng.randint(1, max(1, len(cats) // 2)))
            if cat_dict and not any(isinstance(t_, str) for s_ in sents for t_ in s_.tokens):
                P.apply_category_filters([s_.tokens for s_ in sents], [ScoringResult(s_.tag, s_.dep) for s_ in sents], cats, cat_dict)
                ctx.count('glue:category_dictionary_applied')
        cfg = dict(unary_penalty=pen8 / 8.0, beta=math.exp(-theta_odd / 16.0), use_beta=use_beta, pruning_size=pruning, nbest=nbest,
                   max_step=max_step, max_length=max_length)
        call_cfg = dict(cfg)
        if focus == 'c16' and rng.random() < 0.35:
            # options the caller does not name take the documented defaults - whatever earlier calls in this process asked for
            DEFAULTS = dict(unary_penalty=0.1, beta=0.00001, use_beta=True, pruning_size=50, nbest=1, max_step=10000000, max_length=250)
            omitted = [k_ for k_ in DEFAULTS if rng.random() < 0.4]
            eff = {k_: (DEFAULTS[k_] if k_ in omitted else v_) for k_, v_ in cfg.items()}
            if eff['nbest'] > 1 and getattr(unary, 'self_loops', False) and 'max_step' in omitted:
                omitted.remove('max_step')
                eff['max_step'] = cfg['max_step']
            call_cfg = {k_: v_ for k_, v_ in cfg.items() if k_ not in omitted}
            cfg = eff
            pruning, use_beta, nbest, max_step, max_length = eff['pruning_size'], eff['use_beta'], eff['nbest'], eff['max_step'], eff['max_length']
            theta_odd = -math.log(eff['beta']) * 16.0
            pen8 = eff['unary_penalty'] * 8.0
            ctx.count(f'glue:options_omitted:{len(omitted)}')
        too_big = None
        if focus == 'c16' and 'max_step' in call_cfg and call_cfg['max_step'] >= 300000 and rng.random() < 0.12:
            # an option that does not fit the C struct (a step budget beyond 32 bits, meant as "no limit"): the extension refuses it with
            # OverflowError; whatever run() does about that, it must not answer with trees from another beam than the caller's
            too_big = (1 << 32) + rng.randint(0, 1000)
            call_cfg['max_step'] = too_big
            ctx.count('glue:option_beyond_32_bits')
        # the worker-pool path of depccg.parsing.run (batch larger than max_chunk_size) must honour the same configuration
        pool = focus in ('c16', 'c02') and lang != 'synthetic' and len(sents) >= 2 and rng.random() < 0.5      # (closures of the synthetic tables cannot be pickled)
        extra = dict(max_chunk_size=rng.randint(1, len(sents) - 1), processes=rng.randint(1, 3)) if pool else {}
        if pool:
            ctx.count('glue:pool_path')
        try:
            res, rec = glue.run(sents, cats, roots, binary, unary, record=not pool, **call_cfg, **extra)
            if pool:
                rec = None          # the finalizer ran in the worker processes
                for s_ in sents:
                    s_.by_value = True      # and the tokens came back through pickling: equal, not identical
        except OverflowError as e:
            if too_big is not None:
                ctx.count('glue:option_beyond_32_bits:OverflowError')
                return
            ctx.fail('run_raised', f'depccg.parsing.run raised OverflowError: {e} on a well-formed batch ({lang}, nbest={nbest})', {'lang': lang})
            return
        except Exception as e:      # noqa
            ctx.fail('run_raised', f'depccg.parsing.run raised {type(e).__name__}: {e} on a well-formed batch ({lang}, nbest={nbest})',
                     {'lang': lang, 'config': {k: (v if not isinstance(v, float) else float(v)) for k, v in cfg.items()},
                      'sentences': [{'tag': s.tag.tolist(), 'dep': s.dep.tolist(), 'words': [glue.word_of(t) for t in s.tokens]} for s in sents]})
            return
        if focus == 'c16':
            reference_compare(ctx, sents, res, cats, roots, binary, unary, cfg, lang)
        ctx.count('glue:grammar:' + lang)
        if len(res) != len(sents):
            ctx.fail('result_count', f'{len(sents)} sentences in, {len(res)} result lists out', {'lang': lang})
            return
        k = 0
        for si, (s, rs) in enumerate(zip(sents, res)):
            key = (lang, tuple(map(tuple, s.tag.tolist())), tuple(map(tuple, s.dep.tolist())), nbest, pruning, use_beta, max_step, max_length)
            if len(rs) == 1 and glue.is_placeholder(rs[0]):
                ctx.count('glue:placeholder')
                ctx.case(key, nontrivial=False)
                continue
            ctx.count('glue:parsed')
            ctx.case(key, nontrivial=len(s.tokens) > 1)
            adm = glue.admitted_cats(s, cats, pruning, use_beta, theta_odd)
            for ti, st in enumerate(rs):
                where = f'batch {b} sentence {si} tree {ti} ({lang})'
                if focus in ('c02',) and glue.is_placeholder(st):
                    ctx.fail('placeholder_among_parses', f'{where}: the failure placeholder appears next to real parses', {'where': where})
                glue.check_tree(ctx, focus, st.tree, st.score, s, cats, roots, binary, unary, adm, pen8 / 8.0, where)
                if rec is not None and k < len(rec):
                    cases.append(glue.retrieve_case(rec[k], st.tree))
                    descr.append(where)
                k += 1
        if rec is not None and k != len(rec):
            ctx.fail('finalizer_count', f'{len(rec)} items were handed to the finalizer but {k} trees were returned', {'lang': lang})
        if b < 2 and res and res[0]:
            ctx.sample({'glue_run': lang, 'first_tree': glue.auto_str(res[0][0].tree), 'score': res[0][0].score})


class IdGrammar:
    """category-id view of Category-level rule functions (fresh ids for new result categories, like parsing.pyx)"""

    def __init__(self, cats, binary, unary):
        self.cats = list(cats)
        self.ids = {c: i for i, c in enumerate(self.cats)}
        self.binary, self.unary = binary, unary

    def id(self, c):
        if c not in self.ids:
            self.ids[c] = len(self.cats)
            self.cats.append(c)
        return self.ids[c]

    def bin(self, x, y):
        return [(self.id(r.cat), r.head_is_left, r.op_string, r.op_symbol) for r in self.binary(self.cats[x], self.cats[y])]

    def un(self, x):
        return [(self.id(r.cat), True, r.op_string, r.op_symbol) for r in self.unary(self.cats[x])]


def reference_compare(ctx, sents, res, cats, roots, binary, unary, cfg, lang):
    """C16 (and configuration plumbing in general): what depccg.parsing.run returns must be what parse_sentence returns when it is
    given the caller's configuration directly - beam options (pruning_size, beta, use_beta) included"""
    import depccg_verif_rt as rt
    for si, (s, rs) in enumerate(zip(sents, res)):
        if len(s.tokens) > cfg['max_length']:
            continue
        g = IdGrammar(cats, binary, unary)
        ref = rt.search(s.tag, s.dep, [g.id(r) for r in roots], g.bin, g.un, unary_penalty=cfg['unary_penalty'], beta=cfg['beta'],
                        use_beta=cfg['use_beta'], pruning_size=cfg['pruning_size'], nbest=cfg['nbest'], max_step=cfg['max_step'], trace=False)
        got_failed = len(rs) == 1 and glue.is_placeholder(rs[0])
        data = {'lang': lang, 'config': {k: (float(v) if isinstance(v, float) else v) for k, v in cfg.items()}, 'tag': s.tag.tolist(), 'dep': s.dep.tolist()}
        if (ref['status'] != 0) != got_failed:
            ctx.fail('beam_config_not_honoured', f'sentence {si} ({lang}): run() {"failed" if got_failed else "parsed"} but the search with the caller\'s beam configuration '
                     f'(pruning_size={cfg["pruning_size"]}, use_beta={cfg["use_beta"]}, beta={cfg["beta"]:.4g}) {"fails" if ref["status"] else "parses"}', data)
            continue
        if not got_failed:
            ref_scores = [x['in'] + x['out'] for x in ref['goals']]
            got_scores = [st.score for st in rs]
            if len(ref_scores) != len(got_scores) or any(abs(a - b) > 1e-6 for a, b in zip(ref_scores, got_scores)):
                ctx.fail('beam_config_not_honoured', f'sentence {si} ({lang}): run() returned scores {got_scores} but the search with the caller\'s configuration returns {ref_scores}', data)
