"""Exact correspondence of the DETERMINISTIC twin of parse_sentence (coq/Heap.v + coq/DSearch.v + coq/DSearchCheck.v) with the real
parse_sentence of <repo>/depccg/parsing.h.

Unlike the trace validation of astar.py (`run_ok`: the model is GIVEN the pop trace and accepts it), the model here receives ONLY the
problem; the pop trace it predicts (every pop in order: kind, category, rule index, chart slots of the children, in/out score, span,
head, stored-or-discarded), the status, the goal derivations and their scores in finalizer order must be EQUAL to what the real
search did (`dsearch_ok`, vm_compute inside coqc).  This pins the tie-breaking of libstdc++'s std::priority_queue and the push order of
parse_sentence.

Entry points (call from a property module's run(ctx)):

    import dsearch_cases
    dsearch_cases.run_dsearch(ctx, n_cases)          # everything: builds P_DSearch.vo, checks its theorems (Print Assumptions),
                                                     # heap differential test, generated problems vs. the real search
    dsearch_cases.add_cases(ctx, [(p, r), ...])      # only the correspondence, for problems the caller already ran:
                                                     #   p = astar.Problem (tables explicit: use astar_checks.freeze for real grammars),
                                                     #   r = p.run()  (rt.search(..., trace=True))

Both return the list of mismatching case indices (None if coqc broke); every case is counted with ctx.case / ctx.count
('dsearch:...' statistics, among them 'dsearch:cases_with_tie_at_pop')."""
import time
import numpy
import astar as A
import astar_checks as AC
import heap_cases
from gallina import gnat, gZ

PRE = A.PRE + 'Require Import Heap DSearch DSearchCheck.\n'
MAX_POPS = 220


def dcase(p, r):
    goals = [A.node_deriv(g) for g in r['goals']]
    scores = [p.z(g['in'] + g['out']) for g in r['goals']]
    return (f'dsearch_ok {p.gallina()} {A.gtrace(p, r["trace"])} {gnat(r["status"])} [{";".join(A.gderiv(g) for g in goals)}] '
            f'[{";".join(gZ(s) for s in scores)}]')


def diag_case(p, r):
    return f'dsearch_diag {p.gallina()} {A.gtrace(p, r["trace"])}'


def tie_pops(r):
    """number of pops at which another agenda entry of exactly the same score was waiting (read off the real trace alone: a later pop
    of equal score whose item had been pushed before; entries that are never popped are not seen, so this is a lower bound)"""
    tr = r['trace']
    stored_at = {}
    for k, t in enumerate(tr):
        if t['stored'] and not t['fin']:
            stored_at[t['stored']] = k
    pushed = []
    for t in tr:
        kids = [stored_at[x] for x in (t['left'], t['right']) if x]
        pushed.append(max(kids) if kids else -1)        # pushed during that iteration (-1: before the loop)
    score = [t['in'] + t['out'] for t in tr]
    n = 0
    for k in range(len(tr)):
        if any(score[j] == score[k] and pushed[j] < k for j in range(k + 1, len(tr))):
            n += 1
    return n


def tie_heavy(rng, p):
    """redraw the scores of a problem from a very small set: most agenda entries tie exactly (tag scores may now repeat within a row:
    the tag heap orders equal scores by category id)"""
    vt = rng.choice([[0], [0, -1], [0, -1, -2], [0, -2, -4, -8], [-3, -3, -5]])
    vd = rng.choice([[0], [0, -1], [0, -1, -2], [0, -4], [-2, -6]])
    p.tag = numpy.array([[rng.choice(vt) / 8.0 for _ in range(p.K)] for _ in range(p.n)], dtype=numpy.float32)
    p.dep = numpy.array([[rng.choice(vd) / 8.0 for _ in range(p.n + 1)] for _ in range(p.n)], dtype=numpy.float32)
    return p


def gen_problem(rng, quick):
    """(problem, real-language-or-None, stream name)"""
    u = rng.random()
    nbest = 1 if rng.random() < 0.5 else rng.randint(2, 6)
    max_step = rng.choice([2000, 2000, 2000, 2000, rng.randint(1, 40)])
    if u < 0.22:
        lang = rng.choice(['en', 'ja'])
        p = AC.real_problem(rng, lang, nmax=3 if quick else 4, nbest=nbest, use_beta=rng.random() < 0.4, theta_odd=rng.choice([7, 31, 63]), max_step=max_step)
        if not p.use_beta:
            p.theta_odd = None
        stream = 'real_' + lang
        if rng.random() < 0.5:
            tie_heavy(rng, p); stream += '_ties'
        return p, lang, stream
    kw = {}
    stream = 'synthetic'
    if rng.random() < 0.4:
        kw['head_left'] = 'mixed'; stream += '_mixed'
    if rng.random() < 0.2:
        kw['underflow'] = 0.7; kw['beta'] = rng.random() < 0.5; stream += '_underflow'
    p = A.rand_problem(rng, nmax=4 if quick else rng.choice([4, 5, 6]), kmax=5, nbest=nbest, max_step=max_step, **kw)
    if 'underflow' not in kw and rng.random() < 0.6:
        tie_heavy(rng, p); stream += '_ties'
    return p, None, stream


def add_cases(ctx, problems_and_results, name='dsearch', info=None):
    """problems_and_results: [(astar.Problem with explicit tables, result of p.run())].  Returns mismatching indices."""
    cases, descr = [], []
    for k, (p, r) in enumerate(problems_and_results):
        pops = len(r['trace'])
        if pops > MAX_POPS:
            ctx.count('dsearch:trace_too_long_for_coq')
            continue
        ties = tie_pops(r)
        key = ('dsearch', tuple(map(tuple, p.tag.tolist())), tuple(map(tuple, p.dep.tolist())), tuple(p.roots), p.nbest, p.pruning, p.use_beta, pops)
        ctx.case(key, nontrivial=pops > p.n)
        ctx.count('dsearch:cases')
        ctx.count(f'dsearch:status:{r["status"]}')
        ctx.count('dsearch:nbest:' + ('1' if p.nbest <= 1 else '2+'))
        if ties:
            ctx.count('dsearch:cases_with_tie_at_pop')
            ctx.count('dsearch:tie_pops_total', ties)
        ctx.count('dsearch:pops_total', pops)
        cases.append(dcase(p, r))
        d = {'n': p.n, 'nbest': p.nbest, 'pops': pops, 'status': r['status'], 'tie_pops': ties, 'problem': p.to_json()}
        if info:
            d.update(info[k])
        descr.append(d)
    bad = ctx.coq_cases(name, PRE, cases, chunk=12, describe=lambda i: descr[i])
    ctx.stats[f'{name}_cases'] = len(cases)
    return bad


def run_dsearch(ctx, n_cases, heap_sequences=None):
    """builds P_DSearch.vo, checks its theorems, runs the heap differential test (heap_sequences sequences, default 200 quick /
    2000 thorough) and n_cases generated problems (random table grammars - mixed heads, unary-heavy, exp-underflow, tie-heavy score
    sets - and the real en/ja rule functions) through the real parse_sentence and the deterministic model."""
    ctx.build(['P_DSearch.vo'])
    ctx.theorems('P_DSearch')
    t0 = time.time()
    heap_cases.run_heap(ctx, heap_sequences if heap_sequences is not None else (200 if ctx.quick else 2000))
    ctx.stats['heap_s'] = round(time.time() - t0, 1)
    t0 = time.time()
    rng = ctx.rng
    prs, info = [], []
    for it in range(n_cases):
        p, real, stream = gen_problem(rng, ctx.quick)
        r = p.run()
        ctx.count('dsearch:stream:' + stream)
        prs.append((AC.freeze(p, r) if real else p, r))
        info.append({'stream': stream})
    ctx.stats['dsearch_gen_s'] = round(time.time() - t0, 1)
    bad = add_cases(ctx, prs, info=info)
    ctx.stats['dsearch_s'] = round(time.time() - t0, 1)
    ctx.trusted += ['coq/Heap.v (libstdc++ std::priority_queue, tied to the real library by harness/heap_driver.cpp: pop order and final vector layout)',
                    'coq/DSearch.v + DSearchCheck.v (deterministic twin of parse_sentence: its predicted pop trace, status, goals and scores equal the real ones on every case)']
    return bad
