"""Correspondence helpers for the grammar family (C03, C04, C06, C14): run the real rule functions / Unification
and express 'the translated Gallina grammar computes the same' as boolean Gallina terms."""
import functools
import gen
from gallina import lit, lits, gcat, gbool, glist
from depccg.cat import Category

ERR = {'AttributeError': 'AttrErr', 'KeyError': 'KeyErr', 'AssertionError': 'AssertErr', 'IndexError': 'IndexErr',
       'TypeError': 'TypeErr', 'RuntimeError': 'Twice'}

_PRE_HEAD = '''From Coq Require Import List NArith Bool.
Import ListNotations.
Require Import Cat CatFacts Unify GramPrims GenTables %s.
Open Scope N_scope.
Definition mk c a b h := {| rcat := c; op_string := a; op_symbol := b; head_is_left := h |}.
Fixpoint list_eqb {A} (e : A -> A -> bool) (a b : list A) := match a, b with [], [] => true | x :: a', y :: b' => e x y && list_eqb e a' b' | _, _ => false end.
Definition err_eqb (a b : err) : bool := match a, b with KeyErr, KeyErr | AttrErr, AttrErr | AssertErr, AssertErr | Twice, Twice | TypeErr, TypeErr | IndexErr, IndexErr => true | _, _ => false end.
Definition res_eqb {A} (e : A -> A -> bool) (a b : res A) : bool := match a, b with Ok_ x, Ok_ y => e x y | Err x, Err y => err_eqb x y | _, _ => false end.
'''
_PRE_DEFS = {
    'GenEn': '''Definition BinEn x y s e := res_eqb (list_eqb cres_eqb) (GenEn.apply_binary_rules x y s) e.
Definition UnEn x t e := res_eqb (list_eqb cres_eqb) (GenEn.apply_unary_rules x t) e.
''',
    'GenJa': '''Definition BinJa x y s e := res_eqb (list_eqb cres_eqb) (GenJa.apply_binary_rules x y s) e.
Definition UnJa x t e := res_eqb (list_eqb cres_eqb) (GenJa.apply_unary_rules x t) e.
''',
    'GenGuess': '''Definition Guess rs t e := cres_eqb (GenGuess.guess rs t) e.
''',
}


def pre(*mods):
    """the preamble of a case file that uses only the named generated files (a check must not depend on the translation of
    a grammar file it is not about)"""
    return _PRE_HEAD % ' '.join(mods) + ''.join(_PRE_DEFS[m] for m in mods)


PRE = pre('GenEn', 'GenJa', 'GenGuess')


def table_preamble(cats, name='tbl'):
    return (f'Definition {name} : list cat := [' + ';\n'.join(gcat(c) for c in cats) + '].\n'
            f'Definition g_{name} (i : nat) : cat := nth i {name} (Atom [] FNone).\n')


def gres(r):
    return f'(mk {gcat(r.cat)} {lit(r.op_string)} {lit(r.op_symbol)} {gbool(r.head_is_left)})'


def gresult(out):
    kind, v = out
    if kind == 'ok':
        return '(Ok_ ' + glist(v, gres) + ')'
    return f'(Err {v})'


def call(f, *a, **k):
    try:
        return 'ok', list(f(*a, **k))
    except Exception as e:   # noqa
        return 'err', ERR.get(type(e).__name__, 'TypeErr')


def gseen(seen):
    if seen is None:
        return 'None'
    return '(Some [' + ';'.join(f'({gcat(a)},{gcat(b)})' for a, b in seen) + '])'


def gtable(table):
    return '[' + ';'.join(f'({gcat(k)},{glist(v, gcat)})' for k, v in table.items()) + ']'


def sig(out):
    kind, v = out
    if kind == 'ok':
        return tuple((str(r.cat), r.op_string, r.op_symbol, r.head_is_left) for r in v)
    return ('err', v)
