"""Checks of the A* family (C01, C02, C09, C10, C12 parser side, C16): shared runner.
Every run: (1) theorems of the property file, (2) correspondence = the pop trace, status, goal derivations and scores of the
real parse_sentence (libdrv.so built from the repository's parsing.h, hook on) are accepted by the Coq model
(`run_ok`, vm_compute), (3) an independent oracle of the property on the implementation's output."""
import os
import functools, math
import numpy
import gen, astar as A
from depccg.cat import Category

EN_LEX = ['NP', 'N', 'NP[nb]/N', '(S[dcl]\\NP)/NP', 'N/N', '.', 'S[dcl]\\NP', '(S\\NP)\\(S\\NP)', 'conj', ',', 'PP/NP', '(NP\\NP)/NP',
          'S[dcl]', '(S[dcl]\\NP)/PP', 'S[pss]\\NP', '(S[dcl]\\NP)/(S[pss]\\NP)']
JA_LEX = ['NP[case=nc,mod=nm,fin=f]', 'NP[case=ga,mod=nm,fin=f]\\NP[case=nc,mod=nm,fin=f]', 'S[mod=nm,form=base,fin=f]\\NP[case=ga,mod=nm,fin=f]',
          'S[mod=nm,form=base,fin=t]\\S[mod=nm,form=base,fin=f]', 'NP[case=nc,mod=X1,fin=X2]/NP[case=nc,mod=X1,fin=X2]',
          '(S[mod=nm,form=base,fin=f]\\NP[case=ga,mod=nm,fin=f])\\NP[case=o,mod=nm,fin=f]', 'NP[case=o,mod=nm,fin=f]\\NP[case=nc,mod=nm,fin=f]',
          'S[mod=adn,form=base,fin=f]\\NP[case=ga,mod=nm,fin=f]', 'S[mod=X1,form=X2,fin=X3]/S[mod=X1,form=X2,fin=X3]', 'S[mod=nm,form=base,fin=f]']


class RealGrammar:
    """category-id view of the real rule functions; new result categories get fresh ids (like parsing.pyx does)"""

    def __init__(self, lang, lex, roots):
        self.lang = lang
        self.binary_fn, self.unary_fn, _ = gen.grammar(lang)
        self.cats = [Category.parse(s) for s in lex]
        self.ids = {c: i for i, c in enumerate(self.cats)}
        self.roots = [self.id(Category.parse(r)) for r in roots]
        self.bcache, self.ucache, self.labels = {}, {}, {}

    def id(self, c):
        if c not in self.ids:
            self.ids[c] = len(self.cats)
            self.cats.append(c)
        return self.ids[c]

    def bin(self, x, y):
        if (x, y) not in self.bcache:
            rs = self.binary_fn(self.cats[x], self.cats[y])
            self.bcache[(x, y)] = [(self.id(r.cat), r.head_is_left) for r in rs]
            for k, r in enumerate(rs):
                self.labels[('b', x, y, k)] = (r.op_string, r.op_symbol)
        return self.bcache[(x, y)]

    def un(self, x):
        if x not in self.ucache:
            rs = self.unary_fn(self.cats[x])
            self.ucache[x] = [self.id(r.cat) for r in rs]
            for k, r in enumerate(rs):
                self.labels[('u', x, k)] = (r.op_string, r.op_symbol)
        return self.ucache[x]


class _Lazy:
    def __init__(self, f, arity):
        self.f, self.arity, self.seen = f, arity, {}

    def get(self, k, default=None):
        r = self.f(*k) if self.arity == 2 else self.f(k)
        if r:
            self.seen[k] = r
        return r or (default if default is not None else [])

    def items(self):
        return self.seen.items()


def real_problem(rng, lang, nmax=4, nbest=1, **kw):
    lex = EN_LEX if lang == 'en' else JA_LEX
    roots = ['S[dcl]', 'NP'] if lang == 'en' else ['S[mod=nm,form=base,fin=f]', 'S[mod=nm,form=base,fin=t]', 'NP[case=nc,mod=nm,fin=f]']
    g = RealGrammar(lang, lex, roots)
    n = rng.randint(1, nmax)
    K = len(lex)
    tag = [[-v / 8.0 for v in rng.sample(range(0, 81), K)] for _ in range(n)]
    dep = [[-rng.randint(0, 40) / 8.0 for _ in range(n + 1)] for _ in range(n)]
    p = A.Problem(tag, dep, _Lazy(g.bin, 2), _Lazy(g.un, 1), g.roots, pen8=rng.choice([0, 1, 2]), pruning=kw.get('pruning', rng.choice([2, 3, 4])),
                  use_beta=kw.get('use_beta', False), theta_odd=kw.get('theta_odd'), nbest=nbest, max_step=kw.get('max_step', 10000000), labels=g.labels)
    p.grammar = g
    return p


def freeze(p, r):
    """a problem whose tables are exactly the rule applications the run performed (for the Coq case)"""
    q = A.Problem(p.tag, p.dep, {}, {}, p.roots, pen8=p.pen8, pruning=p.pruning, use_beta=p.use_beta, theta_odd=p.theta_odd, nbest=p.nbest,
                  max_step=p.max_step)
    for (x, y), rs in r['calls'].items():
        if y == A.rt.UINT_MAX:
            if rs:
                q.unary[x] = [c for c, _, _, _ in rs]
        elif rs:
            q.binary[(x, y)] = [(c, hl) for c, hl, _, _ in rs]
    return q


# ---- oracles ---------------------------------------------------------------------------------------------
def check_licensed(ctx, p, d, where, adm):
    """C02: the derivation is licensed by grammar and input (independent re-derivation of every node)"""
    def rec(d):
        if d[0] == 'L':
            if not (0 <= d[1] < p.n and d[2] in adm[d[1]]):
                ctx.fail('leaf_not_admitted', f'{where}: leaf {d} carries a tag that was not admitted for its token', {'deriv': repr(d), 'problem': p.gallina(), 'pjson': p.to_json()})
            return d[1], 1
        if d[0] == 'U':
            s, l = rec(d[3])
            if d[2] not in p.unary.get(A.dcat(d[3]), []):
                ctx.fail('unary_not_licensed', f'{where}: unary node {d[2]} is not a unary-rule result for {A.dcat(d[3])}', {'deriv': repr(d), 'problem': p.gallina(), 'pjson': p.to_json()})
            if p.n > 1 and l == p.n:
                ctx.fail('unary_at_root', f'{where}: a unary step spans the whole multi-word sentence', {'deriv': repr(d), 'problem': p.gallina(), 'pjson': p.to_json()})
            return s, l
        s1, l1 = rec(d[4])
        s2, l2 = rec(d[5])
        if s2 != s1 + l1:
            ctx.fail('not_adjacent', f'{where}: children of {d[:4]} are not adjacent spans', {'deriv': repr(d), 'problem': p.gallina(), 'pjson': p.to_json()})
        if (d[2], d[3]) not in p.binary.get((A.dcat(d[4]), A.dcat(d[5])), []):
            ctx.fail('binary_not_licensed', f'{where}: node category/head {d[2], d[3]} is not a grammar result for its children', {'deriv': repr(d), 'problem': p.gallina(), 'pjson': p.to_json()})
        return s1, l1 + l2
    s, l = rec(d)
    if (s, l) != (0, p.n) or A.dcat(d) not in p.roots:
        ctx.fail('not_complete', f'{where}: returned derivation does not span the sentence with an allowed root', {'deriv': repr(d), 'problem': p.gallina(), 'pjson': p.to_json()})


def pops_monotone(ctx, p, r):
    prev = None
    for k, t in enumerate(r['trace']):
        pr = p.z(t['in'] + t['out']) if abs(t['in'] + t['out']) < 1e6 else None
        if pr is None:
            return
        if prev is not None and pr > prev:
            ctx.fail('pops_not_monotone', f'pop {k} has priority {pr / A.SCALE} above the previous pop {prev / A.SCALE}', {'problem': p.gallina(), 'pop': k, 'pjson': p.to_json()})
            return
        prev = pr


def problem_from_json(d):
    if 'real' in d:
        import random
        p = real_problem(random.Random(0), d['real'], nbest=d['nbest'])
        p.tag = numpy.array(d['tag'], dtype=numpy.float32); p.dep = numpy.array(d['dep'], dtype=numpy.float32)
        p.n, p.K = p.tag.shape
        p.pen8, p.pruning, p.use_beta, p.theta_odd, p.max_step = d['pen8'], d['pruning'], d['use_beta'], d['theta_odd'], d['max_step']
        return p
    return A.Problem(d['tag'], d['dep'], {(x, y): [(c, h) for c, h in rs] for x, y, rs in d['binary']}, {x: rs for x, rs in d['unary']}, d['roots'],
                     pen8=d['pen8'], pruning=d['pruning'], use_beta=d['use_beta'], theta_odd=d['theta_odd'], nbest=d['nbest'], max_step=d['max_step'])


def replay(data, focus):
    """re-run the recorded failing problems on the current implementation with the same oracles; exit 1 if any still fails"""
    import common
    ctx = common.Ctx(data['property'] + '_replay', 'quick')
    n = 0
    for f in data.get('failures', []):
        d = f.get('data', {})
        if not isinstance(d, dict) or 'pjson' not in d:
            continue
        p = problem_from_json(d['pjson'])
        judge(ctx, focus, p, p.run(), 'real' in d['pjson'] and d['pjson']['real'])
        n += 1
    for f in ctx.failures:
        print(f"REPRODUCED [{f['kind']}]: {f['desc'][:300]}")
    print(f'replayed {n} recorded problem(s): {len(ctx.failures)} failure(s) reproduce')
    if not n:
        print(json_dump(data))
    return 1 if ctx.failures else 0


def json_dump(data):
    import json
    return json.dumps(data, indent=1, default=str)[:6000]


def with_grammar_flags(p, d):
    if d[0] == 'L':
        return d
    if d[0] == 'U':
        return ('U', d[1], d[2], with_grammar_flags(p, d[3]))
    l, r = with_grammar_flags(p, d[4]), with_grammar_flags(p, d[5])
    rs = p.binary.get((A.dcat(l), A.dcat(r)), [])
    hl = rs[d[1]][1] if d[1] < len(rs) else d[3]
    return ('B', d[1], d[2], hl, l, r)


def judge(ctx, focus, p, r, real):
    nbest = p.nbest
    pops = len(r['trace'])
    budget_hit = pops >= p.max_step
    # ---- oracles
    goals = [A.node_deriv(g) for g in r['goals']]
    scores16 = [p.z(g['in'] + g['out']) for g in r['goals']]
    adm = A.admitted(p)
    chart = A.all_derivations(p, adm, limit=60000)
    comp = A.complete_derivations(p, chart) if chart is not None else None
    if chart is None:
        ctx.count('oracle_skipped_too_many_derivations')
    head_uniform = len({hl for rs in (p.binary.seen.values() if real else p.binary.values()) for _, hl in rs}) <= 1
    pj = {'problem': (freeze(p, r) if real else p).gallina(), 'grammar': real or 'synthetic', 'pjson': p.to_json()}
    for i, d in enumerate(goals):
        if focus in ('c02', 'c10', 'c16', 'c01'):
            check_licensed(ctx, p, d, f'result {i}', adm)
        if focus in ('c09', 'c10', 'c01'):
            # head directions as the GRAMMAR result named by the rule index says (this is what the returned tree carries)
            want = A.total8(p, with_grammar_flags(p, d)) * 2
            if want != scores16[i]:
                ctx.fail('score_mismatch', f'reported score {scores16[i] / A.SCALE} of result {i} is not the model score {want / A.SCALE} of the returned derivation', dict(pj, deriv=repr(d)))
    if focus == 'c01' and real and not head_uniform:
        ctx.fail('shipped_grammar_not_head_uniform', f'the {real} rule functions returned results with different head directions in one search '
                 '(the first-pop-wins chart is sound only for head-uniform grammars)', pj)
    if focus == 'c01' and (nbest > 1 or head_uniform or real) and comp is not None:
        # 1-best: first pop wins per (span, category), sound for head-uniform grammars; n-best keeps every item, so the first goal is the optimum for any grammar
        pops_monotone(ctx, p, r)
        if r['status'] == 0:
            best = max(A.total8(p, d) for d in comp) * 2 if comp else None
            if best is None or scores16[0] != best:
                ctx.fail('suboptimal', f'first parse scores {scores16[0] / A.SCALE} but the best derivation scores {None if best is None else best / A.SCALE}', pj)
        elif comp and not budget_hit:
            ctx.fail('false_failure', f'sentence reported as failed although {len(comp)} derivation(s) exist within the step budget', pj)
    if focus == 'c16' and comp is not None and not budget_hit:
        if r['status'] != 0 and comp:
            ctx.fail('false_failure', 'sentence failed although a derivation over the beam-admitted tags exists', pj)
        if r['status'] == 0 and not comp:
            ctx.fail('beam_escaped', 'sentence parsed although no derivation exists over the beam-admitted tags', pj)
    if focus == 'c10' and comp is not None and not budget_hit:
        allsc = sorted((A.total8(p, d) * 2 for d in comp), reverse=True)
        want_n = min(p.nbest, len(comp))
        if len(goals) != want_n:
            ctx.fail('nbest_count', f'asked for {p.nbest} parses, {len(comp)} derivations exist, {len(goals)} returned', pj)
        if len(set(goals)) != len(goals):
            ctx.fail('nbest_duplicate', 'the same derivation was returned twice', pj)
        if scores16 != sorted(scores16, reverse=True):
            ctx.fail('nbest_order', f'scores are not in non-increasing order: {scores16}', pj)
        if scores16 != allsc[:len(scores16)]:
            ctx.fail('nbest_not_best', f'returned scores {scores16} are not the {len(scores16)} largest of all derivation scores {allsc[:8]}', pj)

    return goals


def boundary_budgets(ctx, focus, p, r, real, cases, descr):
    """the same sentence with the step budget set exactly to the number of pops a goal needed (and one less): a derivation completed
    WITHIN the budget must be returned - the search is deterministic, so the budgeted run is a prefix of the unlimited one"""
    import copy
    fin_at = [k + 1 for k, t in enumerate(r['trace']) if t['fin']]      # pops used when the i-th goal was taken from the agenda
    if not fin_at:
        return
    first = p.z(r['goals'][0]['in'] + r['goals'][0]['out'])
    which = ctx.rng.randrange(len(fin_at))
    for delta in (0, -1):
        p2 = copy.copy(p)
        p2.max_step = fin_at[which] + delta
        if p2.max_step < 1:
            continue
        r2 = p2.run()
        ctx.count(f'boundary_budget:{"exact" if delta == 0 else "one_short"}:status{r2["status"]}')
        ctx.case(('budget', tuple(map(tuple, p.tag.tolist())), tuple(map(tuple, p.dep.tolist())), tuple(p.roots), p.nbest, p.pruning, p.use_beta, p2.max_step), nontrivial=True)
        if len(r2['trace']) <= 220:
            cases.append(A.run_case(freeze(p2, r2) if real else p2, r2))
            descr.append({'n': p.n, 'nbest': p.nbest, 'pops': len(r2['trace']), 'status': r2['status'], 'grammar': real or 'synthetic', 'max_step': p2.max_step})
        pj = {'problem': (freeze(p2, r2) if real else p2).gallina(), 'grammar': real or 'synthetic', 'pjson': p2.to_json()}
        if delta == 0 and which == 0 or (delta == 0 and p.nbest > 1):
            # the budget covers the pop of goal number `which`: at least which+1 parses, the same ones as without a budget
            got = [p.z(g['in'] + g['out']) for g in r2['goals']]
            want_n = which + 1
            if r2['status'] != 0 or len(got) < want_n:
                ctx.fail('failed_within_budget', f'max_step={p2.max_step}: {want_n} derivation(s) are completed within this step budget (the unlimited run takes goal {which + 1} '
                         f'from the agenda at pop {fin_at[which]}), but the search reports status {r2["status"]} with {len(got)} parse(s)', pj)
            elif got[0] != first and p.pen8 >= 0:      # (with a unary bonus later goals may score higher: priorities are monotone only for a penalty >= 0)
                ctx.fail('budget_changes_first_parse', f'max_step={p2.max_step}: first parse scores {got[0] / A.SCALE}, without a budget {first / A.SCALE}', pj)


def float_stream(ctx, focus, n_problems):
    """real-valued log-probability matrices (log-softmax of random logits): outside the exact-arithmetic model, so no Coq case;
    the property is checked on the implementation with a rounding tolerance that scales with the sentence length"""
    rng = ctx.rng
    for it in range(n_problems):
        nbest = rng.randint(2, 5) if focus == 'c10' else rng.choice([1, 1, 3])
        p = A.rand_problem(rng, nmax=5, kmax=5, nbest=nbest, beta=False, pruning=50,
                           head_left=('mixed' if focus in ('c09', 'c10') and rng.random() < 0.3 else None))
        K = p.K
        logits = numpy.array([[rng.gauss(0, 2) for _ in range(K)] for _ in range(p.n)])
        p.tag = (logits - numpy.log(numpy.exp(logits).sum(axis=1, keepdims=True))).astype(numpy.float32)
        dl = numpy.array([[rng.gauss(0, 2) for _ in range(p.n + 1)] for _ in range(p.n)])
        p.dep = (dl - numpy.log(numpy.exp(dl).sum(axis=1, keepdims=True))).astype(numpy.float32)
        pen = rng.choice([0.0, 0.1, 0.25])
        sub = rng.random()
        if sub < 0.2:
            # probability 0 is a probability: -inf entries (masked arcs / tags); every row keeps a finite best entry
            for m_ in (p.tag, p.dep):
                for row in m_:
                    b_ = int(numpy.argmax(row))
                    for j_ in range(len(row)):
                        if j_ != b_ and rng.random() < 0.3:
                            row[j_] = -numpy.inf
            ctx.count('float_stream:minus_infinity')
        elif sub < 0.35 and p.n >= 3:
            # pure bracketing ambiguity: one category, X X -> X, constant dependency rows - all derivations have the same real score and
            # float sums that differ in the last bits
            p.binary = {(0, 0): [(0, True)]}
            p.unary = {}
            p.roots = [0]
            p.tag = p.tag[:, :1].copy()
            p.K = 1
            for row in p.dep:
                row[:] = row[0]
            K = 1
            ctx.count('float_stream:bracketing_ties')
        r = rt_search_float(p, pen)
        tol = 2e-5 * (p.n + 2) * 8
        chart = A.all_derivations(p, [list(range(K))] * p.n, limit=60000)
        if chart is None:
            continue
        comp = A.complete_derivations(p, chart)

        def fscore(d):
            if d[0] == 'L':
                return float(p.tag[d[1], d[2]])
            if d[0] == 'U':
                return fscore(d[3]) - pen
            l, r_ = d[4], d[5]
            h, c = (A.dhead(l), A.dhead(r_)) if d[3] else (A.dhead(r_), A.dhead(l))
            return fscore(l) + fscore(r_) + float(p.dep[c, h + 1])

        def total(d):
            return fscore(d) + float(p.dep[A.dhead(d), 0])
        goals = [with_grammar_flags(p, A.node_deriv(g)) for g in r['goals']]
        scores = [g['in'] + g['out'] for g in r['goals']]
        data = {'tag': p.tag.tolist(), 'dep': p.dep.tolist(), 'binary': [[x, y, [[c, h] for c, h in rs]] for (x, y), rs in p.binary.items()],
                'unary': [[x, list(rs)] for x, rs in p.unary.items()], 'roots': p.roots, 'pen': pen, 'nbest': nbest}
        ctx.case(('float', tuple(map(tuple, p.tag.tolist())), nbest), nontrivial=len(r['trace']) > p.n)
        ctx.count('float_stream')
        allsc = sorted((total(d) for d in comp), reverse=True)
        head_uniform = len({hl for rs in p.binary.values() for _, hl in rs}) <= 1
        import math as _m

        def differs(a, b):          # -inf equals -inf; NaN equals nothing
            return not (a == b or abs(a - b) <= tol)
        for i, d in enumerate(goals):
            if focus in ('c09', 'c10', 'c01') and differs(total(d), scores[i]):
                ctx.fail('score_mismatch_float', f'real-valued scores: reported {scores[i]} but the returned derivation scores {total(d)} (tolerance {tol:.2g})', data)
        if focus == 'c01' and nbest == 1 and head_uniform:
            if r['status'] == 0 and allsc and scores[0] < allsc[0] - tol:
                ctx.fail('suboptimal_float', f'real-valued scores: first parse scores {scores[0]} but a derivation scoring {allsc[0]} exists (tolerance {tol:.2g})', data)
            if r['status'] != 0 and comp:
                ctx.fail('false_failure_float', 'real-valued scores: sentence failed although derivations exist', data)
            pr = [t['in'] + t['out'] for t in r['trace']]
            if any(b > a + tol for a, b in zip(pr, pr[1:])):
                ctx.fail('pops_not_monotone_float', 'real-valued scores: pop priorities increase beyond rounding tolerance', data)
        if focus == 'c10':
            want_n = min(nbest, len(comp))
            if len(goals) != want_n:
                ctx.fail('nbest_count_float', f'real-valued scores: asked for {nbest}, {len(comp)} derivations exist, {len(goals)} returned', data)
            if len(set(goals)) != len(goals):
                ctx.fail('nbest_duplicate_float', 'real-valued scores: the same derivation was returned twice', data)
            if any(b > a for a, b in zip(scores, scores[1:])):
                ctx.fail('nbest_order_float', f'real-valued scores: reported scores are not in non-increasing order: {[repr(x) for x in scores]}', data)
            if any(differs(a, b) for a, b in zip(scores, allsc)):
                ctx.fail('nbest_not_best_float', f'real-valued scores: returned {scores} are not the largest of {allsc[:6]}', data)


def rt_search_float(p, pen):
    return A.rt.search(p.tag, p.dep, p.roots, p.bin_cb, p.un_cb, unary_penalty=pen, beta=1e-5, use_beta=False, pruning_size=50,
                       nbest=p.nbest, max_step=10000000, trace=True)


def run_family(ctx, focus, pfile):
    rng = ctx.rng
    A.LAST_INPUT = os.path.join(ctx.work, 'last_input.json')
    ctx.build([pfile + '.vo'])
    ctx.theorems(pfile)
    quick = ctx.quick
    cases, descr = [], []
    nprob = {'c01': 400, 'c02': 300, 'c09': 300, 'c10': 300, 'c16': 400}[focus] * (1 if quick else 40)
    for it in range(nprob):
        kind = rng.random()
        nbest = 1
        if focus == 'c10' or (focus in ('c02', 'c09') and rng.random() < 0.4) or (focus == 'c01' and rng.random() < 0.25):
            nbest = rng.randint(2, 6)       # C01: the FIRST parse of an n-best list is the optimum too
        if kind < 0.75:
            kw = {}
            if focus == 'c16':
                kw = {'beta': rng.random() < 0.7, 'pruning': rng.choice([1, 2, 3, 50])}
                if not kw['beta']:
                    kw['underflow'] = 0.6       # filter off: tags whose probability underflows to 0 are still limited by pruning_size only
                    kw['pruning'] = rng.choice([1, 2, 2, 3, 3, 50])      # ... so the cut often falls among them
            if focus in ('c02', 'c09', 'c10', 'c16') and rng.random() < 0.35:
                kw['head_left'] = 'mixed'       # these properties quantify over every grammar, head-uniform or not
                ctx.count('grammar:mixed_heads')
            p = A.rand_problem(rng, nmax=(rng.choice([4, 5, 6]) if not quick else 4), kmax=5, nbest=nbest,
                               max_step=rng.choice([2000, 2000, 2000, 2000, rng.randint(1, 40)]), **kw)
            if rng.random() < 0.08:
                p.pruning = rng.choice([2 ** 31 - 1, 2 ** 31, 2 ** 32 - 1])      # "no pruning" spelled as a huge unsigned value
                ctx.count('pruning:huge')
            real = None
        else:
            lang = rng.choice(['en', 'ja'])
            p = real_problem(rng, lang, nmax=4 if not quick else 3, nbest=nbest,
                             use_beta=(focus == 'c16' and rng.random() < 0.6), theta_odd=rng.choice([7, 31, 63]))
            if not p.use_beta:
                p.theta_odd = None
            real = lang
        if focus == 'c09' and rng.random() < 0.2:
            p.pen8 = rng.choice([-1, -2, -3])       # a negative unary penalty (a bonus) is a legal setting: C09 quantifies over every penalty
            ctx.count('penalty:negative')
        r = p.run()
        ctx.count(f'status:{r["status"]}')
        ctx.count('grammar:' + (real or 'synthetic'))
        ctx.count(f'nbest:{min(nbest, 3)}' + ('+' if nbest > 3 else ''))
        pops = len(r['trace'])
        budget_hit = pops >= p.max_step
        key = (tuple(map(tuple, p.tag.tolist())), tuple(map(tuple, p.dep.tolist())), tuple(p.roots), p.nbest, p.pruning, p.use_beta, pops)
        ctx.case(key, nontrivial=pops > p.n)
        # ---- correspondence case
        if pops <= 220:
            q = freeze(p, r) if real else p
            cases.append(A.run_case(q, r))
            descr.append({'n': p.n, 'nbest': p.nbest, 'pops': pops, 'status': r['status'], 'grammar': real or 'synthetic'})
        else:
            ctx.count('trace_too_long_for_coq')
        goals = judge(ctx, focus, p, r, real)
        if r['status'] == 0 and pops <= 220 and rng.random() < 0.3:
            boundary_budgets(ctx, focus, p, r, real, cases, descr)
        if it < 3:
            ctx.sample({'problem': p.to_json(), 'status': r['status'], 'pops': pops, 'goals': [repr(g) for g in goals][:2]})
    if focus in ('c01', 'c09', 'c10'):
        float_stream(ctx, focus, 150 if quick else 3000)
    bad = ctx.coq_cases('trace', A.PRE, cases, chunk=12, describe=lambda i: descr[i])
    ctx.stats['trace_cases'] = len(cases)
    return cases
