"""Install the de-cythonized depccg/parsing.pyx as depccg._parsing (Cython cannot be installed here), backed by the real
parsing.h through libdrv.so.  Fail-closed: decy refuses any Cython construct it does not translate."""
import importlib.util, os, sys, hashlib
import env
import decy

_installed = None


def install():
    global _installed
    if _installed is not None:
        return _installed
    src_path = os.path.join(env.REPO, 'depccg', 'parsing.pyx')
    src = open(src_path, encoding='utf-8').read()
    txt = decy.translate(src)
    out_dir = os.path.join(env.WORK, '_shim')
    os.makedirs(out_dir, exist_ok=True)
    out = os.path.join(out_dir, f'_parsing_py_{hashlib.sha1(txt.encode()).hexdigest()[:10]}.py')
    if not os.path.exists(out):
        tmp = out + f'.{os.getpid()}'
        open(tmp, 'w').write(txt)
        os.replace(tmp, out)
    spec = importlib.util.spec_from_file_location('depccg._parsing', out)
    mod = importlib.util.module_from_spec(spec)
    sys.modules['depccg._parsing'] = mod
    spec.loader.exec_module(mod)
    import depccg
    depccg._parsing = mod
    _installed = mod
    return mod
