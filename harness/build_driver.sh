#!/bin/bash
# (re)build harness/libdrv.so from the repository's current parsing.h; rebuilt only when header or driver changed
set -e
cd "$(dirname "$0")"
REPO=${DEPCCG_REPO:-/repo}
OUT=${DEPCCG_DRV_OUT:-$(pwd)/libdrv.so}
SUM=$(cat "$REPO/depccg/parsing.h" driver.cpp | sha1sum | cut -d' ' -f1)
if [ -f "$OUT" ] && [ -f "$OUT.sum" ] && [ "$(cat "$OUT.sum")" = "$SUM" ]; then exit 0; fi
(
  flock 9
  g++ -std=c++11 -O1 -fPIC -shared -I"$REPO" -include climits -o "$OUT.tmp.$$" driver.cpp
  mv "$OUT.tmp.$$" "$OUT"
  echo "$SUM" > "$OUT.sum"
) 9> "$OUT.lock"
