"""Glue-level runs: the real depccg.parsing.run (parsing.py + de-cythonized parsing.pyx + parsing.h) on random sentences
with the real or a synthetic grammar; Tree-level oracles for C02 / C09 / C12 and the retrieve_tree correspondence."""
import functools, math
import numpy
import shim
import depccg_verif_rt as rt
import gen
from gallina import lit, gcat, gbool, gnat, gtree, gtoken
from depccg.cat import Category
from depccg.tree import Tree, ScoredTree
from depccg.types import Token, ScoringResult, CombinatorResult
import astar as A

PRE = '''From Coq Require Import List NArith ZArith Bool Arith.
Import ListNotations.
Require Import Cat Tree GramPrims AStar Glue.
Open Scope N_scope.
Definition mk c a b h := {| rcat := c; op_string := a; op_symbol := b; head_is_left := h |}.
Definition dcatn := (Atom [] FNone).
Definition Retr (ct : list (nat * cat)) (bt : list (nat * nat * list cres)) (ut : list (nat * list cres)) (toks : list token) (d : @deriv nat) (e : option tree) : bool :=
  otree_eqb (retrieve (assoc1 dcatn ct) (assoc2 [] bt) (assoc1 [] ut) toks d) e.
'''


def parsing():
    shim.install()
    import depccg.parsing as P
    return P


class Sentence:
    def __init__(self, tokens, tag, dep):
        self.tokens, self.tag, self.dep = tokens, tag, dep


def rand_sentence(rng, K, nmax=5, lo=40, n=None, full=True):
    n = n or rng.randint(1, nmax)
    tag = numpy.array([[-v / 8.0 for v in rng.sample(range(0, max(lo, K) + 1), K)] for _ in range(n)], dtype=numpy.float32)
    dep = numpy.array([[-rng.randint(0, lo) / 8.0 for _ in range(n + 1)] for _ in range(n)], dtype=numpy.float32)
    toks = [gen.rand_token(rng, 'en', full=full, plain=rng.random() < 0.5) for _ in range(n)]
    if rng.random() < 0.25:
        # some bare strings among the Token objects (Tree.make_terminal accepts Union[str, Token]; depccg.parsing._type_check looks at the very
        # first token of a document only, which one_batch keeps a Token), bracket escapes among them
        toks = [(rng.choice(STR_WORDS) if rng.random() < 0.6 else (gen.rand_word(rng) or 'x')) if rng.random() < 0.5 else t for t in toks]
    return Sentence(toks, tag, dep)


STR_WORDS = ['-LRB-', '-RRB-', '-LCB-', '-RCB-', '-LSB-', '-RSB-', '-LRB-', '-RRB-', '(', ')', 'the', 'U.S.', "n't", '1/2']


def word_of(t):
    return t if isinstance(t, str) else t.get('word')


def real_setup(lang):
    import astar_checks as AC
    lex = AC.EN_LEX if lang == 'en' else AC.JA_LEX
    cats = [Category.parse(s) for s in lex]
    roots = [Category.parse(r) for r in (['S[dcl]', 'NP'] if lang == 'en' else ['S[mod=nm,form=base,fin=f]', 'S[mod=nm,form=base,fin=t]', 'NP[case=nc,mod=nm,fin=f]'])]
    binary, unary, table = gen.grammar(lang)
    return cats, roots, binary, unary


def synthetic_setup(rng, ncat=6, multi_label=True):
    """a table grammar over real Category objects where different results for the same children carry different labels"""
    atoms = ['A', 'B', 'C', 'D', 'E', 'F', 'G', 'H'][:ncat]
    cats = [Category.parse(a) for a in atoms]
    hl = rng.random() < 0.5
    mixed = rng.random() < 0.3        # results of one pair of children may differ in head direction
    table, utable = {}, {}
    for x in cats:
        for y in cats:
            if rng.random() < 0.4:
                k = rng.choice([1, 1, 2, 3])
                outs = [rng.choice(cats) for _ in range(k)]
                table[(x, y)] = [CombinatorResult(cat=c, op_string=f'r{i}{str(x)}{str(y)}', op_symbol=f'<{i}>', head_is_left=((rng.random() < 0.5) if mixed else hl)) for i, c in enumerate(outs)]
    if rng.random() < 0.25:
        # one pair with several hundred differently labelled results (a rule index does not fit a byte); the result categories cycle
        # with a period coprime to 256
        x, y = rng.choice(cats), rng.choice(cats)
        per = [c for c in cats][:3] if len(cats) >= 3 else cats
        dead = Category.parse('Zdead')          # a category no rule consumes and no root set contains: the first 256 results lead nowhere,
        table[(x, y)] = [CombinatorResult(cat=(dead if i < 256 else per[i % len(per)]), op_string=f'w{i}', op_symbol=f'<w{i}>',       # so a parse through this pair uses an index >= 256
                                          head_is_left=((i % 2 == 0) if mixed else hl)) for i in range(rng.randint(259, 300))]
    if rng.random() < 0.15 and table:
        # a rule name / symbol is any string - the empty one included
        k_ = rng.choice(list(table))
        table[k_] = [CombinatorResult(cat=r.cat, op_string='' if rng.random() < 0.6 else r.op_string, op_symbol='' if rng.random() < 0.4 else r.op_symbol,
                                      head_is_left=r.head_is_left) for r in table[k_]]
    empty_unary = rng.random() < 0.2
    for i, x in enumerate(cats[:-1]):
        if rng.random() < 0.4:
            outs = rng.sample(cats[i + 1:], min(len(cats) - i - 1, rng.choice([1, 2, 2])))
            if rng.random() < 0.35:
                # a unary result that rewrites the category to itself, listed among (often before) the others
                outs.insert(rng.choice([0, 0, len(outs)]), x)
            utable[x] = [CombinatorResult(cat=c, op_string=('' if empty_unary and j % 2 == 0 else f'u{j}{str(x)}'), op_symbol=('' if empty_unary and j % 2 == 1 else f'<u{j}>'),
                                          head_is_left=True) for j, c in enumerate(outs)]
    roots = [c for c in cats if rng.random() < 0.5] or [cats[0]]
    def unary(x):
        return list(utable.get(x, []))
    unary.self_loops = any(r.cat == x for x, rs in utable.items() for r in rs)

    def binary(x, y):
        return list(table.get((x, y), []))
    binary.wide = any(len(rs) > 50 for rs in table.values())
    return cats, roots, binary, unary


def run(sents, cats, roots, binary, unary, record=True, **kw):
    P = parsing()
    rt.RECORD = [] if record else None
    try:
        res = P.run([s.tokens for s in sents], [ScoringResult(s.tag, s.dep) for s in sents], cats, roots, binary, unary, **kw)
        rec = rt.RECORD
    finally:
        rt.RECORD = None
    return res, rec


def is_placeholder(st):
    t = st.tree
    return t.is_leaf and t.token.get('word') == 'FAILED' and len(t.token) == 1 and str(t.cat) == 'NP' and st.score == -float('inf')


def admitted_cats(s, cats, pruning, use_beta, theta_odd):
    """the beam restated from the property; beta = exp(-theta_odd/16) keeps every decision 1/16 away from the threshold.  Tags that TIE with the
    last tag inside pruning_size count as admitted too: which of several equally scored tags the implementation keeps is not the property's business"""
    out = []
    for i in range(len(s.tokens)):
        row = sorted(((float(s.tag[i, c]), c) for c in range(len(cats))), reverse=True)
        best = row[0][0]
        keep, last = [], None
        for k, (sc, c) in enumerate(row):
            if use_beta and not (sc - best > -theta_odd / 16.0):
                break
            if k >= pruning and sc != last:
                break
            keep.append(cats[c])
            if k < pruning:
                last = sc
        out.append(keep)
    return out


def tree_score(t, s, cats, pen):
    """the model score of a Tree from its head flags (C09), without the root attachment; returns (score, head index)"""
    ids = {c: i for i, c in enumerate(cats)}
    pos = [0]

    def rec(node):
        if node.is_leaf:
            i = pos[0]
            pos[0] += 1
            return float(s.tag[i, ids[node.cat]]), i
        if node.is_unary:
            sc, h = rec(node.child)
            return sc - pen, h
        sl, hl_ = rec(node.left_child)
        sr, hr = rec(node.right_child)
        if node.head_is_left:
            return sl + sr + float(s.dep[hr, hl_ + 1]), hl_
        return sl + sr + float(s.dep[hl_, hr + 1]), hr
    sc, h = rec(t)
    return sc + float(s.dep[h, 0]), h


def check_tree(ctx, focus, t, score, s, cats, roots, binary, unary, adm, pen, where):
    """Tree-level oracles: C02 (licensed), C09 (score), C12 (labels of the very result)"""
    leaves = t.leaves
    data = {'where': where, 'tree': auto_str(t)}
    if focus in ('c02', 'c12', 'c16'):
        if len(leaves) != len(s.tokens) or any(((l.token is not tok) if not getattr(s, 'by_value', False) else (type(l.token) is not type(tok) or dict(l.token) != dict(tok)))
                                               if not isinstance(tok, str) else (dict(l.token) != {'word': tok})
                                               for l, tok in zip(leaves, s.tokens)):
            ctx.fail('leaves_not_tokens', f'{where}: leaves do not carry the input tokens in order '
                     f'(leaves {[dict(l.token) for l in leaves][:6]}, tokens {[t if isinstance(t, str) else dict(t) for t in s.tokens][:6]})', data)
        for i, l in enumerate(leaves):
            if i < len(adm) and l.cat not in adm[i]:
                ctx.fail('leaf_not_admitted', f'{where}: leaf {i} has supertag {l.cat} which was not admitted for that token', data)
        if t.cat not in roots:
            ctx.fail('root_not_allowed', f'{where}: root category {t.cat} is not an allowed root', data)
        if len(s.tokens) > 1 and t.is_unary and not t.is_leaf:
            ctx.fail('unary_at_root', f'{where}: a unary step sits at the root of a multi-word sentence', data)

    def rec(node):
        if node.is_leaf:
            return
        for c in node.children:
            rec(c)
        if node.is_unary:
            rs = unary(node.child.cat)
        else:
            rs = binary(node.left_child.cat, node.right_child.cat)
        same_cat = [r for r in rs if r.cat == node.cat]
        if focus in ('c02', 'c12') and not same_cat:
            ctx.fail('node_not_licensed', f'{where}: node category {node.cat} is not a grammar result for its children', data)
        if focus == 'c12' and same_cat:
            if node.is_unary:
                ok = any((r.op_string, r.op_symbol) == (node.op_string, node.op_symbol) for r in same_cat)
            else:
                ok = any((r.op_string, r.op_symbol, r.head_is_left) == (node.op_string, node.op_symbol, node.head_is_left) for r in same_cat)
            if not ok:
                ctx.fail('label_not_of_creating_result', f'{where}: node {node.cat} carries ({node.op_string}, {node.op_symbol}, head_left={node.head_is_left}) '
                         f'but the grammar results with that category are {[(r.op_string, r.op_symbol, r.head_is_left) for r in same_cat]}', data)
    rec(t)
    if focus == 'c09':
        want, _ = tree_score(t, s, cats, pen)
        if abs(want - score) > 1e-4:
            ctx.fail('score_mismatch', f'{where}: reported score {score} but the returned tree (leaf tags, head flags, root, unary penalty) scores {want}', dict(data, reported=score, recomputed=want))


def auto_str(t):
    from depccg.printer.auto import auto_extended_of
    try:
        return auto_extended_of(t)
    except Exception as e:    # noqa
        return f'<unprintable: {e}>'


def retrieve_case(rec, tree):
    """Gallina case: the model's retrieve_tree on the recorded goal item yields exactly the Tree the glue built"""
    nd = rec['node']
    d = A.node_deriv(nd)
    cats = rec['fargs']['categories']
    toks = rec['fargs']['tokens']
    cached = rec['cached']
    ids, bkeys, ukeys = set(), set(), set()

    def walk(d):
        ids.add(d[2])
        if d[0] == 'U':
            ukeys.add(A.dcat(d[3])); walk(d[3])
        elif d[0] == 'B':
            bkeys.add((A.dcat(d[4]), A.dcat(d[5]))); walk(d[4]); walk(d[5])
    walk(d)

    def results(x, y):
        out = []
        for cid, a, b, h in cached.get((x, y), []):
            out.append(f'(mk {gcat(cats[cid])} {lit(a)} {lit(b)} {gbool(h)})')
        return '[' + ';'.join(out) + ']'
    ct = '[' + ';'.join(f'({gnat(i)},{gcat(cats[i])})' for i in sorted(ids)) + ']'
    bt = '[' + ';'.join(f'({gnat(x)},{gnat(y)},{results(x, y)})' for x, y in sorted(bkeys)) + ']'
    ut = '[' + ';'.join(f'({gnat(x)},{results(x, rt.UINT_MAX)})' for x in sorted(ukeys)) + ']'
    from depccg.types import Token
    # a bare string is a legal token (Union[str, Token]): the leaf then carries Token(word=<that string>)
    tk = '[' + ';'.join(gtoken(t if not isinstance(t, str) else Token(word=t)) for t in toks) + ']'
    return f'Retr {ct} {bt} {ut} {tk} {A.gderiv(d)} (Some {gtree(tree)})'
