"""C01 robustness against rounded priority comparisons (coq/P_C01_approx.v): the real float32 search on REAL-VALUED scores.

Every run of the real parse_sentence (libdrv.so, pop hook on) is analysed in exact rational arithmetic (fractions.Fraction of the
float32 inputs; the penalty is the float32 the C++ receives):
  * the derivation of every popped item is rebuilt from the trace, the agenda of the exact model is rebuilt pop by pop, and
        delta_obs = max over pops of (best exact priority on the agenda - exact priority of the popped item)   (>= 0)
    is measured: the real run is a run with slack delta_obs of the exact model (AStarApprox.reach_d), no smaller slack works;
  * ORACLE (independent of Coq): the conclusion of C01_approx_first_goal_near_optimal on the real output,
        score(d) - delta_obs * (nodes(d) + 1) <= score(first parse)      for EVERY complete derivation d (exhaustive enumeration),
    a failure only if no derivation exists, and in n-best mode score(d) - delta_obs <= score(g) for every returned g and every d
    not returned before g;
  * CORRESPONDENCE (inside coqc): `run_ok_s`: the pop order of the real run, with the exact scores of the popped items, is accepted by
    the slack-measuring replay of the implementation-level model, which measures the same delta_obs, same status, same first parse
    (so C01_approx_impl_measured_run_near_optimal applies to that very run).
Entry point: run_approx(ctx, n)."""
import time
from fractions import Fraction
import numpy
import astar as A
import astar_checks as AC
from gallina import gbool, gnat, gZ

PRE = A.PRE + 'Require Import AStarApprox.\n'


def F(x):
    return Fraction(float(x))


# ---- exact scores of derivations (the property's formulas, over the rationals) ----------------------------------------
class Exact:
    """all scores as Python integers in units of 1/S, S = the common (power-of-two) denominator of the float32 inputs"""

    def __init__(self, p, pen):
        self.p, self.n = p, p.n
        fpen = F(numpy.float32(pen))                      # cfg.unary_penalty is a C float
        ftag = [[F(v) for v in row] for row in p.tag]
        fdep = [[F(v) for v in row] for row in p.dep]
        self.S = S = max([fpen.denominator] + [v.denominator for m in (ftag, fdep) for row in m for v in row])
        conv = lambda v: int(v * S)
        assert all(conv(v) == v * S for m in (ftag, fdep) for row in m for v in row) and conv(fpen) == fpen * S
        self.pen = conv(fpen)
        self.tag = [[conv(v) for v in row] for row in ftag]
        self.dep = [[conv(v) for v in row] for row in fdep]
        self.besttag = [max(row) for row in self.tag]
        self.bestdep = [max(row) for row in self.dep]
        self.allbest = sum(self.besttag) + sum(self.bestdep)
        self._ins, self._geo, self._prio = {}, {}, {}

    def real(self, v):
        return Fraction(v, self.S)

    def geo(self, d):
        """(start, length, head, nodes)"""
        g = self._geo.get(d)
        if g is None:
            if d[0] == 'L':
                g = (d[1], 1, d[1], 1)
            elif d[0] == 'U':
                s, l, h, k = self.geo(d[3])
                g = (s, l, h, k + 1)
            else:
                s1, l1, h1, k1 = self.geo(d[4])
                s2, l2, h2, k2 = self.geo(d[5])
                g = (s1, l1 + l2, h1 if d[3] else h2, k1 + k2 + 1)
            self._geo[d] = g
        return g

    def ins(self, d):
        v = self._ins.get(d)
        if v is None:
            if d[0] == 'L':
                v = self.tag[d[1]][d[2]]
            elif d[0] == 'U':
                v = self.ins(d[3]) - self.pen
            else:
                hl, hr = self.geo(d[4])[2], self.geo(d[5])[2]
                h, c = (hl, hr) if d[3] else (hr, hl)
                v = self.ins(d[4]) + self.ins(d[5]) + self.dep[c][h + 1]
            self._ins[d] = v
        return v

    def out(self, d):
        """outside estimate of a non-final item (a unary item inherits its child's)"""
        while d[0] == 'U':
            d = d[3]
        s, l, h, _ = self.geo(d)
        if d[0] == 'L':
            return self.allbest - self.besttag[s]
        return self.allbest - sum(self.besttag[s:s + l]) - sum(self.bestdep[s:s + l]) + self.bestdep[h]

    def score(self, d):
        return self.ins(d) + self.dep[self.geo(d)[2]][0]

    def prio(self, item):
        v = self._prio.get(item)
        if v is None:
            fin, d = item
            v = self._prio[item] = self.score(d) if fin else self.ins(d) + self.out(d)
        return v

    def fields(self, item):
        """(in, out) as the implementation-level model stores them"""
        fin, d = item
        return (self.score(d), 0) if fin else (self.ins(d), self.out(d))


def trace_items(ex, tr):
    """the popped items of a trace as (fin, derivation), rebuilt from the child references"""
    by_ptr, out = {}, []
    for t in tr:
        if t['fin']:
            d = by_ptr[t['left']]
        elif not t['left']:
            d = ('L', t['start'], t['cat'])
        elif not t['right']:
            d = ('U', t['rule'], t['cat'], by_ptr[t['left']])
        else:
            l, r = by_ptr[t['left']], by_ptr[t['right']]
            d = ('B', t['rule'], t['cat'], t['head'] == ex.geo(l)[2], l, r)
        out.append((bool(t['fin']), d))
        if t['stored'] and not t['fin']:
            by_ptr[t['stored']] = d
    return out


def measure(ex, p, items, tr, adm):
    """replay of the pop order on the exact model; returns (delta_obs, goals in pop order, per-pop slacks) or a string naming the
    first pop the exact model cannot follow"""
    n, dedup = p.n, p.nbest <= 1
    agenda = {}
    for i in range(n):
        for c in adm[i]:
            it = (False, ('L', i, c))
            agenda[it] = agenda.get(it, 0) + 1
    chart, keys, goals, slacks = [], set(), [], []
    roots = set(p.roots)
    for k, (item, t) in enumerate(zip(items, tr)):
        if agenda.get(item, 0) <= 0:
            return f'pop {k}: the popped item is not on the agenda of the exact model'
        pa = ex.prio(item)
        slacks.append(max(ex.prio(b) for b in agenda) - pa)
        agenda[item] -= 1
        if not agenda[item]:
            del agenda[item]
        fin, d = item
        if fin:
            goals.append(d)
            continue
        s, l, h, _ = ex.geo(d)
        key = (s, l, d[2])
        stored = not (dedup and key in keys)
        if stored != bool(t['stored']):
            return f'pop {k}: the real search {"stored" if t["stored"] else "dropped"} the item, the exact model does the opposite'
        if not stored:
            continue
        new = []
        if l == n and d[2] in roots:
            new.append((True, d))
        if n == 1 or l != n:
            new += [(False, ('U', ri, c, d)) for ri, c in enumerate(p.unary.get(d[2], []))]
        for o in chart:
            so, lo, _, _ = ex.geo(o)
            if so == s + l:
                new += [(False, ('B', ri, c, hl, d, o)) for ri, (c, hl) in enumerate(p.binary.get((d[2], o[2]), []))]
            if so + lo == s:
                new += [(False, ('B', ri, c, hl, o, d)) for ri, (c, hl) in enumerate(p.binary.get((o[2], d[2]), []))]
        for it in new:
            agenda[it] = agenda.get(it, 0) + 1
        chart.append(d)
        keys.add(key)
    return max([0] + slacks), goals, slacks


# ---- generators: real-valued float32 scores ------------------------------------------------------------------------------
def softmax_scores(rng, p, sd=2.0):
    logits = numpy.array([[rng.gauss(0, sd) for _ in range(p.K)] for _ in range(p.n)])
    p.tag = (logits - numpy.log(numpy.exp(logits).sum(axis=1, keepdims=True))).astype(numpy.float32)
    dl = numpy.array([[rng.gauss(0, sd) for _ in range(p.n + 1)] for _ in range(p.n)])
    p.dep = (dl - numpy.log(numpy.exp(dl).sum(axis=1, keepdims=True))).astype(numpy.float32)


def near_tie_scores(rng, p):
    """few distinct base values (so that many derivations tie exactly on the base), each entry then moved by a few float32 ulps or by a
    tiny real amount: score differences between competing derivations are of the size of the rounding errors of the sums"""
    base = [-rng.choice([0.3, 0.7, 1.1, 1.9, 2.3, 3.1]) for _ in range(rng.randint(2, 4))]
    eps = rng.choice([0.0, 1e-7, 3e-7, 1e-6])

    def one():
        v = numpy.float32(rng.choice(base) + rng.uniform(-eps, eps))
        for _ in range(rng.randint(0, 3)):
            v = numpy.nextafter(v, numpy.float32(rng.choice([-10.0, 0.0])), dtype=numpy.float32)
        return v
    p.tag = numpy.array([[one() for _ in range(p.K)] for _ in range(p.n)], dtype=numpy.float32)
    p.dep = numpy.array([[one() for _ in range(p.n + 1)] for _ in range(p.n)], dtype=numpy.float32)


def gen_problem(rng, quick):
    kind = rng.random()
    nbest = 1 if rng.random() < 0.8 else rng.randint(2, 4)
    if kind < 0.8:
        p = A.rand_problem(rng, nmax=4 if quick else 5, kmax=5, nbest=nbest, beta=False, pruning=50)
        real = None
    else:
        real = rng.choice(['en', 'ja'])
        p = AC.real_problem(rng, real, nmax=3, nbest=nbest, pruning=rng.choice([2, 3]))
    style = 'near_tie' if rng.random() < 0.6 else 'softmax'
    (near_tie_scores if style == 'near_tie' else softmax_scores)(rng, p)
    if p.pruning < p.K:
        # the beam cuts: keep the tag scores of a row distinct so that the cut does not depend on tie-breaking
        for row in p.tag:
            seen = set()
            for c in range(p.K):
                while float(row[c]) in seen:
                    row[c] = numpy.nextafter(row[c], numpy.float32(-100.0), dtype=numpy.float32)
                seen.add(float(row[c]))
    pen = rng.choice([0.0, 0.1, 0.25, 1e-6])
    return p, pen, real, style


def search(p, pen):
    return A.rt.search(p.tag, p.dep, p.roots, p.bin_cb, p.un_cb, unary_penalty=pen, beta=1e-5, use_beta=False, pruning_size=p.pruning,
                       nbest=p.nbest, max_step=10000000, trace=True)


# ---- Coq case ---------------------------------------------------------------------------------------------------------------
def gproblem(p, ex, tables):
    rows = lambda m: '[' + ';'.join('[' + ';'.join(gZ(v) for v in r) + ']' for r in m) + ']'
    bt = '[' + ';'.join(f'({gnat(x)},{gnat(y)},[' + ';'.join(f'({gnat(c)},{gbool(h)})' for c, h in rs) + '])' for (x, y), rs in sorted(tables.binary.items())) + ']'
    ut = '[' + ';'.join(f'({gnat(x)},[' + ';'.join(gnat(c) for c in rs) + '])' for x, rs in sorted(tables.unary.items())) + ']'
    return (f'(Pb {rows(ex.tag)} {rows(ex.dep)} {bt} {ut} [{";".join(gnat(r) for r in p.roots)}] {gZ(ex.pen)} {gbool(p.nbest <= 1)} '
            f'{gnat(p.pruning)} false {gZ(0)} {gnat(5000)} {gnat(p.nbest)})')


def gcase(p, ex, tables, items, tr, status, goals, delta):
    idx, recs = {}, []
    for item, t in zip(items, tr):
        fin, d = item
        if fin:
            pop = f'(TFin {gnat(idx[d])})'
        elif d[0] == 'L':
            pop = f'(TLeaf {gnat(d[1])} {gnat(d[2])})'
        elif d[0] == 'U':
            pop = f'(TUn {gnat(d[1])} {gnat(d[2])} {gnat(idx[d[3]])})'
        else:
            pop = f'(TBin {gnat(d[1])} {gnat(d[2])} {gbool(d[3])} {gnat(idx[d[4]])} {gnat(idx[d[5]])})'
        i_, o_ = ex.fields(item)
        s, l, h, _ = ex.geo(d)
        st = bool(t['stored']) and not fin
        recs.append(f'(T {pop} {gZ(i_)} {gZ(o_)} {gnat(s)} {gnat(l)} {gnat(h)} {gbool(st)})')
        if st:
            idx[d] = len(idx)
    return (f'run_ok_s {gproblem(p, ex, tables)} [{";".join(recs)}] {gnat(status)} [{";".join(A.gderiv(g) for g in goals)}] '
            f'[{";".join(gZ(ex.score(g)) for g in goals)}] {gZ(delta)}')


# ---- the check ----------------------------------------------------------------------------------------------------------------
def nodes(d):
    return 1 if d[0] == 'L' else 1 + nodes(d[3]) if d[0] == 'U' else 1 + nodes(d[4]) + nodes(d[5])


def bucket(x):
    x = float(x)
    if x == 0:
        return '0'
    for b in ('1e-8', '1e-7', '1e-6', '1e-5', '1e-4'):
        if x <= float(b):
            return '<=' + b
    return '>1e-4'


def analyse(ctx, p, pen, real, style, r, cases, descr):
    ex = Exact(p, pen)
    adm = A.admitted(p)
    tr = r['trace']
    data = {'approx_pjson': p.to_json(), 'pen': float(numpy.float32(pen)), 'grammar': real or 'synthetic', 'scores': style}
    if len(tr) > 2500:
        ctx.count('approx:skipped_run_longer_than_2500_pops')
        return
    items = trace_items(ex, tr)
    m = measure(ex, p, items, tr, adm)
    if isinstance(m, str):
        ctx.count('approx:replay_mismatch')
        ctx.stats.setdefault('approx:replay_mismatch_first', m + ' | ' + repr(data)[:1500])
        return
    delta, goals, slacks = m
    tables = AC.freeze(p, r) if real else p
    ctx.case(('approx', tuple(map(tuple, p.tag.tolist())), tuple(map(tuple, p.dep.tolist())), p.nbest, pen), nontrivial=len(tr) > p.n)
    ctx.count('approx:runs')
    ctx.count(f'approx:grammar:{real or "synthetic"}')
    ctx.count(f'approx:scores:{style}')
    ctx.count(f'approx:delta_obs:{bucket(ex.real(delta))}')
    ctx.count(f'approx:pops_out_of_order:{sum(1 for s in slacks if s > 0)>0}')
    ctx.stats['approx:delta_obs_max'] = max(ctx.stats.get('approx:delta_obs_max', 0.0), float(ex.real(delta)))
    first = [A.node_deriv(g) for g in r['goals']]
    if p.nbest <= 1 and first[:1] != goals[:1]:
        ctx.fail('approx_returned_parse_is_not_first_goal_pop', 'the parse handed to the finalizer is not the first goal item popped',
                 dict(data, returned=repr(first[:1]), popped=repr(goals[:1])))
    chart = A.all_derivations(p, adm, limit=60000)
    if chart is None:
        ctx.count('approx:oracle_skipped_too_many_derivations')
        return
    comp = A.complete_derivations(p, chart)
    head_uniform = len({hl for rs in (p.binary.seen.values() if real else p.binary.values()) for _, hl in rs}) <= 1
    if not head_uniform and p.nbest <= 1:
        ctx.count('approx:not_head_uniform_skipped')
        return
    budget_hit = len(tr) >= 10000000
    if r['status'] != 0:
        ctx.count('approx:status_fail')
        if comp and not budget_hit:
            ctx.fail('approx_false_failure', f'real-valued scores: the sentence is reported as failed although {len(comp)} derivation(s) exist', data)
    elif p.nbest <= 1:
        got = ex.score(goals[0])
        best = max(ex.score(d) for d in comp) if comp else None
        if best is None:
            ctx.fail('approx_parse_without_derivation', 'a parse was returned although no complete derivation exists', data)
            return
        gap = best - got
        ctx.count(f'approx:gap:{bucket(ex.real(gap))}')
        ctx.stats['approx:gap_max'] = max(ctx.stats.get('approx:gap_max', 0.0), float(ex.real(gap)))
        if gap > 0:
            ctx.count('approx:suboptimal_within_bound')
            bo = min(delta * (nodes(d) + 1) for d in comp if ex.score(d) == best)
            ctx.stats['approx:gap_over_bound_max'] = max(ctx.stats.get('approx:gap_over_bound_max', 0.0), float(Fraction(gap, bo)) if bo else float('inf'))
        for d in comp:
            if ex.score(d) - delta * (nodes(d) + 1) > got:
                ctx.fail('approx_bound_violated',
                         f'exact score of the first parse {float(ex.real(got))!r} is below {float(ex.real(ex.score(d)))!r} - delta_obs * (nodes + 1) with delta_obs = {float(ex.real(delta))!r}, '
                         f'nodes = {nodes(d)}: the real run is a run with slack delta_obs of the exact model, yet the conclusion of C01_approx_first_goal_near_optimal fails',
                         dict(data, deriv=repr(d), got=repr(goals[0]), delta_obs=str(ex.real(delta))))
                break
    else:
        gaps = []
        for i, g in enumerate(goals):
            rest = [d for d in comp if d not in goals[:i]]
            if rest:
                gaps.append(max(ex.score(d) for d in rest) - ex.score(g))
                if gaps[-1] > delta:
                    ctx.fail('approx_nbest_bound_violated', f'n-best: parse {i} is more than delta_obs = {float(ex.real(delta))!r} below a derivation not yet returned '
                             f'(by {float(ex.real(gaps[-1]))!r})', dict(data, index=i, delta_obs=str(ex.real(delta))))
                    break
        want_n = min(p.nbest, len(comp))
        if len(goals) != want_n and not budget_hit:
            ctx.fail('approx_nbest_count', f'n-best with real-valued scores: asked for {p.nbest}, {len(comp)} derivations exist, {len(goals)} returned', data)
        if gaps:
            ctx.count(f'approx:nbest_gap:{bucket(ex.real(max(max(gaps), 0)))}')
    # correspondence case (exact scores are integers after scaling by the common power-of-two denominator)
    if len(tr) <= 120 and len(cases) < ctx.approx_case_cap:
        cases.append(gcase(p, ex, tables, items, tr, r['status'], goals, delta))
        descr.append({'n': p.n, 'nbest': p.nbest, 'pops': len(tr), 'status': r['status'], 'grammar': real or 'synthetic', 'scores': style,
                      'delta_obs': float(ex.real(delta))})


def run_approx(ctx, n):
    """n real-valued problems through the real search; theorems of P_C01_approx; oracle; Coq correspondence cases"""
    t0 = time.time()
    ctx.build(['P_C01_approx.vo'])
    ctx.theorems('P_C01_approx')
    ctx.approx_case_cap = 60 if ctx.quick else 600
    cases, descr = [], []
    for it in range(n):
        p, pen, real, style = gen_problem(ctx.rng, ctx.quick)
        r = search(p, pen)
        analyse(ctx, p, pen, real, style, r, cases, descr)
    mism = ctx.stats.get('approx:replay_mismatch', 0)
    ctx.obligation('approx: the exact model follows the pop order of every real-valued run', mism == 0, ctx.stats.get('approx:replay_mismatch_first', ''))
    ctx.coq_cases('approx_trace', PRE, cases, chunk=6, describe=lambda i: descr[i])
    ctx.stats['approx:trace_cases'] = len(cases)
    ctx.stats['approx:wall_s'] = round(time.time() - t0, 1)
    ctx.trusted += ['harness/approx_cases.py: exact rational re-computation of the scores of the popped items (cross-checked by the Coq replay, which '
                    'recomputes every stored score and the slack) and exhaustive enumeration of derivations (astar.all_derivations)']
    return cases


def replay_approx(data):
    """re-run recorded failures of this stream (data['failures'][i]['data'] carries 'approx_pjson' and 'pen')"""
    import common
    ctx = common.Ctx(data['property'] + '_approx_replay', 'quick')
    ctx.approx_case_cap = 0
    k = 0
    for f in data.get('failures', []):
        d = f.get('data', {})
        if not isinstance(d, dict) or 'approx_pjson' not in d:
            continue
        p = AC.problem_from_json(d['approx_pjson'])
        analyse(ctx, p, d['pen'], d['approx_pjson'].get('real'), d.get('scores', '?'), search(p, d['pen']), [], [])
        k += 1
    for f in ctx.failures:
        print(f"REPRODUCED [{f['kind']}]: {f['desc'][:300]}")
    print(f'replayed {k} recorded real-valued problem(s): {len(ctx.failures)} failure(s) reproduce')
    return 1 if ctx.failures else 0
