"""Reader for the jsonnet subset the shipped model files use (objects with bare or quoted keys, arrays,
single/double-quoted strings with backslash escapes, numbers, true/false/null, trailing commas).
Fail-closed: anything else raises ValueError."""
import re

_tok = re.compile(r'''\s*(?:(?P<punct>[{}\[\],:])|(?P<sq>'(?:[^'\\]|\\.)*')|(?P<dq>"(?:[^"\\]|\\.)*")|(?P<num>-?\d+(?:\.\d+)?(?:[eE][-+]?\d+)?)|(?P<id>[A-Za-z_][A-Za-z_0-9]*))''')
_esc = {'n': '\n', 't': '\t', 'r': '\r', 'b': '\b', 'f': '\f', '\\': '\\', '/': '/', "'": "'", '"': '"'}


def _unescape(s):
    out, i = [], 0
    while i < len(s):
        c = s[i]
        if c == '\\':
            d = s[i + 1]
            if d == 'u':
                out.append(chr(int(s[i + 2:i + 6], 16))); i += 6; continue
            if d not in _esc:
                raise ValueError(f'bad escape \\{d}')
            out.append(_esc[d]); i += 2
        else:
            out.append(c); i += 1
    return ''.join(out)


def loads(text):
    toks, pos = [], 0
    text = re.sub(r'(?m)^\s*//.*$', '', text)
    while True:
        m = _tok.match(text, pos)
        if not m:
            if text[pos:].strip():
                raise ValueError(f'jsonnet: cannot tokenise at {text[pos:pos + 40]!r}')
            break
        pos = m.end()
        k = m.lastgroup
        v = m.group(k)
        toks.append((k, v))
    i = 0

    def val():
        nonlocal i
        k, v = toks[i]
        if k == 'punct' and v == '{':
            i += 1
            d = {}
            while toks[i] != ('punct', '}'):
                kk, kv = toks[i]
                if kk == 'id':
                    key = kv
                elif kk in ('sq', 'dq'):
                    key = _unescape(kv[1:-1])
                else:
                    raise ValueError('jsonnet: bad key')
                if toks[i + 1] != ('punct', ':'):
                    raise ValueError('jsonnet: expected :')
                i += 2
                d[key] = val()
                if toks[i] == ('punct', ','):
                    i += 1
            i += 1
            return d
        if k == 'punct' and v == '[':
            i += 1
            a = []
            while toks[i] != ('punct', ']'):
                a.append(val())
                if toks[i] == ('punct', ','):
                    i += 1
            i += 1
            return a
        i += 1
        if k in ('sq', 'dq'):
            return _unescape(v[1:-1])
        if k == 'num':
            return float(v) if re.search(r'[.eE]', v) else int(v)
        if k == 'id' and v in ('true', 'false', 'null'):
            return {'true': True, 'false': False, 'null': None}[v]
        raise ValueError(f'jsonnet: unexpected token {v!r}')
    r = val()
    if i != len(toks):
        raise ValueError('jsonnet: trailing tokens')
    return r


def load(path):
    return loads(open(path, encoding='utf-8').read())
