"""C07 - independent readers of the eleven output formats of depccg.printer.

Every reader here is written from the *format definition* (what a consumer of the format sees), not from the
encoder: it takes the text / infoset the real encoder produced and returns a format-independent `Node` tree
(what the format carries: words, shape, categories in the format's own spelling, and where present labels,
head flags, token attributes, span offsets).  Nothing in this file imports depccg.printer or depccg.utils.

A reader raises `DecodeError` when the text is not an instance of the format; for an output of a correct
encoder that never happens on the domain of the property (words: printable, non-blank, no backslash).
"""
import json
import re
from html.parser import HTMLParser


class DecodeError(Exception):
    pass


class Node(object):
    """one constituent as a format shows it; fields a format does not carry stay None"""
    __slots__ = ('cat', 'ch', 'word', 'label', 'head', 'attrs', 'start', 'end', 'extra')

    def __init__(self, cat, ch=(), word=None, label=None, head=None, attrs=None, start=None, end=None, extra=None):
        self.cat, self.ch, self.word, self.label, self.head = cat, list(ch), word, label, head
        self.attrs, self.start, self.end, self.extra = attrs, start, end, extra

    @property
    def is_leaf(self):
        return not self.ch

    def leaves(self):
        if not self.ch:
            return [self]
        return [x for c in self.ch for x in c.leaves()]

    def __repr__(self):
        if not self.ch:
            return f'L({self.cat!r},{self.word!r})'
        return f'N({self.cat!r},{self.label!r},{self.head!r},{self.ch!r})'


def need(cond, msg):
    if not cond:
        raise DecodeError(msg)


# ------------------------------------------------------------------------------------------------
# category spellings -> structure   ('A', base, feature) | ('F', left, slash, right)
#   feature: None | ('u', value) | ('t', ((k,v),(k,v),(k,v)))
SLASH = '/\\|'


def _feature_std(text):
    if '=' in text and ',' in text:
        kvs = tuple(tuple(kv.split('=')) for kv in text.split(','))
        need(len(kvs) == 3 and all(len(kv) == 2 for kv in kvs), f'bad ternary feature {text!r}')
        return ('t', kvs)
    return ('u', text)


def _feature_jigg(text):
    """Jigg spells a one-valued feature  [v=true]  and a three-valued one as it is"""
    if ',' in text:
        return _feature_std(text)
    need(text.endswith('=true') and len(text) > 5, f'one-valued Jigg feature must be spelled v=true: {text!r}')
    return ('u', text[:-5])


def parse_cat(s, feature=_feature_std):
    """the standard spelling:  atom := base | base[feature];  cat := operand | operand slash operand;  operand := atom | (cat)"""
    pos = 0

    def operand():
        nonlocal pos
        need(pos < len(s), f'category ends early: {s!r}')
        if s[pos] == '(':
            pos += 1
            c = expr()
            need(pos < len(s) and s[pos] == ')', f'missing ) in {s!r}')
            pos += 1
            return c
        b = pos
        while pos < len(s) and s[pos] not in '[]()' + SLASH:
            pos += 1
        need(pos > b, f'empty atom in {s!r} at {b}')
        base = s[b:pos]
        feat = None
        if pos < len(s) and s[pos] == '[':
            e = s.find(']', pos)
            need(e > pos + 1, f'bad feature in {s!r}')
            feat = feature(s[pos + 1:e])
            pos = e + 1
        return ('A', base, feat)

    def expr():
        nonlocal pos
        l = operand()
        if pos < len(s) and s[pos] in SLASH:
            sl = s[pos]
            pos += 1
            r = operand()
            return ('F', l, sl, r)
        return l

    c = expr()
    need(pos == len(s), f'trailing text in category {s!r} at {pos}')
    return c


def parse_cat_jigg(s):
    return parse_cat(s, _feature_jigg)


# ------------------------------------------------------------------------------------------------
# AUTO and extended AUTO:  (<T cat [rule] head n> child ... )   (<L cat pos pos word cat>)  /  (<L cat word lemma pos entity chunk cat>)
def dec_auto(line, extended=False):
    toks = line.split(' ')
    need(all(toks), f'empty field (double blank) in AUTO line {line!r}')
    nleaf = 7 if extended else 5

    def node(i):
        need(i < len(toks), 'AUTO line ends early')
        t = toks[i]
        if t == '(<L':
            f = toks[i + 1:i + 1 + nleaf]
            need(len(f) == nleaf and f[-1].endswith('>)'), f'bad leaf at field {i}: {f!r}')
            cat2 = f[-1][:-2]
            need(f[0] == cat2, f'leaf repeats a different category: {f[0]!r} / {cat2!r}')
            if extended:
                n = Node(f[0], word=f[1], attrs={'lemma': f[2], 'pos': f[3], 'entity': f[4], 'chunk': f[5]})
            else:
                need(f[1] == f[2], f'leaf repeats a different pos: {f[1]!r} / {f[2]!r}')
                n = Node(f[0], word=f[3], attrs={'pos': f[1]})
            return n, i + 1 + nleaf
        need(t == '(<T', f'expected (<T or (<L at field {i}, got {t!r}')
        k = 5 if extended else 4
        f = toks[i + 1:i + k]
        need(len(f) == k - 1, 'AUTO node header ends early')
        cat, label = f[0], (f[1] if extended else None)
        hd, nc = f[-2], f[-1]
        need(hd in ('0', '1'), f'head field {hd!r}')
        need(nc in ('1>', '2>'), f'children count field {nc!r}')
        j = i + k
        ch = []
        for _ in range(int(nc[:-1])):
            c, j = node(j)
            ch.append(c)
        need(j < len(toks) and toks[j] == ')', f'node with {nc[:-1]} declared children is not closed at field {j}')
        return Node(cat, ch, label=label, head=int(hd)), j + 1

    n, j = node(0)
    need(j == len(toks), f'trailing fields after the tree: {toks[j:]!r}')
    return n


# ------------------------------------------------------------------------------------------------
# PTB:  (ROOT (cat (cat word) (cat word)))     round brackets in words are written -LRB- / -RRB-
def dec_ptb(line):
    toks = line.split(' ')
    need(all(toks), 'empty field in PTB line')

    def node(i):
        need(i + 1 < len(toks) and toks[i].startswith('('), f'expected an opening bracket at field {i}')
        cat = toks[i][1:]
        nxt = toks[i + 1]
        if not nxt.startswith('('):
            w = nxt.rstrip(')')
            k = len(nxt) - len(w)
            need(k >= 1 and w and '(' not in w, f'bad word field {nxt!r}')
            return Node(cat, word=w), i + 2, k - 1
        ch, j = [], i + 1
        while True:
            c, j, closes = node(j)
            ch.append(c)
            if closes > 0:
                return Node(cat, ch), j, closes - 1
            need(j < len(toks), 'PTB line ends inside a constituent')

    root, j, closes = node(0)
    need(j == len(toks) and closes == 0, 'unbalanced PTB line')
    need(root.cat == 'ROOT' and len(root.ch) == 1, 'PTB line must be (ROOT tree)')

    def arity(n):
        need(len(n.ch) <= 2, f'constituent {n.cat!r} with {len(n.ch)} children')
        for c in n.ch:
            arity(c)
    arity(root.ch[0])
    return root.ch[0]


# ------------------------------------------------------------------------------------------------
# Japanese CCGbank:  {symbol cat child [child]}    {cat word/word/pos/inflection}
def dec_ja(line):
    toks = line.split(' ')
    need(all(toks), 'empty field in ja line')

    def node(i):
        need(i + 1 < len(toks) and toks[i].startswith('{') and len(toks[i]) > 1, f'expected {{x at field {i}')
        head = toks[i][1:]
        nxt = toks[i + 1]
        if nxt.endswith('}'):
            field = nxt.rstrip('}')
            k = len(nxt) - len(field)
            parts = field.rsplit('/', 2)
            need(len(parts) == 3, f'leaf field {nxt!r} is not word/word/pos/inflection')
            ww, pos, infl = parts
            m = len(ww) // 2
            need(len(ww) % 2 == 1 and ww[m] == '/' and ww[:m] == ww[m + 1:], f'leaf field {nxt!r}: the word is not written twice')
            return Node(head, word=ww[:m], attrs={'pos': pos, 'infl': infl}), i + 2, k - 1
        cat = nxt
        ch, j = [], i + 2
        while True:
            c, j, closes = node(j)
            ch.append(c)
            if closes > 0:
                need(len(ch) <= 2, f'constituent with {len(ch)} children')
                return Node(cat, ch, label=head), j, closes - 1
            need(j < len(toks), 'ja line ends inside a constituent')

    n, j, closes = node(0)
    need(j == len(toks) and closes == 0, 'unbalanced ja line')
    return n


# ------------------------------------------------------------------------------------------------
# CoNLL-like: ten tab-separated columns per word; the last column holds fragments of the AUTO line
def dec_conll(lines):
    rows = []
    for ln in lines:
        f = ln.split('\t')
        need(len(f) == 10, f'conll row with {len(f)} columns: {ln!r}')
        need(f[0].isdigit() and f[6].isdigit(), f'index/head column not a number: {f[0]!r} {f[6]!r}')
        rows.append({'idx': int(f[0]), 'word': f[1], 'lemma': f[2], 'pos': f[3], 'pos2': f[4], 'c6': f[5], 'head': int(f[6]), 'cat': f[7], 'c9': f[8], 'frag': f[9]})
    need(rows, 'empty conll record')
    tree = dec_auto(' '.join(r['frag'] for r in rows))
    return rows, tree


# ------------------------------------------------------------------------------------------------
# JSON: inner = {type, cat, children}; leaf = token items..., cat
def loads_ordered(text):
    return json.loads(text, object_pairs_hook=lambda pairs: ('obj', pairs))


def dec_json(obj, top=True):
    need(isinstance(obj, tuple) and obj[0] == 'obj', 'json node is not an object')
    pairs = list(obj[1])
    keys = [k for k, _ in pairs]
    need(len(set(keys)) == len(keys), f'duplicate key in json object: {keys!r}')
    extra = None
    if top and keys and keys[-1] == 'log_prob':
        extra = pairs.pop()[1]
        keys.pop()
    if 'children' in keys:
        need(keys == ['type', 'cat', 'children'], f'inner json node with keys {keys!r}')
        d = dict(pairs)
        need(isinstance(d['children'], list) and 1 <= len(d['children']) <= 2, 'children must be a list of one or two nodes')
        need(isinstance(d['cat'], str) and isinstance(d['type'], str), 'type/cat must be strings')
        return Node(d['cat'], [dec_json(c, False) for c in d['children']], label=d['type'], extra=extra)
    need(keys and keys[-1] == 'cat', f'leaf json node must end with cat: {keys!r}')
    need(all(isinstance(v, str) for _, v in pairs), 'leaf json values must be strings')
    tok = pairs[:-1]
    d = dict(tok)
    need('word' in d, 'json leaf without a word')
    return Node(pairs[-1][1], word=d['word'], attrs=tok, extra=extra)


# ------------------------------------------------------------------------------------------------
# C&C XML: <ccg sentence= id=> one tree of <rule type cat> / <lf start span cat + token attributes>
def dec_xml_ccg(el):
    need(el.tag == 'ccg' and len(el) == 1, 'a <ccg> element must hold exactly one tree')

    def node(e):
        a = list(e.attrib.items())
        if e.tag == 'lf':
            need(len(e) == 0, '<lf> with children')
            need([k for k, _ in a[:3]] == ['start', 'span', 'cat'], f'<lf> attributes start {a[:3]!r}')
            need(a[0][1].isdigit() and a[1][1].isdigit(), '<lf> start/span not numbers')
            tok = a[3:]
            d = dict(tok)
            need('word' in d, '<lf> without a word')
            s = int(a[0][1])
            return Node(a[2][1], word=d['word'], attrs=tok, start=s, end=s + int(a[1][1]))
        need(e.tag == 'rule', f'unexpected element <{e.tag}>')
        need([k for k, _ in a] == ['type', 'cat'], f'<rule> attributes {a!r}')
        need(1 <= len(e) <= 2, f'<rule> with {len(e)} children')
        ch = [node(c) for c in e]
        return Node(a[1][1], ch, label=a[0][1], start=ch[0].start, end=ch[-1].end)

    return node(el[0])


# ------------------------------------------------------------------------------------------------
# Jigg XML: <sentence><tokens><token id= .../></tokens><ccg id= root=><span id= category= (terminal= | child= rule=) begin= end=/></ccg></sentence>
def dec_jigg_sentence(sent):
    """-> (token table {id: ordered attribute list}, token id order, [(ccg id, score, tree)])"""
    need(sent.tag == 'sentence' and len(sent) >= 1 and sent[0].tag == 'tokens', '<sentence> must start with <tokens>')
    tokens, order = {}, []
    for t in sent[0]:
        need(t.tag == 'token' and 'id' in t.attrib, 'bad <token>')
        need(t.attrib['id'] not in tokens, 'duplicate token id')
        tokens[t.attrib['id']] = list(t.attrib.items())
        order.append(t.attrib['id'])
    out = []
    seen_span_ids = set()
    for ccg in sent[1:]:
        need(ccg.tag == 'ccg', f'unexpected <{ccg.tag}> in <sentence>')
        spans = {}
        for sp in ccg:
            need(sp.tag == 'span' and 'id' in sp.attrib, 'bad <span>')
            sid = sp.attrib['id']
            need(sid not in spans and sid not in seen_span_ids, f'span id {sid} used twice in the sentence')
            spans[sid] = sp
        seen_span_ids |= set(spans)
        need(len(ccg) >= 1 and ccg[0].attrib.get('root') == 'true', 'the first span must be marked root="true"')
        need(sum(1 for sp in ccg if 'root' in sp.attrib) == 1, 'more than one span marked as root')
        need(ccg.attrib.get('root') == ccg[0].attrib['id'], 'ccg/@root must name the first span')
        used = set()

        def node(sid):
            need(sid in spans, f'dangling span reference {sid}')
            need(sid not in used, f'span {sid} referenced twice')
            used.add(sid)
            a = spans[sid].attrib
            need(a.get('begin', '').isdigit() and a.get('end', '').isdigit(), 'span without begin/end')
            b, e = int(a['begin']), int(a['end'])
            if 'terminal' in a:
                need('child' not in a and 'rule' not in a, 'terminal span with child/rule')
                tid = a['terminal']
                need(tid in tokens, f'dangling token reference {tid}')
                tok = tokens[tid]
                d = dict(tok)
                return Node(a['category'], word=d.get('surf'), attrs=tok, start=b, end=e, extra=tid)
            need('child' in a and 'rule' in a, 'span is neither terminal nor has children')
            kids = a['child'].split(' ')
            need(1 <= len(kids) <= 2, f'span with {len(kids)} children')
            return Node(a['category'], [node(k) for k in kids], label=a['rule'], start=b, end=e, extra=sid)

        tree = node(ccg.attrib['root'])
        need(used == set(spans), f'spans not reachable from the root: {sorted(set(spans) - used)}')
        out.append((ccg.attrib.get('id'), ccg.attrib.get('score'), tree, [sp.attrib['id'] for sp in ccg]))
    return tokens, order, out


def preorder(n):
    yield n
    for c in n.ch:
        yield from preorder(c)


# ------------------------------------------------------------------------------------------------
# deriv: ASCII layout.  line 1: leaf categories, line 2: words (each centred in a cell of width 2+max(len)),
# then for every inner node in post-order: a line of dashes whose extent is the node's span followed by the rule symbol,
# and a line with the node's category.
def dec_deriv(text):
    lines = text.split('\n')
    need(len(lines) >= 3 and lines[-1] == '', 'deriv text must end with a newline')
    lines = lines[:-1]
    need(len(lines) >= 2 and len(lines) % 2 == 0, f'deriv text must have an even number of lines, has {len(lines)}')
    cats = [x for x in lines[0].split(' ') if x]
    words = [x for x in lines[1].split(' ') if x]
    need(cats and len(cats) == len(words), f'{len(cats)} categories over {len(words)} words')
    # cell boundaries, and the centring of both lines
    bounds, off = [0], 0
    catline, wordline = '', ''
    for c, w in zip(cats, words):
        width = 2 + max(len(c), len(w))
        lc = (width - len(c)) // 2
        lw = (width - len(w)) // 2
        catline += ' ' * lc + c + ' ' * (width - len(c) - lc)
        wordline += ' ' * lw + w + ' ' * (width - len(w) - lw)
        off += width
        bounds.append(off)
    need(catline.rstrip(' ') == lines[0], 'category line is not laid out in cells of width 2+max(len(cat),len(word))')
    need(wordline.rstrip(' ') == lines[1], 'word line is not laid out in cells of width 2+max(len(cat),len(word))')
    col2leaf = {b: i for i, b in enumerate(bounds)}
    stack = []          # completed constituents, left to right
    nxt = 0             # next leaf not yet on the stack

    for k in range(2, len(lines), 2):
        dash, catl = lines[k], lines[k + 1]
        m = re.match(r'^( *)(-+)', dash)
        need(m, f'line {k + 1} is not a dash line: {dash!r}')
        lo = len(m.group(1))
        need(lo in col2leaf, f'dash line {k + 1} starts inside a cell (column {lo})')
        i = col2leaf[lo]
        # the run of dashes ends at a cell boundary; the rule symbol follows (a symbol does not start with '-')
        run = len(m.group(2))
        need(lo + run in col2leaf, f'dash line {k + 1} ends inside a cell (column {lo + run})')
        j = col2leaf[lo + run]
        sym = dash[lo + run:]
        cat = catl.strip(' ')
        need(cat and ' ' not in cat, f'line {k + 2} is not a single category: {catl!r}')
        need(j > i, 'empty span')
        while nxt < j:
            stack.append(Node(cats[nxt], word=words[nxt], start=nxt, end=nxt + 1))
            nxt += 1
        ch = []
        while stack and stack[-1].start >= i:
            ch.insert(0, stack.pop())
        need(ch and ch[0].start == i and ch[-1].end == j, f'span [{i},{j}) of line {k + 1} is not made of complete constituents')
        need(len(ch) <= 2, f'span [{i},{j}) of line {k + 1} has {len(ch)} parts')
        stack.append(Node(cat, ch, label=sym, start=i, end=j))
    while nxt < len(cats):
        stack.append(Node(cats[nxt], word=words[nxt], start=nxt, end=nxt + 1))
        nxt += 1
    need(len(stack) == 1, f'deriv text leaves {len(stack)} unconnected constituents')
    return stack[0]


# ------------------------------------------------------------------------------------------------
# html: <p>ID=k: words</p> then per tree <p>Log prob=..</p><math>..</math>;  a tree is
#   <mrow><mfrac><mrow>children</mrow><mstyle>category</mstyle></mfrac><mtext>rule</mtext></mrow>
#   leaf: <mrow><mfrac><mtext>word</mtext><mstyle>category</mstyle></mfrac><mtext>lex</mtext></mrow>
class _El(object):
    __slots__ = ('tag', 'ch', 'text')

    def __init__(self, tag):
        self.tag, self.ch, self.text = tag, [], ''

    def elems(self):
        return self.ch


class _HtmlReader(HTMLParser):
    def __init__(self):
        super().__init__(convert_charrefs=True)
        self.records = []      # ('p', text) | ('math', element)
        self.stack = None
        self.ptext = None

    def _flush_p(self):
        if self.ptext is not None:
            self.records.append(('p', self.ptext))
            self.ptext = None

    def handle_starttag(self, tag, attrs):
        if self.stack is not None:
            el = _El(tag)
            self.stack[-1].ch.append(el)
            self.stack.append(el)
        elif tag == 'math':
            self._flush_p()
            self.stack = [_El('math')]
        elif tag == 'p':
            self._flush_p()
            self.ptext = ''
        # any other element outside <math> is not part of the format: its text still belongs to the paragraph

    def handle_startendtag(self, tag, attrs):
        self.handle_starttag(tag, attrs)
        self.handle_endtag(tag)

    def handle_endtag(self, tag):
        if self.stack is not None:
            need(self.stack[-1].tag == tag, f'</{tag}> closes <{self.stack[-1].tag}>')
            el = self.stack.pop()
            if not self.stack:
                self.records.append(('math', el))
                self.stack = None
        elif tag == 'p':
            self._flush_p()

    def handle_data(self, data):
        if self.stack is not None:
            self.stack[-1].text += data
        elif self.ptext is not None:
            self.ptext += data


def _mathml_tree(el):
    def only(e, tags):
        need([c.tag for c in e.ch] == tags, f'<{e.tag}> holds {[c.tag for c in e.ch]!r}, expected {tags!r}')
        return e.ch

    def cat_of(mstyle):
        out = []

        def walk(e):
            if e.tag == 'mi':
                need(not e.ch, '<mi> with children')
                out.append(e.text)
            else:
                need(e.tag in ('mstyle', 'msub', 'mrow') and not e.text.strip(), f'unexpected <{e.tag}> / text in a category')
                for c in e.ch:
                    walk(c)
        walk(mstyle)
        return ''.join(out)

    def node(mrow):
        need(mrow.tag == 'mrow', f'expected <mrow>, got <{mrow.tag}>')
        mfrac, rule = only(mrow, ['mfrac', 'mtext'])
        need(len(mfrac.ch) == 2 and mfrac.ch[1].tag == 'mstyle', '<mfrac> must hold the premises and an <mstyle> category')
        top, mstyle = mfrac.ch
        cat = cat_of(mstyle)
        if top.tag == 'mtext':
            need(not top.ch, 'word <mtext> with children')
            return Node(cat, word=top.text, label=rule.text)
        need(top.tag == 'mrow' and 1 <= len(top.ch) <= 2, f'premises of a rule must be an <mrow> of one or two trees')
        return Node(cat, [node(c) for c in top.ch], label=rule.text)

    need(el.tag == 'math' and len(el.ch) == 1, '<math> must hold exactly one tree')
    return node(el.ch[0])


def dec_html(doc):
    """-> [(sentence number, header words text, [(log prob text, tree)])]"""
    need(doc.lstrip().lower().startswith('<!doctype html>'), 'no doctype')
    rd = _HtmlReader()
    rd.feed(doc)
    rd.close()
    need(rd.stack is None, 'document ends inside <math>')
    rd._flush_p()
    out, cur, pending = [], None, None
    for kind, x in rd.records:
        if kind == 'p':
            m = re.match(r'^ID=(\d+): (.*)$', x, flags=re.S)
            if m:
                cur = (int(m.group(1)), m.group(2), [])
                out.append(cur)
                pending = None
            else:
                m2 = re.match(r'^Log prob=(\S+)$', x)
                need(m2, f'unexpected paragraph {x!r}')
                pending = m2.group(1)
        else:
            need(cur is not None, '<math> before any sentence header')
            cur[2].append((pending, _mathml_tree(x)))
            pending = None
    return out


# ------------------------------------------------------------------------------------------------
# Prolog terms
_NAME_STOP = set(" \n\t,()/\\|'")


def _terms(text):
    """sequence of  functor(args).  ->  [('T', name, args)];  arg := ('Q', text) | ('C', category structure) | ('T', ...)"""
    pos = 0
    n = len(text)

    def ws():
        nonlocal pos
        while pos < n and text[pos] in ' \n\t':
            pos += 1

    def name():
        nonlocal pos
        b = pos
        while pos < n and text[pos] not in _NAME_STOP:
            pos += 1
        need(pos > b, f'expected a name at offset {b}: {text[b:b + 20]!r}')
        return text[b:pos]

    def quoted():
        nonlocal pos
        pos += 1
        out = []
        while True:
            need(pos < n, 'unterminated quoted atom')
            c = text[pos]
            if c == '\\':
                need(pos + 1 < n, 'dangling backslash')
                out.append(text[pos + 1])
                pos += 2
            elif c == "'":
                pos += 1
                return ''.join(out)
            else:
                out.append(c)
                pos += 1

    def cat_operand():
        nonlocal pos
        if text[pos] == '(':
            pos += 1
            c = cat_expr()
            need(pos < n and text[pos] == ')', f'missing ) in a category at offset {pos}')
            pos += 1
            return c
        a = name()
        base, _, feat = a.partition(':')
        need(base, 'empty category atom')
        return ('A', base, feat if _ else None)

    def cat_expr(first=None):
        nonlocal pos
        l = first if first is not None else cat_operand()
        if pos < n and text[pos] in SLASH:
            sl = text[pos]
            pos += 1
            r = cat_operand()
            return ('F', l, sl, r)
        return l

    def arg():
        nonlocal pos
        ws()
        need(pos < n, 'term ends early')
        if text[pos] == "'":
            return ('Q', quoted())
        if text[pos] == '(':
            return ('C', cat_expr())
        b = pos
        a = name()
        if pos < n and text[pos] == '(':
            return term(a)
        base, _, feat = a.partition(':')
        return ('C', cat_expr(('A', base, feat if _ else None)))

    def term(fn):
        nonlocal pos
        need(text[pos] == '(', 'expected (')
        pos += 1
        args = [arg()]
        while True:
            ws()
            need(pos < n, 'term ends early')
            if text[pos] == ',':
                pos += 1
                args.append(arg())
            elif text[pos] == ')':
                pos += 1
                return ('T', fn, args)
            else:
                raise DecodeError(f'expected , or ) at offset {pos}: {text[pos:pos + 20]!r}')

    out = []
    while True:
        ws()
        if pos >= n:
            return out
        fn = name()
        t = term(fn)
        need(pos < n and text[pos] == '.', f'clause not ended by a full stop at offset {pos}')
        pos += 1
        out.append(t)


PROLOG_HEADER = ':- op(601, xfx, (/)).\n:- op(601, xfx, (\\)).\n:- multifile ccg/2, id/2.\n:- discontiguous ccg/2, id/2.\n'


def _prolog_clauses(doc):
    need(doc.startswith(PROLOG_HEADER), 'prolog output does not start with the operator / multifile declarations')
    out = []
    for t in _terms(doc[len(PROLOG_HEADER):]):
        need(t[1] == 'ccg' and len(t[2]) == 2, f'clause {t[1]}/{len(t[2])} is not ccg/2')
        k, body = t[2]
        need(k[0] == 'C' and k[1][0] == 'A' and k[1][1].isdigit() and k[1][2] is None, 'first argument of ccg/2 must be a number')
        need(body[0] == 'T', 'second argument of ccg/2 must be a term')
        out.append((int(k[1][1]), body))
    return out


def _q(args, what):
    need(all(a[0] == 'Q' for a in args), f'{what}: quoted atoms expected')
    return [a[1] for a in args]


def dec_prolog_en(doc):
    """-> [(sentence number, tree)]; node label = the functor(s) as written ('lx+lp' for the lx(.., lp(..)) wrapper, 'conj+conj' for conj(.., conj(..)))"""
    def node(t):
        need(t[0] == 'T', 'tree term expected')
        fn, a = t[1], t[2]
        need(a and a[0][0] == 'C', f'{fn}: first argument must be a category')
        cat = a[0][1]
        if fn == 't':
            need(len(a) == 6, f't/{len(a)}')
            w, lemma, pos, chunk, entity = _q(a[1:], 't')
            return Node(cat, word=w, attrs={'lemma': lemma, 'pos': pos, 'chunk': chunk, 'entity': entity})
        if fn == 'lx':
            need(len(a) == 3 and a[1][0] == 'C' and a[2][0] == 'T', 'lx(cat, cat, tree) expected')
            inner = a[2]
            if inner[1] == 'lp':
                ia = inner[2]
                need(len(ia) == 3 and ia[0][0] == 'C', 'lp(cat, tree, tree) expected')
                l, r = node(ia[1]), node(ia[2])
                need(ia[0][1] == a[1][1] and a[1][1] == r.cat, 'lx(.., c, lp(c, _, right)): c must be the category of the right child')
                return Node(cat, [l, r], label='lx+lp')
            c = node(inner)
            need(a[1][1] == c.cat, 'lx(cat, c, child): c must be the category of the child')
            return Node(cat, [c], label='lx')
        if fn == 'conj' and len(a) == 3:
            need(a[1][0] == 'C' and a[2][0] == 'T' and a[2][1] == 'conj' and len(a[2][2]) == 4, 'conj(cat, c\\c, conj(c\\c, c, l, r)) expected')
            ia = a[2][2]
            need(ia[0][0] == 'C' and ia[1][0] == 'C', 'inner conj categories')
            l, r = node(ia[2]), node(ia[3])
            cc = ('F', r.cat, '\\', r.cat)
            need(a[1][1] == cc and ia[0][1] == cc and ia[1][1] == r.cat, 'conj wrapper categories must be c\\c and c for the right child c')
            return Node(cat, [l, r], label='conj+conj')
        if fn == 'conj':
            need(len(a) == 4 and a[1][0] == 'C', 'conj(cat, cat, tree, tree) expected')
            return Node(cat, [node(a[2]), node(a[3])], label='conj', extra=a[1][1])
        need(len(a) == 3, f'{fn}/{len(a)}: a binary rule term has a category and two trees')
        return Node(cat, [node(a[1]), node(a[2])], label=fn)

    return [(k, node(body)) for k, body in _prolog_clauses(doc)]


def dec_prolog_ja(doc):
    def node(t):
        need(t[0] == 'T', 'tree term expected')
        fn, a = t[1], t[2]
        need(a and a[0][0] == 'C', f'{fn}: first argument must be a category')
        cat = a[0][1]
        if fn == 't':
            need(len(a) == 6, f't/{len(a)}')
            surf, base, pos, iform, itype = _q(a[1:], 't')
            return Node(cat, word=surf, attrs={'base': base, 'pos': pos, 'inflectionForm': iform, 'inflectionType': itype})
        need(2 <= len(a) <= 3, f'{fn}/{len(a)}: a rule term has a category and one or two trees')
        return Node(cat, [node(x) for x in a[1:]], label=fn)

    return [(k, node(body)) for k, body in _prolog_clauses(doc)]


# ------------------------------------------------------------------------------------------------
# records of the line-oriented batch output:  header line(s) + body lines
def split_records(text, conll=False):
    """-> [(sentence number, log probability text, body lines)]"""
    need(text == '' or text.endswith('\n'), 'batch text must end with a newline')
    lines = text.split('\n')[:-1] if text else []
    out = []
    i = 0
    while i < len(lines):
        if conll:
            m = re.fullmatch(r'# ID=(\d+)', lines[i])
            need(m and i + 1 < len(lines), f'expected "# ID=k" at line {i + 1}: {lines[i]!r}')
            m2 = re.fullmatch(r'# log probability=(\S+)', lines[i + 1])
            need(m2, f'expected "# log probability=" at line {i + 2}')
            i += 2
            k, lp = int(m.group(1)), m2.group(1)
        else:
            m = re.fullmatch(r'ID=(\d+), log probability=(\S+)', lines[i])
            need(m, f'expected a header at line {i + 1}: {lines[i]!r}')
            i += 1
            k, lp = int(m.group(1)), m.group(2)
        body = []
        hdr = re.compile(r'# ID=\d+' if conll else r'ID=\d+, log probability=\S+')
        while i < len(lines) and not hdr.fullmatch(lines[i]):
            body.append(lines[i])
            i += 1
        out.append((k, lp, body))
    return out
