"""Import stubs for the third-party packages depccg imports but this sandbox does not have.

A ``sys.meta_path`` finder serves permissive stub modules for them, so that depccg.printer,
depccg.tools.reader, depccg.parsing and the ccg2lambda tools import from the repository *unmodified*.
Nothing of depccg itself is stubbed except ``depccg._parsing`` (the Cython extension, which cannot be
built here); ``harness/shim.py`` replaces that stub by the de-cythonized module when a check needs it.
"""
import sys, types, importlib.abc, importlib.machinery

STUB_TOPS = {'six', 'requests', 'gdown', 'nltk', 'yaml', 'simplejson', 'tqdm', 'allennlp', 'chainer', 'torch',
             'spacy', 'janome', 'cupy', 'overrides', 'transformers', 'google', 'googledrivedownloader',
             'google_drive_downloader'}


class _Any:
    def __init__(self, *a, **k): pass

    def __getattr__(self, k):
        if k.startswith('__') and k.endswith('__'):
            raise AttributeError(k)
        return _Any()

    def __call__(self, *a, **k):
        if len(a) == 1 and callable(a[0]) and not k:
            return a[0]   # decorator use
        return _Any()

    def __mro_entries__(self, bases): return (object,)
    def __iter__(self): return iter(())
    def __getitem__(self, k): return _Any()


class StubMod(types.ModuleType):
    __path__ = []

    def __getattr__(self, k):
        if k.startswith('__') and k.endswith('__'):
            raise AttributeError(k)
        return _Any()


class Finder(importlib.abc.MetaPathFinder, importlib.abc.Loader):
    def find_spec(self, name, path, target=None):
        if name.split('.')[0] in STUB_TOPS:
            return importlib.machinery.ModuleSpec(name, self, is_package=True)

    def create_module(self, spec): return StubMod(spec.name)
    def exec_module(self, m): pass


class Params:
    """allennlp.common.params.Params, as far as depccg/allennlp/utils.py read_params uses it: from_file(<config>.jsonnet) and pop(key).
    The configuration files are `local NAME = (import 'FILE').KEY;` lines followed by one object whose values are literals or those
    locals; a value is read from its file (harness/jsonnet.py) when it is popped."""

    def __init__(self, lazy):
        self._lazy = lazy

    @classmethod
    def from_file(cls, path, *a, **k):
        import os, re
        text = open(path, encoding='utf-8').read()
        here = os.path.dirname(os.path.abspath(path))
        local = {m.group(1): (os.path.join(here, m.group(2)), m.group(3))
                 for m in re.finditer(r"local\s+(\w+)\s*=\s*\(import\s+'([^']+)'\)\.(\w+)\s*;", text)}
        body = text[text.index('{', max([m.end() for m in re.finditer(r';', text)] + [0])):]
        lazy = {}
        for m in re.finditer(r'^\s*(\w+)\s*:\s*([^,\n]+?)\s*,?\s*$', body, flags=re.M):
            key, val = m.group(1), m.group(2)
            lazy[key] = ('import',) + local[val] if val in local else ('literal', val)
        return cls(lazy)

    def pop(self, key, *default):
        if key not in self._lazy:
            if default:
                return default[0]
            raise KeyError(key)
        kind, *rest = self._lazy.pop(key)
        if kind == 'import':
            import jsonnet
            return jsonnet.load(rest[0])[rest[1]]
        v = rest[0].strip()
        try:
            import ast
            return ast.literal_eval(v)
        except Exception:      # noqa
            return v


def install():
    if any(isinstance(f, Finder) for f in sys.meta_path):
        return
    sys.meta_path.insert(0, Finder())
    import tqdm
    tqdm.tqdm = lambda x, **k: x
    import allennlp.common.params
    allennlp.common.params.Params = Params
    if 'depccg._parsing' not in sys.modules:
        sys.modules['depccg._parsing'] = types.ModuleType('depccg._parsing')


install()
