import sys, os, argparse, importlib, json, traceback
sys.path.insert(0, os.path.dirname(os.path.abspath(__file__)))
import env
import common


def main():
    ap = argparse.ArgumentParser()
    ap.add_argument('pid')
    ap.add_argument('--tier', default=os.environ.get('VERIF_TIER', 'quick'))
    ap.add_argument('--replay')
    a = ap.parse_args()
    pid = a.pid.upper()
    mod = importlib.import_module(f'props.{pid.lower()}')
    if a.replay:
        data = json.load(open(a.replay))
        if hasattr(mod, 'replay'):
            return mod.replay(data)
        print(json.dumps(data, indent=1)[:4000])
        return 0
    ctx = common.Ctx(pid, a.tier)
    try:
        return mod.run(ctx)
    except Exception:
        tb = traceback.format_exc()
        ctx.obligation('harness ran to completion', False, tb)
        sys.stderr.write(tb)
        return ctx.finish(level='proof', rule='harness crashed before completing; see obligation list')


if __name__ == '__main__':
    sys.exit(main())
