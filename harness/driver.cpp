// C ABI around <repo>/depccg/parsing.h for ctypes.  Compiled fresh from the repository header on every run.
#include <climits>
#include <cstdlib>
#include <cstring>
#include "depccg/parsing.h"
extern "C" {
typedef int (*py_scaffold)(void* cb, unsigned x, unsigned y, void* results);
typedef unsigned (*py_final)(void* item, unsigned* tok, void* cache, void* args);
static py_scaffold g_scaffold; static py_final g_final;
static int c_scaffold(void* cb, unsigned x, unsigned y, std::vector<combinator_result>* r) { return g_scaffold(cb, x, y, (void*)r); }
static unsigned c_final(parsing::cell_item* it, unsigned* tok, cache_type* c, void* a) { return g_final((void*)it, tok, (void*)c, a); }
void* cache_new() { return new cache_type(); }
void cache_free(void* c) { delete (cache_type*)c; }
unsigned cache_size(void* c) { return ((cache_type*)c)->size(); }
void results_push(void* r, unsigned cat_id, unsigned rule_id, int head_is_left, const char* op_string, const char* op_symbol) {
  combinator_result c; c.cat_id = cat_id; c.rule_id = rule_id; c.head_is_left = head_is_left; c.op_string = op_string; c.op_symbol = op_symbol;
  ((std::vector<combinator_result>*)r)->push_back(c);
}
// ---- pop trace (verification hook of parsing.h, active only with DEPCCG_VERIF set) ----
struct pop_rec { int fin; unsigned cat; const void* left; const void* right; float in, out; unsigned start, len, head, rule; const void* stored; };
static std::vector<pop_rec> g_trace; static int g_trace_on = 0;
static void on_pop(const parsing::cell_item* p, const parsing::cell_item* stored) {
  if (!g_trace_on) return;
  g_trace.push_back(pop_rec{p->fin, p->cat, p->left, p->right, p->in_score, p->out_score, p->start_of_span, p->span_length, p->head_id, p->rule_id, stored});
}
void trace_enable(int on) { g_trace_on = on; g_trace.clear(); depccg_verif_pop_hook = on ? on_pop : nullptr; }
unsigned trace_len() { return g_trace.size(); }
void trace_get(unsigned i, int* fin, unsigned* cat, unsigned long long* left, unsigned long long* right, float* in, float* out,
               unsigned* start, unsigned* len, unsigned* head, unsigned* rule, unsigned long long* stored) {
  const pop_rec& r = g_trace[i];
  *fin = r.fin; *cat = r.cat; *left = (unsigned long long)r.left; *right = (unsigned long long)r.right; *in = r.in; *out = r.out;
  *start = r.start; *len = r.len; *head = r.head; *rule = r.rule; *stored = (unsigned long long)r.stored;
}
int run_parse(float* tag, float* dep, unsigned length, unsigned* roots, unsigned nroots, void* bcb, void* ucb, py_final fin, py_scaffold sc, void* fargs, void* cache,
              unsigned num_tags, float unary_penalty, float beta, int use_beta, unsigned pruning_size, unsigned nbest, unsigned max_step,
              float* cfg_f_out, unsigned* cfg_u_out) {
  std::unordered_set<unsigned> rs(roots, roots + nroots);
  config cfg{num_tags, unary_penalty, beta, (bool)use_beta, pruning_size, nbest, max_step};
  g_scaffold = sc; g_final = fin;
  // parsing.pyx hands the SAME config struct to every sentence of a call: whatever parse_sentence leaves in it is what the
  // next sentence sees, so the fields are copied back to the caller's object afterwards
  struct writeback { config& c; float* f; unsigned* u;
    ~writeback() { if (f) { f[0] = c.unary_penalty; f[1] = c.beta; }
                   if (u) { u[0] = c.num_tags; u[1] = c.use_beta; u[2] = c.pruning_size; u[3] = c.nbest; u[4] = c.max_step; } } } wb{cfg, cfg_f_out, cfg_u_out};
  try { return (int)parse_sentence(tag, dep, length, rs, bcb, ucb, c_final, c_scaffold, fargs, (cache_type*)cache, &cfg); }
  catch (std::exception& e) { if (std::getenv("DEPCCG_VERIF_DEBUG")) fprintf(stderr, "verif-driver: C++ exception: %s\n", e.what()); return -1; }
}
// accessors (compiled against the real struct, so a layout change cannot silently skew them)
int item_fin(void* p) { return ((parsing::cell_item*)p)->fin; }
unsigned item_cat(void* p) { return ((parsing::cell_item*)p)->cat; }
void* item_left(void* p) { return ((parsing::cell_item*)p)->left; }
void* item_right(void* p) { return ((parsing::cell_item*)p)->right; }
float item_in(void* p) { return ((parsing::cell_item*)p)->in_score; }
float item_out(void* p) { return ((parsing::cell_item*)p)->out_score; }
float item_score(void* p) { return ((parsing::cell_item*)p)->score(); }
unsigned item_start(void* p) { return ((parsing::cell_item*)p)->start_of_span; }
unsigned item_len(void* p) { return ((parsing::cell_item*)p)->span_length; }
unsigned item_head(void* p) { return ((parsing::cell_item*)p)->head_id; }
unsigned item_rule(void* p) { return ((parsing::cell_item*)p)->rule_id; }
// cache[0][key][i] with std::unordered_map::operator[] semantics
unsigned cache_len(void* c, unsigned a, unsigned b) { return (*(cache_type*)c)[std::make_pair(a,b)].size(); }
const char* cache_op_string(void* c, unsigned a, unsigned b, unsigned i) { return (*(cache_type*)c)[std::make_pair(a,b)][i].op_string.c_str(); }
const char* cache_op_symbol(void* c, unsigned a, unsigned b, unsigned i) { return (*(cache_type*)c)[std::make_pair(a,b)][i].op_symbol.c_str(); }
int cache_head_is_left(void* c, unsigned a, unsigned b, unsigned i) { return (*(cache_type*)c)[std::make_pair(a,b)][i].head_is_left; }
unsigned cache_cat_id(void* c, unsigned a, unsigned b, unsigned i) { return (*(cache_type*)c)[std::make_pair(a,b)][i].cat_id; }
}
