"""evidence file for a check that was stopped by the watchdog of ./check (the harness itself could not write one)"""
import sys, os, json
sys.path.insert(0, os.path.dirname(os.path.abspath(__file__)))
import env, common

pid, tier, what, why = sys.argv[1], sys.argv[2], sys.argv[3], sys.argv[4]
ctx = common.Ctx(pid, tier)
ctx.obligation(what, False, why)
import io, contextlib
with contextlib.redirect_stdout(io.StringIO()):
    ctx.finish(level='proof', rule='the run ended abnormally (watchdog or signal) before its cases were recorded')
