"""Shared by the C18 and C19 checks: running the real printers, deep snapshots of result objects, batch generators,
JSON encoding of batches for replay files, record counting per output format."""
import copy, functools, json, logging, math, os, re, sys, traceback

import env
import gen
sys.path.insert(0, os.path.join(env.VERIF, 'translate'))
import gen_render
from gallina import lit, gcat, gbool

from depccg.cat import Category
from depccg.tree import Tree, ScoredTree
from depccg.types import Token
from depccg import lang as dlang
import depccg.printer as printer

logging.getLogger('depccg.lang').setLevel(logging.WARNING)      # set_global_language_to logs every call

NLTK_BOUND = ('ccg2lambda', 'jigg_xml_ccg2lambda')      # enter depccg.semantics -> nltk: cannot run in this sandbox


@functools.lru_cache(None)
def cli_formats():
    """{'en': [...], 'ja': [...]}: the --format choices read from depccg/argparse.py, minus the two nltk-bound ones"""
    cli = gen_render.cli_formats(env.REPO)
    return {l: [f for f in fs if f not in NLTK_BOUND] for l, fs in cli.items()}, cli


# ---- running the implementation -------------------------------------------------------------------------
def render(lang, batch, fmt):
    """('ok', text) | ('key', k) | ('label', k) | ('other', 'Type: message')  - what to_string did"""
    dlang.set_global_language_to(lang)
    try:
        return ('ok', printer.to_string(batch, format=fmt))
    except KeyError as e:
        fr = traceback.extract_tb(e.__traceback__)[-1]
        key = e.args[0] if e.args else None
        if not isinstance(key, str):
            return ('other', f'KeyError: {e!r}')
        fn = fr.filename.replace('\\', '/')
        if fn.endswith('depccg/types.py') or fn.endswith('depccg/tree.py') or 'token' in (fr.line or ''):
            return ('key', key)
        if '/depccg/printer/' in fn:
            return ('label', key)
        return ('other', f'KeyError {key!r} at {fn}:{fr.lineno}')
    except Exception as e:          # noqa
        return ('other', f'{type(e).__name__}: {e}')
    finally:
        dlang.set_global_language_to('en')


def robs(r):
    """Gallina term of type Render.robs"""
    if r[0] == 'ok':
        return 'ROk'
    if r[0] == 'key':
        return f'(RKey {lit(r[1])})'
    if r[0] == 'label':
        return f'(RLabel {lit(r[1])})'
    return 'ROther'


def gtext(x):
    """texts of the model; a value that is not a string (only a defective printer puts one into a token) is shown by its repr"""
    return lit(x if isinstance(x, str) else '\x00' + repr(x))


def gtree(t):
    """like gallina.gtree, but total on whatever a printer may have left in a token"""
    if t.is_leaf:
        tok = '[' + ';'.join(f'({gtext(k)},{gtext(v)})' for k, v in t.token.items()) + ']'
        return f'(Leaf {gcat(t.cat)} {tok} {gtext(t.op_string)} {gtext(t.op_symbol)})'
    if t.is_unary:
        return f'(Un {gcat(t.cat)} {gtext(t.op_string)} {gtext(t.op_symbol)} {gtree(t.child)})'
    return f'(Bin {gcat(t.cat)} {gtext(t.op_string)} {gtext(t.op_symbol)} {gbool(t.head_is_left)} {gtree(t.left_child)} {gtree(t.right_child)})'


@functools.lru_cache(None)
def modelled_formats():
    """{(lang, fmt)} that the generated table describes (the formats the theorems speak about)"""
    return set(gen_render.analyse(env.REPO)['formats'])


def gbatch(batch):
    return '[' + ';'.join('[' + ';'.join(gtree(st.tree) for st in sent) + ']' for sent in batch) + ']'


# ---- deep snapshots ---------------------------------------------------------------------------------------
def snap_feature(f):
    return (id(f), type(f).__name__, tuple(sorted((k, repr(v)) for k, v in vars(f).items())) if hasattr(f, '__dict__') else repr(f))


def snap_cat(c):
    if isinstance(c, Category):
        d = getattr(c, '__dict__', {})
        extra = tuple((k, id(v), repr(v)) for k, v in d.items() if k not in ('left', 'right', 'slash', 'base', 'feature'))
        if c.is_functor:
            return ('F', id(c), type(c).__name__, tuple(d), snap_cat(c.left), c.slash, snap_cat(c.right), extra)
        return ('A', id(c), type(c).__name__, tuple(d), c.base, snap_feature(c.feature), extra)
    return ('?', id(c), repr(c))


def snap_token(t):
    return ('K', id(t), type(t).__name__, tuple((k, id(v), v) for k, v in t.items()), tuple((k, repr(v)) for k, v in vars(t).items()))


def snap_tree(t):
    if isinstance(t, Token):
        return snap_token(t)
    if not isinstance(t, Tree):
        return ('?', id(t), repr(t))
    d = vars(t)
    known = ('cat', 'children', 'op_string', 'op_symbol', 'head_is_left')
    extra = tuple((k, id(v), repr(v)) for k, v in d.items() if k not in known)
    ch = d.get('children')
    return ('T', id(t), tuple(d.keys()), snap_cat(d.get('cat')), (id(d.get('op_string')), d.get('op_string')), (id(d.get('op_symbol')), d.get('op_symbol')),
            d.get('head_is_left'), id(ch), type(ch).__name__, tuple(snap_tree(c) for c in ch) if isinstance(ch, (list, tuple)) else repr(ch), extra)


def snapshot(batch):
    return (id(batch), tuple((id(sent), tuple((id(st), type(st).__name__, id(st.tree), repr(st.score), snap_tree(st.tree)) for st in sent)) for sent in batch))


def first_difference(a, b, path='batch'):
    """where two snapshots differ (for messages)"""
    if type(a) != type(b):
        return f'{path}: {a!r} -> {b!r}'
    if isinstance(a, tuple):
        if len(a) != len(b):
            return f'{path}: length {len(a)} -> {len(b)}: {a!r} -> {b!r}'[:400]
        for i, (x, y) in enumerate(zip(a, b)):
            if x != y:
                return first_difference(x, y, f'{path}[{i}]')
        return None
    return None if a == b else f'{path}: {a!r} -> {b!r}'


# ---- JSON encoding (replay files) -------------------------------------------------------------------------
def enc_tree(t):
    if t.is_leaf:
        return {'cat': str(t.cat), 'token': {str(k): (v if isinstance(v, str) else repr(v)) for k, v in t.token.items()}, 'ops': t.op_string, 'sym': t.op_symbol}
    return {'cat': str(t.cat), 'ops': t.op_string, 'sym': t.op_symbol, 'hl': bool(t.head_is_left), 'children': [enc_tree(c) for c in t.children]}


def dec_tree(d):
    c = Category.parse(d['cat'])
    if 'token' in d:
        return Tree.make_terminal(Token(**d['token']), c, d['ops'], d['sym'])
    ch = [dec_tree(x) for x in d['children']]
    if len(ch) == 1:
        return Tree.make_unary(c, ch[0], d['ops'], d['sym'])
    return Tree.make_binary(c, ch[0], ch[1], d['ops'], d['sym'], d['hl'])


def enc_batch(batch):
    return [[{'tree': enc_tree(st.tree), 'score': repr(st.score)} for st in sent] for sent in batch]


def dec_batch(data):
    return [[ScoredTree(dec_tree(x['tree']), float(x['score'])) for x in sent] for sent in data]


def batch_sig(batch):
    return tuple(tuple(gen.tree_sig(st.tree) for st in sent) for sent in batch)


# ---- generators ----------------------------------------------------------------------------------------------
def placeholder():
    """what depccg/parsing.pyx returns for a sentence it cannot parse"""
    return [ScoredTree(tree=Tree.make_terminal("FAILED", Category.parse("NP")), score=-float('inf'))]


def rebuild(t, share_tokens=True, relabel=None):
    """a structurally equal tree made of new Tree objects, over the same Token objects (n-best lists of the parser share them)"""
    if t.is_leaf:
        return Tree.make_terminal(t.token if share_tokens else Token(**t.token), t.cat, t.op_string, t.op_symbol)
    ch = [rebuild(c, share_tokens) for c in t.children]
    if len(ch) == 1:
        return Tree.make_unary(t.cat, ch[0], t.op_string, t.op_symbol)
    return Tree.make_binary(t.cat, ch[0], ch[1], t.op_string, t.op_symbol, t.head_is_left)


def fresh(batch):
    """structurally equal batch made of new Tree / Token objects; Token objects shared inside the batch stay shared (what
    copy.deepcopy would give, without its recursion depth of several frames per tree level)"""
    memo = {}

    def tok(t):
        if id(t) not in memo:
            memo[id(t)] = Token(**t)
        return memo[id(t)]

    def rec(t):
        if t.is_leaf:
            return Tree.make_terminal(tok(t.token), t.cat, t.op_string, t.op_symbol)
        ch = [rec(c) for c in t.children]
        if len(ch) == 1:
            return Tree.make_unary(t.cat, ch[0], t.op_string, t.op_symbol)
        return Tree.make_binary(t.cat, ch[0], ch[1], t.op_string, t.op_symbol, t.head_is_left)
    return [[ScoredTree(rec(st.tree), st.score) for st in sent] for sent in batch]


def score(rng):
    return -rng.randint(0, 1023) / 8.0


def sentence(rng, lang, full=None, nbest=None, plain=False):
    """an n-best list of licensed derivations (the alternatives share the token objects, as parser output does)"""
    full = (rng.random() < 0.6) if full is None else full
    t = gen.licensed_tree(rng, lang, nleaves=rng.randint(1, 6), full_tokens=full, plain_words=plain)
    out = [ScoredTree(t, score(rng))]
    for _ in range((nbest or rng.choice([1, 1, 2, 3])) - 1):
        # alternatives may tie exactly (spurious ambiguity: same supertags and dependencies, another bracketing)
        sc = out[-1].score if rng.random() < 0.3 else score(rng)
        out.append(ScoredTree(rebuild(t) if rng.random() < 0.5 else gen.licensed_tree(rng, lang, nleaves=rng.randint(1, 5), full_tokens=full, plain_words=plain), sc))
    return out


def licensed_batch(rng, lang, n=None, with_failed=None):
    n = n or rng.randint(1, 4)
    b = [sentence(rng, lang) for _ in range(n)]
    if with_failed if with_failed is not None else rng.random() < 0.5:
        for _ in range(rng.choice([1, 1, 2])):
            b.insert(rng.randint(0, len(b)), placeholder())
    return b


def labelled_tree(rng, lang, kind, ops, sym, full=True):
    """a tree that carries the label pair (ops, sym) on a binary / unary node, above licensed material.
    English 'conj' nodes get a functor category, as both conjunction rules produce (prolog reads node.cat.left there)."""
    l = gen.licensed_tree(rng, lang, nleaves=rng.randint(1, 3), full_tokens=full)
    if kind == 'unary':
        t = Tree.make_unary(l.cat, l, ops, sym)
    else:
        r = gen.licensed_tree(rng, lang, nleaves=rng.randint(1, 3), full_tokens=full)
        cat = r.cat
        if lang == 'en' and ops.startswith('conj'):
            cat = r.cat | r.cat
        hl = rng.random() < 0.5
        t = Tree.make_binary(cat, l, r, ops, sym, hl)
    # sometimes deeper: put it under a licensed-looking parent that reuses one of the vocabulary labels
    return t


def emitted_labels(lang, limit=None, rng=None):
    """label pairs the real rule functions emit on the shipped inventory / unary table (independent of the translator)"""
    binary, unary, table = gen.grammar(lang)
    inv = [Category.parse(s) for s in gen.inventory(lang)]
    seen_b, seen_u = {}, {}
    for x in table:
        for r in unary(x):
            seen_u.setdefault((r.op_string, r.op_symbol), str(x))
    pairs = [(Category.parse(a), Category.parse(b)) for a, b in gen.model_file(f'seen_rules.{lang}.jsonnet')]
    if limit and len(pairs) > limit:
        pairs = rng.sample(pairs, limit)
    for a, b in pairs:
        for r in binary(a, b):
            seen_b.setdefault((r.op_string, r.op_symbol), (str(a), str(b)))
    if rng is not None:
        for _ in range(limit or 2000):
            a, b = rng.choice(inv), rng.choice(inv)
            for r in binary(a, b):
                seen_b.setdefault((r.op_string, r.op_symbol), (str(a), str(b)))
    return seen_b, seen_u


# ---- records per sentence ---------------------------------------------------------------------------------
def records(fmt, text, batch):
    """None if `text` has exactly one record per tree of every sentence, in order; else a description of what is missing"""
    want = [(i, len(sent)) for i, sent in enumerate(batch, 1)]
    total = sum(k for _, k in want)

    def per_id(ids):
        got = {}
        for i in ids:
            got[i] = got.get(i, 0) + 1
        exp = {i: k for i, k in want}
        return None if got == exp else f'records per sentence {got} != trees per sentence {exp}'
    if fmt in ('auto', 'auto_extended', 'ptb', 'ja', 'deriv'):
        return per_id([int(m) for m in re.findall(r'^ID=(\d+), log probability=', text, flags=re.M)])
    if fmt == 'conll':
        return per_id([int(m) for m in re.findall(r'^# ID=(\d+)$', text, flags=re.M)])
    if fmt == 'html':
        ids = [int(m) for m in re.findall(r'<p>ID=(\d+): ', text)]
        if ids != [i for i, _ in want]:
            return f'sentence headers {ids}'
        n = text.count('<math xmlns=')
        return None if n == total else f'{n} <math> blocks for {total} trees'
    if fmt == 'json':
        d = json.loads(text)
        got = {int(k): len(v) for k, v in d.items()}
        return None if got == dict(want) else f'json keys {got}'
    if fmt == 'prolog':
        return per_id([int(m) for m in re.findall(r'^ccg\((\d+),', text, flags=re.M)])
    from lxml import etree
    if fmt == 'xml':
        root = etree.fromstring(text.encode('utf-8'))
        return per_id([int(c.get('sentence')) for c in root.iter('ccg')])
    if fmt == 'jigg_xml':
        root = etree.fromstring(text.encode('utf-8'))
        sents = list(root.iter('sentence'))
        got = [len(list(s.iter('ccg'))) for s in sents]
        return None if got == [k for _, k in want] else f'ccg elements per sentence {got} != {[k for _, k in want]}'
    return f'no record counter for format {fmt}'
